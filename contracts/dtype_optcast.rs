// f64 -> Option<f64> (NaN <-> None); kept apart because a second Cast impl on f64 makes `x.cast()` ambiguous in
// monomorphised bodies whose only bound in /repo is `T: Cast<f64>`
impl Cast<Option<f64>> for f64 {
    open spec fn cast_spec(self) -> Option<f64> { if nan(self) { None } else { Some(self) } }
    #[verifier::external_body]
    fn cast(self) -> Option<f64> { if self.is_nan() { None } else { Some(self) } }
}

