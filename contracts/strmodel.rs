// ============================================================================================
// strmodel.rs — abstract string model (R13).  A &str is a sequence of chars with strictly increasing
// byte offsets; slicing has the precondition Rust's indexing really has (char boundaries, a <= b <= len).
// The byte-level UTF-8 layer of `str` itself is NOT covered (DESIGN 6/C18, 9).
// ============================================================================================
#[verifier::external_body]
pub struct Str { _p: u8 }
impl Str {
    pub uninterp spec fn chars(&self) -> Seq<char>;
    pub uninterp spec fn offs(&self) -> Seq<int>;            // byte offset of each char
    pub uninterp spec fn blen(&self) -> int;                 // byte length
    pub open spec fn wf(&self) -> bool {
        &&& self.offs().len() == self.chars().len()
        &&& (self.chars().len() > 0 ==> self.offs()[0] == 0)
        &&& (self.chars().len() == 0 ==> self.blen() == 0)
        &&& forall|i: int, j: int| 0 <= i < j < self.offs().len() ==> self.offs()[i] < self.offs()[j]
        &&& forall|i: int| 0 <= i < self.offs().len() ==> 0 <= #[trigger] self.offs()[i] < self.blen()
        &&& 0 <= self.blen() <= usize::MAX
    }
    pub open spec fn boundary(&self, b: int) -> bool {
        b == self.blen() || exists|k: int| 0 <= k < self.offs().len() && #[trigger] self.offs()[k] == b
    }
    // `s.char_indices()`
    #[verifier::external_body]
    pub fn char_indices(&self) -> (r: CharIndices)
        requires self.wf(),
        ensures r.src() == *self, r.pos() == 0,
    { unimplemented!() }
    // `&s[a..b]` : panics unless a <= b <= len and both are char boundaries
    #[verifier::external_body]
    pub fn slice(&self, a: usize, b: usize) -> (r: StrSlice)
        requires
            self.wf(),
            a <= b <= self.blen(),                                  // #C18 slice_in_bounds
            self.boundary(a as int) && self.boundary(b as int),     // #C18 slice_on_char_boundary
        ensures r.text() == self.text_between(a as int, b as int),
    { unimplemented!() }
    pub uninterp spec fn text_between(&self, a: int, b: int) -> Seq<char>;
}
#[verifier::external_body]
pub struct StrSlice { _p: u8 }
// value of an integer literal `[+-]?[0-9]+` that fits i64 (core::str::parse::<i64>), None otherwise
pub uninterp spec fn int_lit(s: Seq<char>) -> Option<i64>;
#[verifier::external_body]
pub struct ParseIntError { _p: u8 }
impl StrSlice {
    pub uninterp spec fn text(&self) -> Seq<char>;
    #[verifier::external_body]
    pub fn parse_i64(&self) -> (r: Result<i64, ParseIntError>)
        ensures (r matches Ok(v) ==> int_lit(self.text()) == Some(v)), r.is_err() ==> int_lit(self.text()).is_none(),
    { unimplemented!() }
}
#[verifier::external_body]
pub struct CharIndices { _p: u8 }
impl CharIndices {
    pub uninterp spec fn src(&self) -> Str;
    pub uninterp spec fn pos(&self) -> int;                  // index of the next char to yield
    pub open spec fn count(&self) -> int { self.src().chars().len() as int }        // items in total
    pub open spec fn off(&self, k: int) -> int { self.src().offs()[k] }             // byte offset reported with item k
    #[verifier::external_body]
    pub fn next(&mut self) -> (r: Option<(usize, char)>)
        requires old(self).src().wf(), 0 <= old(self).pos() <= old(self).src().chars().len(),
        ensures
            final(self).src() == old(self).src(),
            old(self).pos() < old(self).src().chars().len() ==>
                r == Some((old(self).src().offs()[old(self).pos()] as usize, old(self).src().chars()[old(self).pos()]))
                && final(self).pos() == old(self).pos() + 1,
            old(self).pos() >= old(self).src().chars().len() ==> r.is_none() && final(self).pos() == old(self).pos(),
    { unimplemented!() }
}
// the `String` unit buffer of TimeDelta::parse
pub struct UnitBuf { pub v: Vec<char> }
impl UnitBuf {
    pub fn with_capacity(n: usize) -> (r: UnitBuf) ensures r.v@.len() == 0 { UnitBuf { v: Vec::new() } }
    pub fn push(&mut self, ch: char) ensures final(self).v@ == old(self).v@.push(ch) { self.v.push(ch) }
    pub fn is_empty(&self) -> (r: bool) ensures r == (self.v@.len() == 0) { self.v.len() == 0 }
    pub fn clear(&mut self) ensures final(self).v@.len() == 0 { self.v.clear() }
    pub fn as_str(&self) -> (r: &UnitBuf) ensures r == self { self }
}
// `match x.as_str() { "lit0" => .., "lit1" => .., other => .. }` is rewritten (R19) to a match on the index of the
// first literal equal to the text; the literal table is emitted by the extractor from the source
pub uninterp spec fn lit_index(text: Seq<char>, table: Seq<Seq<char>>) -> int;
pub broadcast axiom fn ax_lit_index(text: Seq<char>, table: Seq<Seq<char>>)
    ensures
        0 <= #[trigger] lit_index(text, table) <= table.len(),
        lit_index(text, table) < table.len() ==> table[lit_index(text, table)] == text,
        lit_index(text, table) == table.len() ==> forall|k: int| 0 <= k < table.len() ==> table[k] != text;
#[verifier::external_body]
pub fn str_match_index(u: &UnitBuf, Ghost(table): Ghost<Seq<Seq<char>>>) -> (r: usize)
    ensures r as int == lit_index(u.v@, table),
{ unimplemented!() }

pub assume_specification[ char::is_ascii_digit ](c: &char) -> (b: bool);
pub assume_specification[ char::is_ascii_alphabetic ](c: &char) -> (b: bool);

// byte-level iteration `s.bytes().enumerate()`: every byte index is reported, whether or not it is a char boundary
#[verifier::external_body]
pub struct Bytes { _p: u8 }
#[verifier::external_body]
pub struct EnumBytes { _p: u8 }
impl Str {
    #[verifier::external_body]
    pub fn bytes(&self) -> (r: Bytes)
        requires self.wf(),
        ensures r.src() == *self,
    { unimplemented!() }
}
impl Bytes {
    pub uninterp spec fn src(&self) -> Str;
    #[verifier::external_body]
    pub fn enumerate(self) -> (r: EnumBytes)
        ensures r.src() == self.src(), r.pos() == 0,
    { unimplemented!() }
}
impl EnumBytes {
    pub uninterp spec fn src(&self) -> Str;
    pub uninterp spec fn pos(&self) -> int;
    pub open spec fn count(&self) -> int { self.src().blen() }
    pub open spec fn off(&self, k: int) -> int { k }
    #[verifier::external_body]
    pub fn next(&mut self) -> (r: Option<(usize, u8)>)
        requires old(self).src().wf(), 0 <= old(self).pos() <= old(self).src().blen(),
        ensures
            final(self).src() == old(self).src(),
            old(self).pos() < old(self).src().blen() ==> r.is_some() && r.unwrap().0 == old(self).pos() && final(self).pos() == old(self).pos() + 1,
            old(self).pos() >= old(self).src().blen() ==> r.is_none() && final(self).pos() == old(self).pos(),
    { unimplemented!() }
}
pub assume_specification[ u8::is_ascii_digit ](c: &u8) -> (b: bool);
pub assume_specification[ u8::is_ascii_alphabetic ](c: &u8) -> (b: bool);
