// ============================================================================================
// iter.rs — A-ITER: one abstract type for every std / tevec iterator (DESIGN 2.3, 3).
// seq()       what plain iteration will yield, front to back
// announced() upper bound of size_hint() (None = unbounded/unknown)
// trusted()   the static type implements TrustedLen (tea-core trusted.rs table)
// ============================================================================================
#[verifier::external_body]
#[verifier::accept_recursive_types(A)]
pub struct It<A> { _p: core::marker::PhantomData<A> }

impl<A> It<A> {
    pub uninterp spec fn seq(&self) -> Seq<A>;
    pub uninterp spec fn announced(&self) -> Option<nat>;
    pub uninterp spec fn trusted(&self) -> bool;
}

// a trusted-length iterator keeps its promise: it yields exactly as many items as it announces (C09)
pub open spec fn honest<A>(it: &It<A>) -> bool {
    it.trusted() ==> it.announced() == Some(it.seq().len())
}

pub trait TIter<T>: Vec1View<T> {
    fn titer(&self) -> (it: It<T>)
        ensures it.seq() == self.view(), it.announced() == Some(self.view().len()), it.trusted();
}

pub open spec fn min_nat(a: nat, b: nat) -> nat { if a <= b { a } else { b } }
pub open spec fn opt_min(a: Option<nat>, b: Option<nat>) -> Option<nat> {
    match (a, b) { (Some(x), Some(y)) => Some(min_nat(x, y)), (Some(x), None) => Some(x), (None, Some(y)) => Some(y), (None, None) => None }
}
pub open spec fn opt_add(a: Option<nat>, b: Option<nat>) -> Option<nat> {
    match (a, b) { (Some(x), Some(y)) => Some(x + y), _ => None }
}

// std adaptors (A-ITER): exact sequence semantics; size_hint upper bound as std computes it; TrustedLen per
// tea-core/src/vec_core/trusted.rs (Take, Skip, Chain, Zip, Map, Rev, RepeatN, Range, vec::IntoIter, TrustIter: yes; Filter: no)
impl<A> It<A> {
    // TrustedLen::len() of tevec = size_hint().1.unwrap()
    #[verifier::external_body]
    pub fn len(&self) -> (r: usize)
        requires self.announced().is_some(),
        ensures Some(r as nat) == self.announced(),
    { unimplemented!() }

    #[verifier::external_body]
    pub fn take(self, k: usize) -> (r: It<A>)
        ensures
            r.seq() == self.seq().take(min_nat(k as nat, self.seq().len()) as int),
            r.announced() == opt_min(Some(k as nat), self.announced()),
            r.trusted() == self.trusted(),
    { unimplemented!() }

    #[verifier::external_body]
    pub fn skip(self, k: usize) -> (r: It<A>)
        ensures
            r.seq() == self.seq().skip(min_nat(k as nat, self.seq().len()) as int),
            r.announced() == (match self.announced() { Some(a) => Some(if k as nat <= a { (a - k) as nat } else { 0nat }), None => None }),
            r.trusted() == self.trusted(),
    { unimplemented!() }

    #[verifier::external_body]
    pub fn chain(self, o: It<A>) -> (r: It<A>)
        ensures
            r.seq() == self.seq() + o.seq(),
            r.announced() == opt_add(self.announced(), o.announced()),
            r.trusted() == (self.trusted() && o.trusted()),
    { unimplemented!() }

    #[verifier::external_body]
    pub fn zip<B>(self, o: It<B>) -> (r: It<(A, B)>)
        ensures
            r.seq() == Seq::new(min_nat(self.seq().len(), o.seq().len()), |i: int| (self.seq()[i], o.seq()[i])),
            r.announced() == opt_min(self.announced(), o.announced()),
            r.trusted() == (self.trusted() && o.trusted()),
    { unimplemented!() }

    #[verifier::external_body]
    pub fn map<B, F: Fn(A) -> B>(self, f: F) -> (r: It<B>)
        requires forall|x: A| #[trigger] f.requires((x,)),
        ensures
            r.seq().len() == self.seq().len(),
            forall|i: int| 0 <= i < self.seq().len() ==> f.ensures((self.seq()[i],), #[trigger] r.seq()[i]),
            r.announced() == self.announced(),
            r.trusted() == self.trusted(),
    { unimplemented!() }

    #[verifier::external_body]
    pub fn rev(self) -> (r: It<A>)
        ensures r.seq() == self.seq().reverse(), r.announced() == self.announced(), r.trusted() == self.trusted(),
    { unimplemented!() }

    // tea-core trusted.rs: TrustIter::new(iter, len) / ToTrustIter::to_trust(len) — an UNSAFE promise (R12).
    // The promise must be true: this precondition is the C09 obligation at every construction site.
    #[verifier::external_body]
    pub fn to_trust(self, len: usize) -> (r: It<A>)
        requires self.seq().len() == len,          // #C09 announced_length_is_exact
        ensures r.seq() == self.seq(), r.announced() == Some(len as nat), r.trusted(),
    { unimplemented!() }
}

#[verifier::external_body]
pub fn repeat_n<A>(v: A, k: usize) -> (r: It<A>)
    ensures r.seq() == Seq::new(k as nat, |i: int| v), r.announced() == Some(k as nat), r.trusted(),
{ unimplemented!() }

#[verifier::external_body]
pub fn trust_iter_new<A>(it: It<A>, len: usize) -> (r: It<A>)
    requires it.seq().len() == len,                // #C09 announced_length_is_exact
    ensures r.seq() == it.seq(), r.announced() == Some(len as nat), r.trusted(),
{ unimplemented!() }
