// ============================================================================================
// iter.rs — A-ITER: one abstract type for every std / tevec iterator (DESIGN 2.3, 3).
// seq()       what plain iteration will yield, front to back
// announced() upper bound of size_hint() (None = unbounded/unknown)
// trusted()   the static type implements TrustedLen (tea-core trusted.rs table)
// ============================================================================================
#[verifier::external_body]
#[verifier::accept_recursive_types(A)]
pub struct It<A> { _p: core::marker::PhantomData<A> }

impl<A> It<A> {
    pub uninterp spec fn seq(&self) -> Seq<A>;
    pub uninterp spec fn announced(&self) -> Option<nat>;
    pub uninterp spec fn trusted(&self) -> bool;
    // Some(v): after seq() the iterator yields v forever (std::iter::repeat); None: it ends after seq()
    pub uninterp spec fn forever(&self) -> Option<A>;
}
// the first k items of an iterator (finite part, then the repeated value)
pub open spec fn first_k<A>(s: Seq<A>, f: Option<A>, k: nat) -> Seq<A> {
    match f {
        Some(v) => Seq::new(k, |i: int| if i < s.len() { s[i] } else { v }),
        None => s.take(min_nat(k, s.len()) as int),
    }
}

// a trusted-length iterator keeps its promise: it yields exactly as many items as it announces (C09)
pub open spec fn honest<A>(it: &It<A>) -> bool {
    it.trusted() ==> it.announced() == Some(it.seq().len()) && it.forever().is_none()
}

pub trait TIter<T>: Vec1View<T> {
    fn titer(&self) -> (it: It<T>)
        ensures it.seq() == self.view(), it.announced() == Some(self.view().len()), it.trusted(), it.forever().is_none();
}

pub open spec fn min_nat(a: nat, b: nat) -> nat { if a <= b { a } else { b } }
pub open spec fn opt_min(a: Option<nat>, b: Option<nat>) -> Option<nat> {
    match (a, b) { (Some(x), Some(y)) => Some(min_nat(x, y)), (Some(x), None) => Some(x), (None, Some(y)) => Some(y), (None, None) => None }
}
pub open spec fn opt_add(a: Option<nat>, b: Option<nat>) -> Option<nat> {
    match (a, b) { (Some(x), Some(y)) => Some(x + y), _ => None }
}

// std adaptors (A-ITER): exact sequence semantics; size_hint upper bound as std computes it; TrustedLen per
// tea-core/src/vec_core/trusted.rs (Take, Skip, Chain, Zip, Map, Rev, RepeatN, Range, vec::IntoIter, TrustIter: yes; Filter: no)
impl<A> It<A> {
    // TrustedLen::len() of tevec = size_hint().1.unwrap()
    #[verifier::external_body]
    pub fn len(&self) -> (r: usize)
        requires self.announced().is_some(),
        ensures Some(r as nat) == self.announced(),
    { unimplemented!() }

    #[verifier::external_body]
    pub fn take(self, k: usize) -> (r: It<A>)
        ensures
            r.seq() == first_k(self.seq(), self.forever(), k as nat),
            r.forever().is_none(),
            r.announced() == opt_min(Some(k as nat), self.announced()),
            r.trusted() == self.trusted(),
    { unimplemented!() }

    #[verifier::external_body]
    pub fn skip(self, k: usize) -> (r: It<A>)
        ensures
            r.seq() == self.seq().skip(min_nat(k as nat, self.seq().len()) as int), r.forever() == self.forever(),
            r.announced() == (match self.announced() { Some(a) => Some(if k as nat <= a { (a - k) as nat } else { 0nat }), None => None }),
            r.trusted() == self.trusted(),
    { unimplemented!() }

    #[verifier::external_body]
    pub fn chain(self, o: It<A>) -> (r: It<A>)
        ensures
            self.forever().is_none() ==> r.seq() == self.seq() + o.seq() && r.forever() == o.forever(),
            self.forever().is_some() ==> r.seq() == self.seq() && r.forever() == self.forever(),
            r.announced() == opt_add(self.announced(), o.announced()),
            r.trusted() == (self.trusted() && o.trusted()),
    { unimplemented!() }

    #[verifier::external_body]
    pub fn zip<B>(self, o: It<B>) -> (r: It<(A, B)>)
        requires self.forever().is_none() && o.forever().is_none(),    // the model covers finite zips only (all that tevec builds)
        ensures
            r.forever().is_none(),
            r.seq() == Seq::new(min_nat(self.seq().len(), o.seq().len()), |i: int| (self.seq()[i], o.seq()[i])),
            r.announced() == opt_min(self.announced(), o.announced()),
            r.trusted() == (self.trusted() && o.trusted()),
    { unimplemented!() }

    #[verifier::external_body]
    pub fn map<B, F: Fn(A) -> B>(self, f: F) -> (r: It<B>)
        requires
            forall|i: int| 0 <= i < self.seq().len() ==> f.requires((#[trigger] self.seq()[i],)),       // the closure is applied to the items only
            self.forever() matches Some(v) ==> f.requires((v,)),
        ensures
            r.seq().len() == self.seq().len(), self.forever().is_none() ==> r.forever().is_none(),
            forall|i: int| 0 <= i < self.seq().len() ==> f.ensures((self.seq()[i],), #[trigger] r.seq()[i]),
            r.announced() == self.announced(),
            r.trusted() == self.trusted(),
    { unimplemented!() }

    #[verifier::external_body]
    pub fn rev(self) -> (r: It<A>)
        requires self.forever().is_none(),
        ensures r.seq() == self.seq().reverse(), r.announced() == self.announced(), r.trusted() == self.trusted(), r.forever().is_none(),
    { unimplemented!() }

    // tea-core trusted.rs: TrustIter::new(iter, len) / ToTrustIter::to_trust(len) — an UNSAFE promise (R12).
    // The promise must be true: this precondition is the C09 obligation at every construction site.
    #[verifier::external_body]
    pub fn to_trust(self, len: usize) -> (r: It<A>)
        requires self.seq().len() == len && self.forever().is_none(),          // #C09 announced_length_is_exact
        ensures r.seq() == self.seq(), r.announced() == Some(len as nat), r.trusted(), r.forever().is_none(),
    { unimplemented!() }

    #[verifier::external_body]
    pub fn enumerate(self) -> (r: It<(usize, A)>)
        requires self.forever().is_none(),
        ensures
            r.seq() == Seq::new(self.seq().len(), |i: int| (i as usize, self.seq()[i])), r.forever().is_none(),
            r.announced() == self.announced(), r.trusted() == self.trusted(),
    { unimplemented!() }

    // Filter / FilterMap are NOT TrustedLen (tea-core trusted.rs): their size_hint upper bound is only an upper bound
    #[verifier::external_body]
    pub fn filter_map<B, F: Fn(A) -> Option<B>>(self, f: F) -> (r: It<B>)
        requires self.forever().is_none(), forall|x: A| #[trigger] f.requires((x,)),
        ensures
            !r.trusted(), r.forever().is_none(), r.announced() == self.announced(),
            filter_mapped(self.seq(), r.seq(), |x: A, y: Option<B>| f.ensures((x,), y)),
    { unimplemented!() }
}
// r is s mapped through the relation p, keeping the Some results in order
pub open spec fn filter_mapped<A, B>(s: Seq<A>, r: Seq<B>, p: spec_fn(A, Option<B>) -> bool) -> bool
    decreases s.len()
{
    if s.len() == 0 { r.len() == 0 } else {
        (p(s.last(), None) && filter_mapped(s.drop_last(), r, p))
        || (r.len() > 0 && p(s.last(), Some(r.last())) && filter_mapped(s.drop_last(), r.drop_last(), p))
    }
}

// std::iter::repeat(v): yields v forever (R12)
#[verifier::external_body]
pub fn repeat<A>(v: A) -> (r: It<A>)
    ensures r.seq().len() == 0, r.forever() == Some(v), r.announced().is_none(),
{ unimplemented!() }

#[verifier::external_body]
pub fn repeat_n<A>(v: A, k: usize) -> (r: It<A>)
    ensures r.seq() == Seq::new(k as nat, |i: int| v), r.announced() == Some(k as nat), r.trusted(), r.forever().is_none(),
{ unimplemented!() }

#[verifier::external_body]
pub fn trust_iter_new<A>(it: It<A>, len: usize) -> (r: It<A>)
    requires it.seq().len() == len && it.forever().is_none(),                // #C09 announced_length_is_exact
    ensures r.seq() == it.seq(), r.announced() == Some(len as nat), r.trusted(), r.forever().is_none(),
{ unimplemented!() }

// ---- containers <-> iterators
pub trait IntoIt<A>: Sized {
    // Vec::into_iter() (R12: `.into_iter()` on a Vec -> `.into_it()`)
    fn into_it(self) -> (r: It<A>);
}
impl<A> IntoIt<A> for Vec<A> {
    #[verifier::external_body]
    fn into_it(self) -> (r: It<A>)
        ensures r.seq() == self@, r.announced() == Some(self@.len()), r.trusted(), r.forever().is_none(),
    { unimplemented!() }
}
impl<A> It<A> {
    // the trusted collectors (tea-core trusted.rs collect_trusted_to_vec / Vec1::collect_from_trusted): allocate
    // `announced` slots, write one per item, set_len(announced).  Sound only for an honest iterator: the C09/C10 obligation.
    #[verifier::external_body]
    pub fn collect_trusted_vec1(self) -> (r: Vec<A>)
        requires honest(&self) && self.trusted(),          // #C09,C10 collected_iterator_keeps_its_promise
        ensures r@ == self.seq(),
    { unimplemented!() }
}
// A-SORT: tevec's Vec1::sort_unstable_by / slice::select_nth_unstable_by on a Vec, by contract
pub open spec fn cmp_total<A, F: Fn(&A, &A) -> core::cmp::Ordering>(v: Seq<A>, f: F) -> bool {
    forall|i: int, j: int| 0 <= i < v.len() && 0 <= j < v.len() ==> #[trigger] f.requires((&v[i], &v[j]))
}
pub trait VecSort<A>: Sized {
    spec fn sview(&self) -> Seq<A>;
    fn sort_unstable_by<F: Fn(&A, &A) -> core::cmp::Ordering>(&mut self, f: F) -> (r: TResult<()>)
        requires cmp_total(old(self).sview(), f),                 // the comparator may be called on any pair of elements
        ensures r.is_ok(), final(self).sview().len() == old(self).sview().len(), final(self).sview().to_multiset() == old(self).sview().to_multiset(),
            forall|i: int| 0 <= i < final(self).sview().len() ==> old(self).sview().contains(#[trigger] final(self).sview()[i]);     // a permutation: nothing new appears
    fn select_nth_unstable_by<F: Fn(&A, &A) -> core::cmp::Ordering>(&mut self, kth: usize, f: F)
        requires kth < old(self).sview().len(),                   // #select_nth_index_in_range (std panics otherwise)
            cmp_total(old(self).sview(), f),
        ensures final(self).sview().len() == old(self).sview().len(), final(self).sview().to_multiset() == old(self).sview().to_multiset(),
            forall|i: int| 0 <= i < final(self).sview().len() ==> old(self).sview().contains(#[trigger] final(self).sview()[i]);
}
impl<A> VecSort<A> for Vec<A> {
    open spec fn sview(&self) -> Seq<A> { self@ }
    #[verifier::external_body]
    fn sort_unstable_by<F: Fn(&A, &A) -> core::cmp::Ordering>(&mut self, f: F) -> (r: TResult<()>) { unimplemented!() }
    #[verifier::external_body]
    fn select_nth_unstable_by<F: Fn(&A, &A) -> core::cmp::Ordering>(&mut self, kth: usize, f: F) { unimplemented!() }
}
