// ============================================================================================
// iter.rs — A-ITER: one abstract type for every std / tevec iterator (DESIGN 2.3, 3).
// seq()       what plain iteration will yield, front to back
// announced() upper bound of size_hint() (None = unbounded/unknown)
// trusted()   the static type implements TrustedLen (tea-core trusted.rs table)
// ============================================================================================
#[verifier::external_body]
#[verifier::accept_recursive_types(A)]
pub struct It<A> { _p: core::marker::PhantomData<A> }

impl<A> It<A> {
    pub uninterp spec fn seq(&self) -> Seq<A>;
    pub uninterp spec fn announced(&self) -> Option<nat>;
    pub uninterp spec fn trusted(&self) -> bool;
}

// a trusted-length iterator keeps its promise: it yields exactly as many items as it announces (C09)
pub open spec fn honest<A>(it: &It<A>) -> bool {
    it.trusted() ==> it.announced() == Some(it.seq().len())
}

pub trait TIter<T>: Vec1View<T> {
    fn titer(&self) -> (it: It<T>)
        ensures it.seq() == self.view(), it.announced() == Some(self.view().len()), it.trusted();
}
