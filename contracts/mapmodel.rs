// ============================================================================================
// mapmodel.rs — A-ITER: `Iterator::map` with a STATEFUL closure (R9: the closure becomes an object implementing MapFn; R12:
// `.map(f)` -> `.map_mut(f)`).  Eager model: the closure is applied to the items front to back, once each - what a consumer
// that drains the returned iterator once, in order, observes.
// ============================================================================================
pub trait MapFn<A, B>: Sized {
    type Cfg;
    spec fn cfg(&self) -> Self::Cfg;
    spec fn hist(&self) -> Seq<(A, B)>;
    spec fn inv(&self) -> bool;
    spec fn arg_ok(v: A) -> bool;
    fn call(&mut self, v: A) -> (r: B)
        requires old(self).inv(), Self::arg_ok(v),
        ensures final(self).inv(), final(self).cfg() == old(self).cfg(), final(self).hist() == old(self).hist().push((v, r));
}
impl<A> It<A> {
    #[verifier::external_body]
    pub fn map_mut<B, F: MapFn<A, B>>(self, f: &mut F) -> (r: It<B>)
        requires
            self.forever().is_none(), old(f).inv(),
            forall|i: int| 0 <= i < self.seq().len() ==> F::arg_ok(#[trigger] self.seq()[i]),
        ensures
            final(f).inv(), final(f).cfg() == old(f).cfg(),
            final(f).hist().len() == old(f).hist().len() + self.seq().len(),
            forall|j: int| 0 <= j < old(f).hist().len() ==> #[trigger] final(f).hist()[j] == old(f).hist()[j],
            forall|j: int| old(f).hist().len() <= j < old(f).hist().len() + self.seq().len() ==> {
                let c = #[trigger] final(f).hist()[j];
                c.0 == self.seq()[j - old(f).hist().len()] && r.seq()[j - old(f).hist().len()] == c.1
            },
            r.seq().len() == self.seq().len(), r.forever().is_none(), r.announced() == self.announced(), r.trusted() == self.trusted(),
    { unimplemented!() }
}
