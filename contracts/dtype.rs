// ============================================================================================
// dtype.rs — contracts of tea-dtype's IsNone / Number / Cast for the instantiations of A-MONO.
// These are ASSUMED here (external_body); the same statements are proved for the real, compiled
// impls over the full scalar domains by the Kani harnesses of C15 (k_dtype).
// ============================================================================================
pub trait Number: Sized + Copy {
    spec fn rval(self) -> real;       // mathematical value (A-REAL for floats)
    spec fn is_nanv(self) -> bool;    // float NaN; false for integers
    fn f64(self) -> (r: f64)
        ensures rv(r) == self.rval(), nan(r) == self.is_nanv();
    spec fn zero_spec() -> Self;
    fn zero() -> (r: Self)
        ensures r == Self::zero_spec(), r.rval() == 0real, !r.is_nanv();
    // Number::ceil: identity on integers (tea-dtype number.rs default), mathematical ceiling on floats (A-REAL)
    spec fn ceil_spec(self) -> Self;
    fn ceil(self) -> (r: Self)
        ensures r == self.ceil_spec();
    spec fn floor_spec(self) -> Self;
    fn floor(self) -> (r: Self)
        ensures r == self.floor_spec();
    // Number::usize = Cast::<usize>::cast
    spec fn usize_spec(self) -> usize;
    fn usize(self) -> (r: usize)
        ensures r == self.usize_spec();
    // Number::min_ / max_: the type's MIN / MAX constant (a non-null value; for floats NOT an infinity)
    spec fn min_spec() -> Self;
    fn min_() -> (r: Self)
        ensures r == Self::min_spec(), !r.is_nanv();
    spec fn max_spec() -> Self;
    fn max_() -> (r: Self)
        ensures r == Self::max_spec(), !r.is_nanv();
}
impl Number for f64 {
    open spec fn rval(self) -> real { rv(self) }
    open spec fn is_nanv(self) -> bool { nan(self) }
    #[verifier::external_body]
    fn f64(self) -> (r: f64) ensures r == self { self }
    uninterp spec fn zero_spec() -> f64;
    #[verifier::external_body]
    fn zero() -> (r: f64) { 0.0 }
    open spec fn ceil_spec(self) -> f64 { f64_ceil(self) }
    #[verifier::external_body]
    fn ceil(self) -> (r: f64) { f64::ceil(self) }
    open spec fn floor_spec(self) -> f64 { f64_floor(self) }
    #[verifier::external_body]
    fn floor(self) -> (r: f64) { f64::floor(self) }
    open spec fn usize_spec(self) -> usize { f64_usize(self) }
    #[verifier::external_body]
    fn usize(self) -> (r: usize) { self as usize }
    uninterp spec fn min_spec() -> f64;
    #[verifier::external_body]
    fn min_() -> (r: f64) { f64::MIN }
    uninterp spec fn max_spec() -> f64;
    #[verifier::external_body]
    fn max_() -> (r: f64) { f64::MAX }
}
impl Number for usize {
    open spec fn rval(self) -> real { self as real }
    open spec fn is_nanv(self) -> bool { false }
    #[verifier::external_body]
    fn f64(self) -> (r: f64) { self as f64 }
    open spec fn zero_spec() -> usize { 0 }
    #[verifier::external_body]
    fn zero() -> (r: usize) { 0 }
    open spec fn ceil_spec(self) -> usize { self }
    #[verifier::external_body]
    fn ceil(self) -> (r: usize) { self }
    open spec fn floor_spec(self) -> usize { self }
    #[verifier::external_body]
    fn floor(self) -> (r: usize) { self }
    open spec fn usize_spec(self) -> usize { self }
    #[verifier::external_body]
    fn usize(self) -> (r: usize) { self }
    open spec fn min_spec() -> usize { usize::MIN }
    #[verifier::external_body]
    fn min_() -> (r: usize) { usize::MIN }
    open spec fn max_spec() -> usize { usize::MAX }
    #[verifier::external_body]
    fn max_() -> (r: usize) { usize::MAX }
}
impl Number for i64 {
    open spec fn rval(self) -> real { self as real }
    open spec fn is_nanv(self) -> bool { false }
    #[verifier::external_body]
    fn f64(self) -> (r: f64) { self as f64 }
    open spec fn zero_spec() -> i64 { 0 }
    #[verifier::external_body]
    fn zero() -> (r: i64) { 0 }
    open spec fn ceil_spec(self) -> i64 { self }
    #[verifier::external_body]
    fn ceil(self) -> (r: i64) { self }
    open spec fn floor_spec(self) -> i64 { self }
    #[verifier::external_body]
    fn floor(self) -> (r: i64) { self }
    open spec fn usize_spec(self) -> usize { self as usize }
    #[verifier::external_body]
    fn usize(self) -> (r: usize) { self as usize }
    open spec fn min_spec() -> i64 { i64::MIN }
    #[verifier::external_body]
    fn min_() -> (r: i64) { i64::MIN }
    open spec fn max_spec() -> i64 { i64::MAX }
    #[verifier::external_body]
    fn max_() -> (r: i64) { i64::MAX }
}

pub trait IsNone: Sized + Copy {
    type Inner: Number;
    spec fn opt(self) -> Option<Self::Inner>;
    fn not_none(&self) -> (r: bool) ensures r == self.opt().is_some();
    fn is_none(&self) -> (r: bool) ensures r == self.opt().is_none();
    fn to_opt(self) -> (r: Option<Self::Inner>) ensures r == self.opt();
    fn none() -> (r: Self) ensures r.opt().is_none();
}
// Option<f64>: null = None (the non-canonical Some(NaN) is excluded by `canon`, DESIGN 5.4)
impl IsNone for Option<f64> {
    type Inner = f64;
    open spec fn opt(self) -> Option<f64> { self }
    #[verifier::external_body]
    fn not_none(&self) -> (r: bool) { self.is_some() }
    #[verifier::external_body]
    fn is_none(&self) -> (r: bool) { Option::is_none(self) }
    #[verifier::external_body]
    fn to_opt(self) -> (r: Option<f64>) { self }
    #[verifier::external_body]
    fn none() -> (r: Self) { None }
}
impl IsNone for Option<i64> {
    type Inner = i64;
    open spec fn opt(self) -> Option<i64> { self }
    #[verifier::external_body]
    fn not_none(&self) -> (r: bool) { self.is_some() }
    #[verifier::external_body]
    fn is_none(&self) -> (r: bool) { Option::is_none(self) }
    #[verifier::external_body]
    fn to_opt(self) -> (r: Option<i64>) { self }
    #[verifier::external_body]
    fn none() -> (r: Self) { None }
}
// f64: null = NaN
impl IsNone for f64 {
    type Inner = f64;
    open spec fn opt(self) -> Option<f64> { if nan(self) { None } else { Some(self) } }
    #[verifier::external_body]
    fn not_none(&self) -> (r: bool) { !self.is_nan() }
    #[verifier::external_body]
    fn is_none(&self) -> (r: bool) { self.is_nan() }
    #[verifier::external_body]
    fn to_opt(self) -> (r: Option<f64>) { if self.is_nan() { None } else { Some(self) } }
    #[verifier::external_body]
    fn none() -> (r: Self) { f64::NAN }
}
// `v.unwrap()` on T: IsNone.  For Option<_> the inherent Option::unwrap (vstd spec) is what the call resolves to.
pub trait IsNoneUnwrap: IsNone {
    fn unwrap(self) -> (r: Self::Inner)
        requires self.opt().is_some(),          // unwrap_of_null
        ensures r == self.opt().unwrap();
}
impl IsNoneUnwrap for f64 {
    #[verifier::external_body]
    fn unwrap(self) -> (r: f64) { self }
}

pub trait Cast<U>: Sized {
    spec fn cast_spec(self) -> U;
    fn cast(self) -> (r: U)
        ensures r == self.cast_spec();
}
// f64 -> f64 (identity) and f64 -> Option<f64> (NaN <-> None)
impl Cast<f64> for f64 {
    open spec fn cast_spec(self) -> f64 { self }
    #[verifier::external_body]
    fn cast(self) -> f64 { self }
}
// value view used by every statistic spec: None = null, Some(x) = real value
pub open spec fn val<T: IsNone>(v: T) -> Option<real> {
    match v.opt() { Some(x) => Some(x.rval()), None => None }
}
pub open spec fn vals<T: IsNone>(s: Seq<T>) -> Seq<Option<real>> { Seq::new(s.len(), |i: int| val(s[i])) }
// canonical nulls (DESIGN 5.4): a present value is never NaN
pub open spec fn canon<T: IsNone>(v: T) -> bool { v.opt().is_some() ==> !v.opt().unwrap().is_nanv() }
pub open spec fn canon_seq<T: IsNone>(s: Seq<T>) -> bool { forall|i: int| 0 <= i < s.len() ==> canon(#[trigger] s[i]) }

// ---- exact (integer) instantiation: null-last comparators on Option<i64> (proved for the real impls by Kani, C15 sortcmp_opt_i64)
pub open spec fn nl_cmp(a: Option<i64>, b: Option<i64>) -> core::cmp::Ordering {
    match (a, b) {
        (Some(x), Some(y)) => if x < y { core::cmp::Ordering::Less } else if x == y { core::cmp::Ordering::Equal } else { core::cmp::Ordering::Greater },
        (None, None) => core::cmp::Ordering::Equal,
        (None, Some(_)) => core::cmp::Ordering::Greater,
        (Some(_), None) => core::cmp::Ordering::Less,
    }
}
pub open spec fn nl_cmp_rev(a: Option<i64>, b: Option<i64>) -> core::cmp::Ordering {
    match (a, b) {
        (Some(x), Some(y)) => if x > y { core::cmp::Ordering::Less } else if x == y { core::cmp::Ordering::Equal } else { core::cmp::Ordering::Greater },
        (None, None) => core::cmp::Ordering::Equal,
        (None, Some(_)) => core::cmp::Ordering::Greater,
        (Some(_), None) => core::cmp::Ordering::Less,
    }
}
pub trait SortCmp: Sized {
    fn sort_cmp(&self, other: &Self) -> (r: core::cmp::Ordering);
    fn sort_cmp_rev(&self, other: &Self) -> (r: core::cmp::Ordering);
}
impl SortCmp for Option<i64> {
    #[verifier::external_body]
    fn sort_cmp(&self, other: &Self) -> (r: core::cmp::Ordering) ensures r == nl_cmp(*self, *other) { unimplemented!() }
    #[verifier::external_body]
    fn sort_cmp_rev(&self, other: &Self) -> (r: core::cmp::Ordering) ensures r == nl_cmp_rev(*self, *other) { unimplemented!() }
}
impl Cast<Option<i64>> for Option<i64> {
    open spec fn cast_spec(self) -> Option<i64> { self }
    #[verifier::external_body]
    fn cast(self) -> Option<i64> { self }
}
