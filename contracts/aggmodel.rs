// ============================================================================================
// aggmodel.rs — numeric view of the null-skipping folds (needs dtype.rs: vals / cnt)
// ============================================================================================
//@include foldmodel.rs
pub proof fn lemma_vseq_len<T: IsNone>(s: Seq<T>)
    ensures vseq(s).len() == cnt(vals(s)), forall|i: int| 0 <= i < vseq(s).len() ==> (#[trigger] vseq(s)[i]).opt().is_some(),
    decreases s.len()
{
    if s.len() > 0 {
        lemma_vseq_len(s.drop_last());
        assert(vals(s).drop_last() =~= vals(s.drop_last()));
        assert(vals(s).last() == val(s.last()));
    }
}

