// ============================================================================================
// assume_real.rs — A-REAL: machine floating point treated as mathematical (DESIGN 3).
// Every axiom here is an ASSUMPTION.  rv = real value of a non-NaN float; nan = "is NaN".
// No rounding, no overflow to +-inf.  Consistency is watched by the vacuity guard of each unit.
// ============================================================================================
pub uninterp spec fn rv(x: f64) -> real;
pub uninterp spec fn nan(x: f64) -> bool;

pub broadcast axiom fn ax_add_req(a: f64, b: f64) ensures #[trigger] a.add_req(b);
pub broadcast axiom fn ax_add(a: f64, b: f64)
    ensures rv(#[trigger] a.add_spec(b)) == rv(a) + rv(b), nan(a.add_spec(b)) == (nan(a) || nan(b));
pub broadcast axiom fn ax_add_o() ensures #[trigger] <f64 as AddSpec<f64>>::obeys_add_spec();
pub broadcast axiom fn ax_sub_req(a: f64, b: f64) ensures #[trigger] a.sub_req(b);
pub broadcast axiom fn ax_sub(a: f64, b: f64)
    ensures rv(#[trigger] a.sub_spec(b)) == rv(a) - rv(b), nan(a.sub_spec(b)) == (nan(a) || nan(b));
pub broadcast axiom fn ax_sub_o() ensures #[trigger] <f64 as SubSpec<f64>>::obeys_sub_spec();
pub broadcast axiom fn ax_mul_req(a: f64, b: f64) ensures #[trigger] a.mul_req(b);
pub broadcast axiom fn ax_mul(a: f64, b: f64)
    ensures rv(#[trigger] a.mul_spec(b)) == rv(a) * rv(b), nan(a.mul_spec(b)) == (nan(a) || nan(b));
pub broadcast axiom fn ax_mul_o() ensures #[trigger] <f64 as MulSpec<f64>>::obeys_mul_spec();
pub broadcast axiom fn ax_div_req(a: f64, b: f64) ensures #[trigger] a.div_req(b);
// division: defined on the reals for a non-zero divisor; x/0 is left unspecified (IEEE gives inf/NaN)
pub broadcast axiom fn ax_div(a: f64, b: f64)
    ensures
        rv(b) != 0real ==> rv(#[trigger] a.div_spec(b)) == rv(a) / rv(b),
        (rv(b) != 0real || nan(b)) ==> nan(a.div_spec(b)) == (nan(a) || nan(b));
pub broadcast axiom fn ax_div_o() ensures #[trigger] <f64 as DivSpec<f64>>::obeys_div_spec();

// IEEE facts about the division cases A-REAL leaves open: a NaN numerator always gives NaN, and 0 / 0 is NaN
// (x / 0 for a non-zero x is +-inf, which the model does not represent: still unspecified).  Not part of the a_real group.
pub broadcast axiom fn ax_div_nan(a: f64, b: f64)
    ensures
        nan(a) ==> nan(#[trigger] a.div_spec(b)),
        (!nan(a) && !nan(b) && rv(a) == 0real && rv(b) == 0real) ==> nan(a.div_spec(b));

pub broadcast group a_real {
    ax_add_req, ax_add, ax_add_o, ax_sub_req, ax_sub, ax_sub_o, ax_mul_req, ax_mul, ax_mul_o,
    ax_div_req, ax_div, ax_div_o,
}

// comparisons: IEEE partial order = order of the reals on non-NaN floats, unordered with NaN
pub broadcast axiom fn ax_cmp_o() ensures #[trigger] <f64 as PartialOrdSpec<f64>>::obeys_partial_cmp_spec();
pub broadcast axiom fn ax_cmp(a: f64, b: f64)
    ensures #[trigger] a.partial_cmp_spec(&b) == (
        if nan(a) || nan(b) { None }
        else if rv(a) < rv(b) { Some(core::cmp::Ordering::Less) }
        else if rv(a) > rv(b) { Some(core::cmp::Ordering::Greater) }
        else { Some(core::cmp::Ordering::Equal) });
pub broadcast axiom fn ax_eq_o() ensures #[trigger] <f64 as PartialEqSpec<f64>>::obeys_eq_spec();
pub broadcast axiom fn ax_eq(a: f64, b: f64)
    ensures #[trigger] a.eq_spec(&b) == (!nan(a) && !nan(b) && rv(a) == rv(b));
pub broadcast group a_real_cmp { ax_cmp_o, ax_cmp, ax_eq_o, ax_eq }

// square root on the reals (A-REAL): rsqrt is the mathematical non-negative root
pub uninterp spec fn rsqrt(x: real) -> real;
pub broadcast axiom fn ax_rsqrt(x: real)
    requires x >= 0real,
    ensures #[trigger] rsqrt(x) >= 0real, rsqrt(x) * rsqrt(x) == x;
pub assume_specification[ f64::sqrt ](a: f64) -> (r: f64)
    ensures
        (!nan(a) && rv(a) >= 0real) ==> !nan(r) && rv(r) == rsqrt(rv(a)),
        nan(a) ==> nan(r);

pub open spec fn rpow(x: real, k: int) -> real
    decreases k
{
    if k <= 0 { 1real } else { x * rpow(x, k - 1) }
}
pub assume_specification[ f64::powi ](a: f64, k: i32) -> (r: f64)
    ensures k >= 0 ==> rv(r) == rpow(rv(a), k as int), k >= 0 ==> nan(r) == nan(a) || (k == 0 && !nan(r));

// IEEE maxNum / minNum (std f64::max / f64::min): a NaN operand is ignored, NaN only if both are NaN
pub assume_specification[ f64::max ](a: f64, b: f64) -> (r: f64)
    ensures
        (nan(a) && nan(b)) ==> nan(r), (nan(a) && !nan(b)) ==> r == b, (!nan(a) && nan(b)) ==> r == a,
        (!nan(a) && !nan(b)) ==> !nan(r) && rv(r) == (if rv(a) >= rv(b) { rv(a) } else { rv(b) });
pub assume_specification[ f64::min ](a: f64, b: f64) -> (r: f64)
    ensures
        (nan(a) && nan(b)) ==> nan(r), (nan(a) && !nan(b)) ==> r == b, (!nan(a) && nan(b)) ==> r == a,
        (!nan(a) && !nan(b)) ==> !nan(r) && rv(r) == (if rv(a) <= rv(b) { rv(a) } else { rv(b) });

pub assume_specification[ f64::is_nan ](a: f64) -> (r: bool)
    ensures r == nan(a);

// f64::NAN (R12 replaces the associated constant, which Verus does not support, by this function)
#[verifier::external_body]
pub fn f64_nan() -> (r: f64)
    ensures nan(r),
{ f64::NAN }

// float literals used by the extracted bodies
pub uninterp spec fn lit_is(x: f64, num: int, den: int) -> bool;
pub broadcast axiom fn ax_lit(x: f64, num: int, den: int)
    requires #[trigger] lit_is(x, num, den), den > 0,
    ensures !nan(x), rv(x) * (den as real) == num as real;

// integer -> float casts (R17: `e as f64` -> as_f64(e))
pub trait AsF64: Sized { spec fn as_real(self) -> real; }
impl AsF64 for usize { open spec fn as_real(self) -> real { self as real } }
impl AsF64 for i32 { open spec fn as_real(self) -> real { self as real } }
impl AsF64 for i64 { open spec fn as_real(self) -> real { self as real } }
impl AsF64 for u64 { open spec fn as_real(self) -> real { self as real } }
#[verifier::external_body]
pub fn as_f64<A: AsF64>(x: A) -> (r: f64)
    ensures !nan(r), rv(r) == x.as_real(),
{ unimplemented!() }

// floor / ceiling on the reals (A-REAL): greatest integer <= x, least integer >= x
pub uninterp spec fn rfloor(x: real) -> int;
pub uninterp spec fn rceil(x: real) -> int;
pub broadcast axiom fn ax_rfloor(x: real)
    ensures (#[trigger] rfloor(x)) as real <= x, x < (rfloor(x) + 1) as real;
pub broadcast axiom fn ax_rceil(x: real)
    ensures (#[trigger] rceil(x)) as real >= x, x > (rceil(x) - 1) as real;
pub uninterp spec fn f64_ceil(x: f64) -> f64;
pub uninterp spec fn f64_floor(x: f64) -> f64;
pub uninterp spec fn f64_usize(x: f64) -> usize;
pub broadcast axiom fn ax_f64_round(x: f64)
    requires !nan(x),
    ensures
        !nan(#[trigger] f64_ceil(x)) && rv(f64_ceil(x)) == rceil(rv(x)) as real,
        !nan(#[trigger] f64_floor(x)) && rv(f64_floor(x)) == rfloor(rv(x)) as real;
// float -> usize cast of a non-negative integral value that fits (saturation / NaN -> 0 are outside this clause)
pub broadcast axiom fn ax_f64_usize(x: f64)
    requires !nan(x), rv(x) == rfloor(rv(x)) as real, 0 <= rfloor(rv(x)) <= usize::MAX,
    ensures #[trigger] f64_usize(x) == rfloor(rv(x));
pub broadcast group a_round { ax_rfloor, ax_rceil, ax_f64_round, ax_f64_usize }
pub assume_specification[ f64::floor ](a: f64) -> (r: f64)
    ensures r == f64_floor(a);
pub assume_specification[ f64::ceil ](a: f64) -> (r: f64)
    ensures r == f64_ceil(a);

// unary minus on floats is rewritten to this function (Verus does not support float negation): `-x` -> fneg(x)  (R17)
#[verifier::external_body]
pub fn fneg(x: f64) -> (r: f64)
    ensures rv(r) == -rv(x), nan(r) == nan(x),
{ -x }
pub assume_specification[ f64::mul_add ](a: f64, b: f64, c: f64) -> (r: f64)
    ensures rv(r) == rv(a) * rv(b) + rv(c), nan(r) == (nan(a) || nan(b) || nan(c));
