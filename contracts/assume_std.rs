// ============================================================================================
// assume_std.rs — assumed contracts of std functions the extracted bodies call.
// ============================================================================================
pub open spec fn ipow(b: int, e: nat) -> int
    decreases e
{
    if e == 0 { 1 } else { b * ipow(b, (e - 1) as nat) }
}
// usize::pow panics on overflow in debug builds and wraps in release: no-overflow is an obligation
pub assume_specification[ usize::pow ](a: usize, e: u32) -> (r: usize)
    requires ipow(a as int, e as nat) <= usize::MAX,     // #pow_no_overflow
    ensures r == ipow(a as int, e as nat);

pub assume_specification[ i32::unsigned_abs ](x: i32) -> (r: u32)
    ensures r as int == (if x >= 0 { x as int } else { -(x as int) });

// std::cmp::min on usize (R12: `min(a, b)` with `use std::cmp::min` in scope -> usize_min(a, b))
#[verifier::external_body]
pub fn usize_min(a: usize, b: usize) -> (r: usize)
    ensures r == (if a <= b { a } else { b }),
{ core::cmp::min(a, b) }

// num_traits::MulAdd on usize: self * a + b (overflow is a panic in debug builds: an obligation)
pub trait MulAddU: Sized {
    spec fn ma_ok(self, a: Self, b: Self) -> bool;
    spec fn ma_val(self, a: Self, b: Self) -> Self;
    fn mul_add(self, a: Self, b: Self) -> (r: Self)
        requires self.ma_ok(a, b),          // #mul_add_no_overflow
        ensures r == self.ma_val(a, b);
}
impl MulAddU for usize {
    open spec fn ma_ok(self, a: usize, b: usize) -> bool { self * a + b <= usize::MAX }
    open spec fn ma_val(self, a: usize, b: usize) -> usize { (self * a + b) as usize }
    #[verifier::external_body]
    fn mul_add(self, a: usize, b: usize) -> (r: usize) { self * a + b }
}
