// ============================================================================================
// assume_std.rs — assumed contracts of std functions the extracted bodies call.
// ============================================================================================
pub open spec fn ipow(b: int, e: nat) -> int
    decreases e
{
    if e == 0 { 1 } else { b * ipow(b, (e - 1) as nat) }
}
// usize::pow panics on overflow in debug builds and wraps in release: no-overflow is an obligation
pub assume_specification[ usize::pow ](a: usize, e: u32) -> (r: usize)
    requires ipow(a as int, e as nat) <= usize::MAX,     // #pow_no_overflow
    ensures r == ipow(a as int, e as nat);
