// the caller-buffer (`_to`) rolling drivers of tea-core view.rs, extracted and proved (included by units drv and drvo)

//@fn name=rolling_apply_to crate=tea-core ctx="pub trait Vec1View" props=C02,C07,C10 arith=C10
//@sig fn rolling_apply_to<V: Vec1View<T>, T, B: UninitRefMut<OT>, OT, F: RollingFn<T, OT>>(this: &V, window: usize, f: &mut F, out: &mut B)
//@callbacks f
//@spec
    requires
        buf_fresh(old(out), this.view().len()),
        old(f).hist().len() == 0,
        old(f).inv(),
        all_elem_ok::<T, OT, F>(this.view()),
    ensures
        final(f).inv(),
        final(f).cfg() == old(f).cfg(),
        final(out).cap() == old(out).cap(),
        window >= 1 ==> trace_strict(final(f).hist(), this.view(), window),     // #C02,C07 trace
        window >= 1 ==> out_ok(final(out).written(), final(f).hist()),          // #C02,C07,C10 stored_at_i_once
        window == 0 ==> final(f).hist() =~= old(f).hist() && final(out).written() =~= old(out).written(),  // #C10 window0_writes_nothing
//@at body first
    proof { assert(nrm(f.hist()) == 0); }
//@loop 1
    invariant
        window <= len, len == this.view().len(), out.cap() == len, window >= 1,
        all_elem_ok::<T, OT, F>(this.view()),
        f.hist().len() == i, f.inv(), f.cfg() == old(f).cfg(), nrm(f.hist()) == 0,
        forall|j: int| out.written().dom().contains(j) <==> 0 <= j < i,
        forall|j: int| 0 <= j < i ==> (#[trigger] f.hist()[j]).v == this.view()[j]
            && f.hist()[j].rm == exp_rm(this.view(), window as int, j) && out.written()[j] == f.hist()[j].out,
//@at loop 1 first
    let ghost h0 = f.hist();
//@at loop 1 last
    proof { lemma_nrm_push(h0, f.hist().last()); }
//@loop 2
    invariant
        window <= len, len == this.view().len(), out.cap() == len, window >= 1,
        all_elem_ok::<T, OT, F>(this.view()),
        start == end - (window - 1),
        f.hist().len() == end, f.inv(), f.cfg() == old(f).cfg(), nrm(f.hist()) == start,
        forall|j: int| out.written().dom().contains(j) <==> 0 <= j < end,
        forall|j: int| 0 <= j < end ==> (#[trigger] f.hist()[j]).v == this.view()[j]
            && f.hist()[j].rm == exp_rm(this.view(), window as int, j) && out.written()[j] == f.hist()[j].out,
//@at loop 2 first
    let ghost h0 = f.hist();
    proof { assert(adds(h0).push(this.view()[end as int])[start as int] == this.view()[start as int]); }
//@at loop 2 last
    proof { lemma_nrm_push(h0, f.hist().last()); }
//@end

//@fn name=rolling2_apply_to crate=tea-core ctx="pub trait Vec1View" props=C02,C07,C10 arith=C10
//@sig fn rolling2_apply_to<V: Vec1View<T>, T, V2: Vec1View<T2>, T2, B: UninitRefMut<OT>, OT, F: RollingFn<(T, T2), OT>>(this: &V, other: &V2, window: usize, f: &mut F, out: &mut B)
//@callbacks f
//@spec
    requires
        buf_fresh(old(out), this.view().len()),
        old(f).hist().len() == 0,
        old(f).inv(),
        other.view().len() >= this.view().len() ==> all_elem_ok::<(T, T2), OT, F>(zipv(this.view(), other.view())),
        other.view().len() < this.view().len() ==> panic_allowed(),   // mismatched second series: clean panic only
    ensures
        final(f).inv(),
        final(f).cfg() == old(f).cfg(),
        final(out).cap() == old(out).cap(),
        window >= 1 ==> trace_strict(final(f).hist(), zipv(this.view(), other.view()), window),     // #C02,C07 trace
        window >= 1 ==> out_ok(final(out).written(), final(f).hist()),          // #C02,C07,C10 stored_at_i_once
        window == 0 ==> final(f).hist() =~= old(f).hist() && final(out).written() =~= old(out).written(),  // #C10 window0_writes_nothing
//@at body first
    proof { assert(nrm(f.hist()) == 0); }
    let ghost z = zipv(this.view(), other.view());
//@loop 1
    invariant
        window <= len, len == this.view().len(), out.cap() == len, window >= 1,
        other.view().len() >= len,    // #C10 second_series_long_enough
        z == zipv(this.view(), other.view()),
        all_elem_ok::<(T, T2), OT, F>(z),
        f.hist().len() == i, f.inv(), f.cfg() == old(f).cfg(), nrm(f.hist()) == 0,
        forall|j: int| out.written().dom().contains(j) <==> 0 <= j < i,
        forall|j: int| 0 <= j < i ==> (#[trigger] f.hist()[j]).v == z[j]
            && f.hist()[j].rm == exp_rm(z, window as int, j) && out.written()[j] == f.hist()[j].out,
//@at loop 1 first
    let ghost h0 = f.hist();
    proof { assert(z[i as int] == (this.view()[i as int], other.view()[i as int])); }
//@at loop 1 last
    proof { lemma_nrm_push(h0, f.hist().last()); }
//@loop 2
    invariant
        window <= len, len == this.view().len(), out.cap() == len, window >= 1,
        other.view().len() >= len,    // #C10 second_series_long_enough
        z == zipv(this.view(), other.view()),
        all_elem_ok::<(T, T2), OT, F>(z),
        start == end - (window - 1),
        f.hist().len() == end, f.inv(), f.cfg() == old(f).cfg(), nrm(f.hist()) == start,
        forall|j: int| out.written().dom().contains(j) <==> 0 <= j < end,
        forall|j: int| 0 <= j < end ==> (#[trigger] f.hist()[j]).v == z[j]
            && f.hist()[j].rm == exp_rm(z, window as int, j) && out.written()[j] == f.hist()[j].out,
//@at loop 2 first
    let ghost h0 = f.hist();
    proof {
        assert(z[end as int] == (this.view()[end as int], other.view()[end as int]));
        assert(z[start as int] == (this.view()[start as int], other.view()[start as int]));
        assert(adds(h0).push(z[end as int])[start as int] == z[start as int]);
    }
//@at loop 2 last
    proof { lemma_nrm_push(h0, f.hist().last()); }
//@end

//@fn name=rolling_apply_idx_to crate=tea-core ctx="pub trait Vec1View" props=C02,C07,C10 arith=C10
//@sig fn rolling_apply_idx_to<V: Vec1View<T>, T, B: UninitRefMut<OT>, OT, F: RollingIdxFn<T, OT>>(this: &V, window: usize, f: &mut F, out: &mut B)
//@callbacks f
//@spec
    requires
        buf_fresh(old(out), this.view().len()),
        old(f).hist().len() == 0,
        old(f).inv(),
        old(f).series() == this.view(),
    ensures
        final(f).inv(),
        final(f).cfg() == old(f).cfg(),
        final(f).series() == old(f).series(),
        final(out).cap() == old(out).cap(),
        window >= 1 ==> trace_idx_strict(final(f).hist(), this.view(), window),     // #C02,C07 trace
        window >= 1 ==> out_idx_ok(final(out).written(), final(f).hist()),          // #C02,C07,C10 stored_at_i_once
        window == 0 ==> final(f).hist() =~= old(f).hist() && final(out).written() =~= old(out).written(),  // #C10 window0_writes_nothing
//@loop 1
    invariant
        window <= len, len == this.view().len(), out.cap() == len, window >= 1,
        f.series() == this.view(),
        f.hist().len() == i, f.inv(), f.cfg() == old(f).cfg(),
        forall|j: int| out.written().dom().contains(j) <==> 0 <= j < i,
        forall|j: int| 0 <= j < i ==> (#[trigger] f.hist()[j]).v == this.view()[j] && f.hist()[j].end == j
            && f.hist()[j].start == exp_start(window as int, j) && out.written()[j] == f.hist()[j].out,
//@loop 2
    invariant
        window <= len, len == this.view().len(), out.cap() == len, window >= 1,
        f.series() == this.view(),
        start == end - (window - 1),
        f.hist().len() == end, f.inv(), f.cfg() == old(f).cfg(),
        forall|j: int| out.written().dom().contains(j) <==> 0 <= j < end,
        forall|j: int| 0 <= j < end ==> (#[trigger] f.hist()[j]).v == this.view()[j] && f.hist()[j].end == j
            && f.hist()[j].start == exp_start(window as int, j) && out.written()[j] == f.hist()[j].out,
//@end

//@fn name=rolling2_apply_idx_to crate=tea-core ctx="pub trait Vec1View" props=C02,C07,C10 arith=C10
//@sig fn rolling2_apply_idx_to<V: Vec1View<T>, T, V2: Vec1View<T2>, T2, B: UninitRefMut<OT>, OT, F: RollingIdxFn<(T, T2), OT>>(this: &V, other: &V2, window: usize, f: &mut F, out: &mut B)
//@callbacks f
//@spec
    requires
        buf_fresh(old(out), this.view().len()),
        old(f).hist().len() == 0,
        old(f).inv(),
        old(f).series() == zipv(this.view(), other.view()),
        other.view().len() < this.view().len() ==> panic_allowed(),   // mismatched second series: clean panic only
    ensures
        final(f).inv(),
        final(f).cfg() == old(f).cfg(),
        final(f).series() == old(f).series(),
        final(out).cap() == old(out).cap(),
        window >= 1 ==> trace_idx_strict(final(f).hist(), zipv(this.view(), other.view()), window),     // #C02,C07 trace
        window >= 1 ==> out_idx_ok(final(out).written(), final(f).hist()),          // #C02,C07,C10 stored_at_i_once
        window == 0 ==> final(f).hist() =~= old(f).hist() && final(out).written() =~= old(out).written(),  // #C10 window0_writes_nothing
//@at body first
    let ghost z = zipv(this.view(), other.view());
//@loop 1
    invariant
        window <= len, len == this.view().len(), out.cap() == len, window >= 1,
        other.view().len() >= len,    // #C10 second_series_long_enough
        z == zipv(this.view(), other.view()), f.series() == z,
        f.hist().len() == i, f.inv(), f.cfg() == old(f).cfg(),
        forall|j: int| out.written().dom().contains(j) <==> 0 <= j < i,
        forall|j: int| 0 <= j < i ==> (#[trigger] f.hist()[j]).v == z[j] && f.hist()[j].end == j
            && f.hist()[j].start == exp_start(window as int, j) && out.written()[j] == f.hist()[j].out,
//@at loop 1 first
    proof { assert(z[i as int] == (this.view()[i as int], other.view()[i as int])); }
//@loop 2
    invariant
        window <= len, len == this.view().len(), out.cap() == len, window >= 1,
        other.view().len() >= len,    // #C10 second_series_long_enough
        z == zipv(this.view(), other.view()), f.series() == z,
        start == end - (window - 1),
        f.hist().len() == end, f.inv(), f.cfg() == old(f).cfg(),
        forall|j: int| out.written().dom().contains(j) <==> 0 <= j < end,
        forall|j: int| 0 <= j < end ==> (#[trigger] f.hist()[j]).v == z[j] && f.hist()[j].end == j
            && f.hist()[j].start == exp_start(window as int, j) && out.written()[j] == f.hist()[j].out,
//@at loop 2 first
    proof { assert(z[end as int] == (this.view()[end as int], other.view()[end as int])); }
//@end

//@fn name=rolling_custom_to crate=tea-core ctx="pub trait Vec1View" props=C02,C07,C10 arith=C10
//@sig fn rolling_custom_to<V: Vec1View<T>, T, B: UninitRefMut<OT>, OT, F: SliceFn<V::Slice, T, OT>>(this: &V, window: usize, f: &mut F, out: &mut B)
//@callbacks f
//@spec
    requires
        buf_fresh(old(out), this.view().len()),
        old(f).hist().len() == 0,
        old(f).inv(),
        this.supports_slice(),                       // otherwise `.unwrap()` of the erroring default slice panics (clean)
        forall|s: &V::Slice| #[trigger] F::sview(s) == V::slice_view(s),
    ensures
        final(f).inv(),
        final(f).cfg() == old(f).cfg(),
        final(out).cap() == old(out).cap(),
        window >= 1 ==> trace_slice(final(f).hist(), this.view(), wclamp(window, this.view().len())),     // #C02,C07 slice_is_window
        window >= 1 ==> out_slice_ok(final(out).written(), final(f).hist()),          // #C02,C07,C10 stored_at_i_once
        window == 0 ==> final(f).hist() =~= old(f).hist() && final(out).written() =~= old(out).written(),  // #C10 window0_writes_nothing
//@loop 1
    invariant
        window <= len, len == this.view().len(), out.cap() == len, window >= 1, this.supports_slice(),
        forall|s: &V::Slice| #[trigger] F::sview(s) == V::slice_view(s),
        f.hist().len() == i, f.inv(), f.cfg() == old(f).cfg(),
        forall|j: int| out.written().dom().contains(j) <==> 0 <= j < i,
        forall|j: int| 0 <= j < i ==> (#[trigger] f.hist()[j]).s =~= this.view().subrange(wstart(window as int, j), j + 1)
            && out.written()[j] == f.hist()[j].out,
//@loop 2
    invariant
        window <= len, len == this.view().len(), out.cap() == len, window >= 1, this.supports_slice(),
        forall|s: &V::Slice| #[trigger] F::sview(s) == V::slice_view(s),
        start == end - (window - 1),
        f.hist().len() == end, f.inv(), f.cfg() == old(f).cfg(),
        forall|j: int| out.written().dom().contains(j) <==> 0 <= j < end,
        forall|j: int| 0 <= j < end ==> (#[trigger] f.hist()[j]).s =~= this.view().subrange(wstart(window as int, j), j + 1)
            && out.written()[j] == f.hist()[j].out,
//@end

