// ============================================================================================
// rollmodel.rs — A-ITER for the iterator-form rolling drivers: `.map(Some)`, and `Iterator::map` with a STATEFUL callback
// whose result is consumed front to back by a collector (the only way tevec uses it).  The model is eager: the callback is
// applied to the items in order, once each; its history records the calls.
// ============================================================================================
impl<A> It<A> {
    // `.map(Some)` (R12: -> `.map_some()`)
    #[verifier::external_body]
    pub fn map_some(self) -> (r: It<Option<A>>)
        ensures
            r.seq() == Seq::new(self.seq().len(), |i: int| Some(self.seq()[i])),
            r.forever().is_none() == self.forever().is_none(), r.announced() == self.announced(), r.trusted() == self.trusted(),
    { unimplemented!() }
    // the trusted collector into the generic output container O (Vec1::collect_from_trusted via collect_trusted_vec1)
    #[verifier::external_body]
    pub fn collect_trusted_o<O: Vec1<A>>(self) -> (r: O)
        requires honest(&self) && self.trusted(),          // #C09,C10 collected_iterator_keeps_its_promise
        ensures r.oview() == self.seq(),
    { unimplemented!() }
}
// number of removals among the first k items
pub open spec fn nsome<T, V>(items: Seq<(Option<T>, V)>, k: int) -> nat
    decreases k
{
    if k <= 0 { 0 } else { nsome(items, k - 1) + if items[k - 1].0.is_some() { 1nat } else { 0nat } }
}
// every call's FIFO precondition, given the calls before it: the r-th removal removes the r-th element ever added
pub open spec fn fifo_items_ok<T, OT>(h0: Seq<Call<T, OT>>, items: Seq<(Option<T>, T)>) -> bool {
    forall|i: int| 0 <= i < items.len() && (#[trigger] items[i]).0.is_some() ==> {
        let k = nrm(h0) + nsome(items, i);
        &&& k <= h0.len() + i
        &&& items[i].0.unwrap() == (adds(h0) + Seq::new(items.len(), |j: int| items[j].1))[k as int]
    }
}
impl<T> It<(Option<T>, T)> {
    // `.map(move |(v_remove, v)| f(v_remove, v))` (R12: -> `.map_rolling(f)`)
    #[verifier::external_body]
    pub fn map_rolling<OT, F: RollingFn<T, OT>>(self, f: &mut F) -> (r: It<OT>)
        requires
            self.forever().is_none(), old(f).inv(),
            old(f).hist().len() + self.seq().len() <= F::cap_len(), F::cap_len() <= usize::MAX,
            forall|i: int| 0 <= i < self.seq().len() ==> F::elem_ok((#[trigger] self.seq()[i]).1),
            fifo_items_ok(old(f).hist(), self.seq()),            // #C02 callback_gets_fifo_removal
        ensures
            final(f).inv(), final(f).cfg() == old(f).cfg(),
            final(f).hist().len() == old(f).hist().len() + self.seq().len(),
            forall|i: int| 0 <= i < old(f).hist().len() ==> #[trigger] final(f).hist()[i] == old(f).hist()[i],
            forall|j: int| old(f).hist().len() <= j < old(f).hist().len() + self.seq().len() ==> {
                let c = #[trigger] final(f).hist()[j];
                let i = j - old(f).hist().len();
                c.rm == self.seq()[i].0 && c.v == self.seq()[i].1 && r.seq()[i] == c.out
            },
            r.seq().len() == self.seq().len(), r.forever().is_none(), r.announced() == self.announced(), r.trusted() == self.trusted(),
    { unimplemented!() }
}
// in tevec `Vec1View<T>: TIter<T>`; the model keeps the two traits apart, this is `titer()` for a plain Vec1View bound
// (R12: `other.titer()` -> `view_titer(other)`)
#[verifier::external_body]
pub fn view_titer<V: Vec1View<T>, T>(v: &V) -> (it: It<T>)
    ensures it.seq() == v.view(), it.announced() == Some(v.view().len()), it.trusted(), it.forever().is_none(),
{ unimplemented!() }
// `(a..b)` used as an iterator (R12: `(0..this.len())` -> `range_it(0, this.len())`)
#[verifier::external_body]
pub fn range_it(a: usize, b: usize) -> (r: It<usize>)
    ensures
        r.seq() == Seq::new(if b >= a { (b - a) as nat } else { 0nat }, |i: int| (a + i) as usize),
        r.announced() == Some(if b >= a { (b - a) as nat } else { 0nat }), r.trusted(), r.forever().is_none(),
{ unimplemented!() }
// the window-index form: every call's precondition idx_ok, for a callback that starts with an empty history
pub open spec fn idx_items_ok<T>(x: Seq<T>, items: Seq<(usize, (T, Option<usize>))>) -> bool {
    forall|i: int| 0 <= i < items.len() ==> {
        let it = #[trigger] items[i];
        let prev_none = i == 0 || items[i - 1].1.1.is_none();
        &&& it.0 == i && i < x.len() && x.len() <= usize::MAX && it.1.0 == x[i]
        &&& it.1.1.is_none() ==> prev_none
        &&& it.1.1 matches Some(s) ==> s <= i && (prev_none ==> s == 0) && (!prev_none ==> s == items[i - 1].1.1.unwrap() + 1)
    }
}
impl<T> It<(usize, (T, Option<usize>))> {
    // `.map(move |(end, (v, start))| f(start, end, v))` (R12: -> `.map_rolling_idx(f)`), consumed front to back by a collector
    #[verifier::external_body]
    pub fn map_rolling_idx<OT, F: RollingIdxFn<T, OT>>(self, f: &mut F) -> (r: It<OT>)
        requires
            self.forever().is_none(), old(f).inv(), old(f).hist().len() == 0,
            idx_items_ok(old(f).series(), self.seq()),                    // #C02 callback_gets_window_index
        ensures
            final(f).inv(), final(f).cfg() == old(f).cfg(), final(f).series() == old(f).series(),
            final(f).hist().len() == self.seq().len(),
            forall|j: int| 0 <= j < self.seq().len() ==> {
                let c = #[trigger] final(f).hist()[j];
                c.end == self.seq()[j].0 && c.v == self.seq()[j].1.0 && c.start == self.seq()[j].1.1 && r.seq()[j] == c.out
            },
            r.seq().len() == self.seq().len(), r.forever().is_none(), r.announced() == self.announced(), r.trusted() == self.trusted(),
    { unimplemented!() }
}
// the internally allocated output of the Vec / slice / array fast paths (tea-core backends_impl/vec.rs):
// `O::uninit(len)` + `O::uninit_ref_mut(&mut out)` + `out.assume_init()`.  The model identifies the uninitialised container
// with its write buffer (R12: `O::uninit(len)` -> `uninit_buf(len)`, `O::uninit_ref_mut(&mut out)` -> `&mut out`,
// `out.assume_init()` -> `assume_init_buf(out)`); assume_init is sound only when every slot has been written.
#[verifier::external_body]
pub fn uninit_buf<O: Vec1<OT>, OT>(len: usize) -> (b: O::Buf)
    ensures buf_fresh(&b, len as nat),
{ unimplemented!() }
#[verifier::external_body]
pub fn assume_init_buf<O: Vec1<OT>, OT>(b: O::Buf) -> (r: O)
    requires buf_full(b.written(), b.cap()),                    // #C10 assume_init_all_slots_written
    ensures r.oview().len() == b.cap(), forall|i: int| 0 <= i < b.cap() ==> #[trigger] r.oview()[i] == b.written()[i],
{ unimplemented!() }
