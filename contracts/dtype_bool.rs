// ============================================================================================
// dtype_bool.rs — the IsNone vocabulary for boolean elements (tea-dtype isnone.rs / bool_type.rs), by contract.
// Same trait shape as dtype.rs without the numeric bound on Inner (bool is not a Number).
// ============================================================================================
pub trait IsNone: Sized + Copy {
    type Inner;
    spec fn opt(self) -> Option<Self::Inner>;
    fn not_none(&self) -> (r: bool) ensures r == self.opt().is_some();
    fn is_none(&self) -> (r: bool) ensures r == self.opt().is_none();
    fn to_opt(self) -> (r: Option<Self::Inner>) ensures r == self.opt();
}
impl IsNone for Option<bool> {
    type Inner = bool;
    open spec fn opt(self) -> Option<bool> { self }
    #[verifier::external_body]
    fn not_none(&self) -> (r: bool) { self.is_some() }
    #[verifier::external_body]
    fn is_none(&self) -> (r: bool) { Option::is_none(self) }
    #[verifier::external_body]
    fn to_opt(self) -> (r: Option<bool>) { self }
}
// bool: never null
impl IsNone for bool {
    type Inner = bool;
    open spec fn opt(self) -> Option<bool> { Some(self) }
    #[verifier::external_body]
    fn not_none(&self) -> (r: bool) { true }
    #[verifier::external_body]
    fn is_none(&self) -> (r: bool) { false }
    #[verifier::external_body]
    fn to_opt(self) -> (r: Option<bool>) { Some(self) }
}
pub trait IsNoneUnwrap: IsNone {
    fn unwrap(self) -> (r: Self::Inner)
        requires self.opt().is_some(),          // unwrap_of_null
        ensures r == self.opt().unwrap();
}
impl IsNoneUnwrap for bool {
    #[verifier::external_body]
    fn unwrap(self) -> (r: bool) { self }
}
pub trait BoolType: Copy {
    spec fn bool_spec(self) -> bool;
    fn bool_(self) -> (r: bool) ensures r == self.bool_spec();
}
