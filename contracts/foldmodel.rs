// ============================================================================================
// foldmodel.rs — folds over iterators (A-ITER) and tevec's null-skipping fold helpers (tea-core iter_traits.rs);
// depends on the IsNone trait only (Inner need not be numeric)
// ============================================================================================
// the non-null elements, in order
pub open spec fn vseq<T: IsNone>(s: Seq<T>) -> Seq<T>
    decreases s.len()
{
    if s.len() == 0 { Seq::<T>::empty() }
    else if s.last().opt().is_some() { vseq(s.drop_last()).push(s.last()) }
    else { vseq(s.drop_last()) }
}
pub open spec fn inner_seq<T: IsNone>(s: Seq<T>) -> Seq<T::Inner> { Seq::new(s.len(), |i: int| s[i].opt().unwrap()) }

// relational left fold: r is what `s.fold(init, f)` returns when every step of f satisfies the relation p.
// acc is the sequence of accumulator values: acc[0] = init, acc[i+1] = step(acc[i], s[i]), acc[len] = r
pub open spec fn fold_chain<A, B>(acc: Seq<B>, s: Seq<A>, init: B, r: B, p: spec_fn(B, A, B) -> bool) -> bool {
    &&& acc.len() == s.len() + 1 && acc[0] == init && acc[s.len() as int] == r
    &&& forall|i: int| 0 <= i < s.len() ==> p(#[trigger] acc[i], s[i], acc[i + 1])
}
pub open spec fn fold_relp<A, B>(s: Seq<A>, init: B, r: B, p: spec_fn(B, A, B) -> bool) -> bool {
    exists|acc: Seq<B>| #[trigger] fold_chain(acc, s, init, r, p)
}
// what a fold with the pure closure f guarantees: for EVERY relation p that f's steps satisfy, the result is a p-fold.
// (The closure value itself cannot be named at the call site; its declared `ensures` makes the premise provable.)
pub open spec fn folds_as<A, B, F: Fn(B, A) -> B>(s: Seq<A>, init: B, r: B, f: F) -> bool {
    forall|p: spec_fn(B, A, B) -> bool| (forall|b: B, a: A, o: B| f.ensures((b, a), o) ==> #[trigger] p(b, a, o)) ==> #[trigger] fold_relp(s, init, r, p)
}

// a stateful per-element callback (closure with mutable captures, R9): hist() = the elements it has been applied to, in order
pub trait ApplyFn<A>: Sized {
    type Cfg;
    spec fn cfg(&self) -> Self::Cfg;
    spec fn hist(&self) -> Seq<A>;
    spec fn inv(&self) -> bool;
    spec fn arg_ok(v: A) -> bool;
    fn call(&mut self, v: A)
        requires old(self).inv(), Self::arg_ok(v), old(self).hist().len() < 0x7fff_ffff,
        ensures final(self).inv(), final(self).cfg() == old(self).cfg(), final(self).hist() == old(self).hist().push(v);
}

impl<A> It<A> {
    // IntoIterator::into_iter on an iterator is the identity
    #[verifier::external_body]
    pub fn into_iter(self) -> (r: It<A>)
        ensures r == self,
    { unimplemented!() }

    // Iterator::for_each with a stateful closure (R9, R12: `.for_each(` -> `.for_each_mut(`): applied once per item, in order
    #[verifier::external_body]
    pub fn for_each_mut<F: ApplyFn<A>>(self, f: &mut F)
        requires
            self.forever().is_none(), old(f).inv(), old(f).hist().len() + self.seq().len() <= 0x7fff_ffff,
            forall|i: int| 0 <= i < self.seq().len() ==> F::arg_ok(#[trigger] self.seq()[i]),
        ensures final(f).inv(), final(f).cfg() == old(f).cfg(), final(f).hist() == old(f).hist() + self.seq(),
    { unimplemented!() }

    // Iterator::fold with a pure closure
    #[verifier::external_body]
    pub fn fold<B, F: Fn(B, A) -> B>(self, init: B, f: F) -> (r: B)
        requires self.forever().is_none(), forall|b: B, a: A| #[trigger] f.requires((b, a)),
        ensures folds_as(self.seq(), init, r, f),
    { unimplemented!() }
}

// tea-core iter_traits.rs IterBasic, by contract (thin wrappers over Iterator::fold that skip nulls)
impl<T: IsNone> It<T> {
    #[verifier::external_body]
    pub fn vfold<U, F: Fn(U, T) -> U>(self, init: U, f: F) -> (r: U)
        requires self.forever().is_none(), forall|b: U, a: T| a.opt().is_some() ==> #[trigger] f.requires((b, a)),
        ensures folds_as(vseq(self.seq()), init, r, f),
    { unimplemented!() }
    #[verifier::external_body]
    pub fn vfold_n<U, F: Fn(U, T::Inner) -> U>(self, init: U, f: F) -> (r: (usize, U))
        requires self.forever().is_none(), forall|b: U, a: T::Inner| #[trigger] f.requires((b, a)), self.seq().len() <= usize::MAX,
        ensures r.0 == vseq(self.seq()).len(), folds_as(inner_seq(vseq(self.seq())), init, r.1, f),
    { unimplemented!() }
    // vapply_n with a stateful closure (R9, R12: `.vapply_n(` -> `.vapply_n_mut(`)
    #[verifier::external_body]
    pub fn vapply_n_mut<F: ApplyFn<T::Inner>>(self, f: &mut F) -> (r: usize)
        requires
            self.forever().is_none(), old(f).inv(), old(f).hist().len() + self.seq().len() <= 0x7fff_ffff,
            forall|i: int| 0 <= i < self.seq().len() && (#[trigger] self.seq()[i]).opt().is_some() ==> F::arg_ok(self.seq()[i].opt().unwrap()),
        ensures
            r == vseq(self.seq()).len(),
            final(f).inv(), final(f).cfg() == old(f).cfg(), final(f).hist() == old(f).hist() + inner_seq(vseq(self.seq())),
    { unimplemented!() }
}
