// ============================================================================================
// prelude.rs — contract vocabulary shared by every Verus unit (DESIGN 2.3).
// Trait declarations here transcribe tevec's traits (A-EXTRACT); methods without a body are
// *contracts*: callers are checked against them, the bodies are proved where stated.
// ============================================================================================

// the verified platform: 64-bit (tevec's integer products of window counts are sized for it)
global size_of usize == 8;

// ---- panics and errors (R11)
pub uninterp spec fn panic_allowed() -> bool;
// A reachable panic is an obligation unless the enclosing contract declared it (`requires P ==> panic_allowed()`).
#[verifier::external_body]
pub fn vpanic() -> !
    requires panic_allowed(),   // #panic_site
{ panic!() }

#[verifier::external_body]
#[derive(Debug)]
pub struct TError { _p: u8 }
impl TError {
    #[verifier::external_body]
    pub fn any() -> TError { unimplemented!() }
}
pub type TResult<A> = Result<A, TError>;

// ---- views and buffers
pub trait Vec1View<T>: Sized {
    spec fn view(&self) -> Seq<T>;

    fn len(&self) -> (r: usize)
        ensures r == self.view().len();

    unsafe fn uget(&self, index: usize) -> (r: T)
        requires index < self.view().len(),           // #C10 uget_index_in_range
        ensures r == self.view()[index as int];

    // sub-views (rolling_custom*): `supports_slice` is false for backends whose `slice` is the erroring default
    type Slice;
    spec fn slice_view(s: &Self::Slice) -> Seq<T>;
    spec fn supports_slice(&self) -> bool;

    unsafe fn uslice(&self, start: usize, end: usize) -> (r: TResult<Self::Slice>)
        requires start <= end <= self.view().len(),        // #C10 uslice_range_in_bounds
        ensures
            self.supports_slice() ==> r.is_ok(),
            r matches Ok(s) ==> Self::slice_view(&s) == self.view().subrange(start as int, end as int);
}

pub trait UninitRefMut<OT>: Sized {
    spec fn cap(&self) -> nat;
    spec fn written(&self) -> Map<int, OT>;

    unsafe fn uset(&mut self, idx: usize, v: OT)
        requires
            idx < old(self).cap(),                                  // #C10 uset_index_in_range
            !old(self).written().dom().contains(idx as int),        // #C10 uset_write_once
        ensures
            final(self).cap() == old(self).cap(),
            final(self).written() == old(self).written().insert(idx as int, v);
}

// output container O: Vec1<OT>; `O::Buf` is tevec's `O::UninitRefMut<'_>` (R4: by value -> &mut)
pub trait Vec1<OT>: Sized {
    type Buf: UninitRefMut<OT>;
    spec fn oview(&self) -> Seq<OT>;
}

pub open spec fn buf_fresh<OT, B: UninitRefMut<OT>>(b: &B, len: nat) -> bool {
    b.cap() == len && b.written() =~= Map::<int, OT>::empty()
}

pub open spec fn buf_full<OT>(w: Map<int, OT>, len: nat) -> bool {
    forall|i: int| w.dom().contains(i) <==> 0 <= i < len
}

// ---- callback protocol: remove/add form
pub struct Call<T, OT> { pub rm: Option<T>, pub v: T, pub out: OT }

pub open spec fn adds<T, OT>(h: Seq<Call<T, OT>>) -> Seq<T> { Seq::new(h.len(), |i: int| h[i].v) }

pub open spec fn nrm<T, OT>(h: Seq<Call<T, OT>>) -> nat
    decreases h.len()
{
    if h.len() == 0 { 0 } else { nrm(h.drop_last()) + if h.last().rm.is_some() { 1nat } else { 0nat } }
}

// removals are FIFO: the r-th removal removes the r-th element ever added (possibly the one added by this call)
pub open spec fn fifo_ok<T, OT>(h: Seq<Call<T, OT>>, rm: Option<T>, v: T) -> bool {
    rm.is_some() ==> nrm(h) <= h.len() && rm.unwrap() == adds(h).push(v)[nrm(h) as int]
}

// window after all removals so far
pub open spec fn win<T, OT>(h: Seq<Call<T, OT>>) -> Seq<T> {
    adds(h).subrange(nrm(h) as int, h.len() as int)
}

pub open spec fn hist_wf<T, OT>(h: Seq<Call<T, OT>>) -> bool { nrm(h) <= h.len() }

pub proof fn lemma_nrm_push<T, OT>(h: Seq<Call<T, OT>>, c: Call<T, OT>)
    ensures nrm(h.push(c)) == nrm(h) + if c.rm.is_some() { 1nat } else { 0nat }
{
    assert(h.push(c).drop_last() =~= h);
}

pub trait RollingFn<T, OT>: Sized {
    type Cfg;                              // the immutable captures of the closure (R9)
    spec fn cfg(&self) -> Self::Cfg;
    spec fn hist(&self) -> Seq<Call<T, OT>>;
    spec fn inv(&self) -> bool;
    spec fn elem_ok(v: T) -> bool;
    spec fn cap_len() -> nat;                  // longest series the closure's integer arithmetic is proved for (A-LEN), <= usize::MAX

    fn call(&mut self, rm: Option<T>, v: T) -> (r: OT)
        requires
            old(self).inv(),
            fifo_ok(old(self).hist(), rm, v),            // #C02 callback_gets_fifo_removal
            Self::elem_ok(v),
            old(self).hist().len() < Self::cap_len(), Self::cap_len() <= usize::MAX,
        ensures
            final(self).inv(),
            final(self).cfg() == old(self).cfg(),
            final(self).hist() == old(self).hist().push(Call { rm, v, out: r });
}

// ---- the trace every remove/add driver must produce (C02)
pub open spec fn wclamp(window: usize, len: nat) -> int { if window <= len { window as int } else { len as int } }

pub open spec fn exp_rm<T>(x: Seq<T>, w: int, i: int) -> Option<T> {
    if i >= w - 1 { Some(x[i - w + 1]) } else { None }
}

// strict: the `_to` forms (every position, clamped window)
pub open spec fn trace_strict<T, OT>(h: Seq<Call<T, OT>>, x: Seq<T>, window: usize) -> bool {
    &&& h.len() == x.len()
    &&& forall|i: int| 0 <= i < x.len() ==> (#[trigger] h[i]).v == x[i]
    &&& forall|i: int| 0 <= i < x.len() ==> (#[trigger] h[i]).rm == exp_rm(x, wclamp(window, x.len()), i)
}

// public: what rolling_apply exposes — final position free when the window is longer than the series
pub open spec fn trace_ok<T, OT>(h: Seq<Call<T, OT>>, x: Seq<T>, window: usize) -> bool {
    &&& h.len() == x.len()
    &&& forall|i: int| 0 <= i < x.len() ==> (#[trigger] h[i]).v == x[i]
    &&& forall|i: int| 0 <= i < x.len() && (window <= x.len() || i < x.len() - 1)
            ==> (#[trigger] h[i]).rm == exp_rm(x, wclamp(window, x.len()), i)
}

pub open spec fn out_ok<T, OT>(w: Map<int, OT>, h: Seq<Call<T, OT>>) -> bool {
    &&& buf_full(w, h.len())
    &&& forall|i: int| 0 <= i < h.len() ==> w[i] == (#[trigger] h[i]).out
}

pub open spec fn outs<T, OT>(h: Seq<Call<T, OT>>) -> Seq<OT> { Seq::new(h.len(), |i: int| h[i].out) }

pub open spec fn all_elem_ok<T, OT, F: RollingFn<T, OT>>(x: Seq<T>) -> bool {
    &&& x.len() <= F::cap_len() <= usize::MAX
    &&& forall|i: int| 0 <= i < x.len() ==> F::elem_ok(#[trigger] x[i])
}

// ---- two-series drivers: the callback sees pairs
pub open spec fn zipv<T, T2>(a: Seq<T>, b: Seq<T2>) -> Seq<(T, T2)>
    recommends b.len() >= a.len()
{
    Seq::new(a.len(), |i: int| (a[i], b[i]))
}

// ---- callback protocol: window-index form
pub struct CallIdx<T, OT> { pub start: Option<usize>, pub end: usize, pub v: T, pub out: OT }

// call k gets end == k, the element at k, and a window start that is None during warm-up and then 0, 1, 2, ...
pub open spec fn idx_ok<T, OT>(h: Seq<CallIdx<T, OT>>, x: Seq<T>, start: Option<usize>, end: usize, v: T) -> bool {
    &&& end == h.len() && end < x.len() && x.len() <= usize::MAX && v == x[end as int]
    &&& start.is_none() ==> (h.len() == 0 || h.last().start.is_none())
    &&& start matches Some(s) ==> {
        &&& s <= end
        &&& (h.len() == 0 || h.last().start.is_none()) ==> s == 0
        &&& (h.len() > 0 && h.last().start.is_some()) ==> s == h.last().start.unwrap() + 1
    }
}

pub trait RollingIdxFn<T, OT>: Sized {
    type Cfg;
    spec fn cfg(&self) -> Self::Cfg;
    spec fn hist(&self) -> Seq<CallIdx<T, OT>>;
    spec fn inv(&self) -> bool;
    spec fn series(&self) -> Seq<T>;      // ghost: the series the callback may index into

    fn call(&mut self, start: Option<usize>, end: usize, v: T) -> (r: OT)
        requires
            old(self).inv(),
            idx_ok(old(self).hist(), old(self).series(), start, end, v),   // #C02 callback_gets_window_index
        ensures
            final(self).inv(),
            final(self).series() == old(self).series(),
            final(self).cfg() == old(self).cfg(),
            final(self).hist() == old(self).hist().push(CallIdx { start, end, v, out: r });
}

pub open spec fn exp_start(w: int, i: int) -> Option<usize> {
    if i >= w - 1 { Some((i - w + 1) as usize) } else { None }
}

pub open spec fn trace_idx_strict<T, OT>(h: Seq<CallIdx<T, OT>>, x: Seq<T>, window: usize) -> bool {
    &&& h.len() == x.len()
    &&& forall|i: int| 0 <= i < x.len() ==> (#[trigger] h[i]).v == x[i] && h[i].end == i
    &&& forall|i: int| 0 <= i < x.len() ==> (#[trigger] h[i]).start == exp_start(wclamp(window, x.len()), i)
}

pub open spec fn trace_idx_ok<T, OT>(h: Seq<CallIdx<T, OT>>, x: Seq<T>, window: usize) -> bool {
    &&& h.len() == x.len()
    &&& forall|i: int| 0 <= i < x.len() ==> (#[trigger] h[i]).v == x[i] && h[i].end == i
    &&& forall|i: int| 0 <= i < x.len() && (window <= x.len() || i < x.len() - 1)
            ==> (#[trigger] h[i]).start == exp_start(wclamp(window, x.len()), i)
}

pub open spec fn out_idx_ok<T, OT>(w: Map<int, OT>, h: Seq<CallIdx<T, OT>>) -> bool {
    &&& buf_full(w, h.len())
    &&& forall|i: int| 0 <= i < h.len() ==> w[i] == (#[trigger] h[i]).out
}

// ---- callback protocol: window-slice form
pub struct CallSlice<T, OT> { pub s: Seq<T>, pub out: OT }

pub trait SliceFn<S, T, OT>: Sized {
    type Cfg;
    spec fn cfg(&self) -> Self::Cfg;
    spec fn hist(&self) -> Seq<CallSlice<T, OT>>;
    spec fn inv(&self) -> bool;
    spec fn sview(s: &S) -> Seq<T>;

    fn call(&mut self, s: S) -> (r: OT)
        requires old(self).inv(),
        ensures
            final(self).inv(),
            final(self).cfg() == old(self).cfg(),
            final(self).hist() == old(self).hist().push(CallSlice { s: Self::sview(&s), out: r });
}

pub open spec fn wstart(w: int, i: int) -> int { if i - w + 1 > 0 { i - w + 1 } else { 0 } }

pub open spec fn trace_slice<T, OT>(h: Seq<CallSlice<T, OT>>, x: Seq<T>, w: int) -> bool {
    &&& h.len() == x.len()
    &&& forall|i: int| 0 <= i < x.len() ==> (#[trigger] h[i]).s =~= x.subrange(wstart(w, i), i + 1)
}

pub open spec fn out_slice_ok<T, OT>(w: Map<int, OT>, h: Seq<CallSlice<T, OT>>) -> bool {
    &&& buf_full(w, h.len())
    &&& forall|i: int| 0 <= i < h.len() ==> w[i] == (#[trigger] h[i]).out
}

// ---- what the public Option-dispatching drivers deliver: either into the caller's buffer or as a new container
pub open spec fn delivered<OT, O: Vec1<OT>>(r: Option<O>, w: Option<Map<int, OT>>, s: Seq<OT>) -> bool {
    match w {
        Some(m) => r.is_none() && buf_full(m, s.len()) && (forall|i: int| 0 <= i < s.len() ==> m[i] == #[trigger] s[i]),
        None => r.is_some() && r.unwrap().oview() =~= s,
    }
}

// a public function delivered `len` outputs (into the caller's buffer, or as the returned container), output i satisfying p(i, .)
pub open spec fn delivered_each<OT, O: Vec1<OT>>(r: Option<O>, w: Option<Map<int, OT>>, len: nat, p: spec_fn(int, OT) -> bool) -> bool {
    match w {
        Some(m) => r.is_none() && buf_full(m, len) && (forall|i: int| 0 <= i < len ==> p(i, #[trigger] m[i])),
        None => r.is_some() && r.unwrap().oview().len() == len && (forall|i: int| 0 <= i < len ==> p(i, #[trigger] r.unwrap().oview()[i])),
    }
}
pub proof fn lemma_delivered_each<OT, O: Vec1<OT>>(r: Option<O>, w: Option<Map<int, OT>>, s: Seq<OT>, p: spec_fn(int, OT) -> bool)
    requires delivered(r, w, s), forall|i: int| 0 <= i < s.len() ==> p(i, #[trigger] s[i]),
    ensures delivered_each(r, w, s.len(), p),
{
    match w {
        Some(m) => {
            assert forall|i: int| 0 <= i < s.len() implies p(i, #[trigger] m[i]) by { assert(m[i] == s[i]); }
        },
        None => {
            let v = r.unwrap().oview();
            assert forall|i: int| 0 <= i < s.len() implies p(i, #[trigger] v[i]) by { assert(v[i] == s[i]); }
        },
    }
}

// ---- the slice driver as its clients (unit `fdiff`) may assume it: tea-core view.rs `rolling_custom`.  The Vec / ndarray fast paths are
// proved against this contract in unit `drvo` from `rolling_custom_to` (vec_rolling_custom, nd_rolling_custom); the default
// iterator-form body (rolling_custom_iter: a zip of two ranges through a lazy map) stays assumed (A-ITER).
pub open spec fn outs_slice<T, OT>(h: Seq<CallSlice<T, OT>>) -> Seq<OT> { Seq::new(h.len(), |i: int| h[i].out) }
pub trait SliceDriver<T>: Vec1View<T> {
    fn rolling_custom<O: Vec1<OT>, OT, F: SliceFn<Self::Slice, T, OT>>(&self, window: usize, f: &mut F, out: Option<&mut O::Buf>) -> (r: Option<O>)
        requires
            old(f).hist().len() == 0,
            old(f).inv(),
            self.supports_slice(),
            forall|s: &Self::Slice| #[trigger] F::sview(s) == Self::slice_view(s),
            out matches Some(o) ==> buf_fresh(o, self.view().len()),
            window >= 1,
        ensures
            final(f).inv(),
            final(f).cfg() == old(f).cfg(),
            trace_slice(final(f).hist(), self.view(), wclamp(window, self.view().len())),
            delivered(r, match out { Some(o) => Some(final(o).written()), None => None }, outs_slice(final(f).hist()));
}


pub trait RollingDrivers<T>: Vec1View<T> {
    // tea-core view.rs rolling_apply: body proved in unit `drv` against exactly this contract
    fn rolling_apply<O: Vec1<OT>, OT, F: RollingFn<T, OT>>(&self, window: usize, f: &mut F, out: Option<&mut O::Buf>) -> (r: Option<O>)
        requires
            old(f).hist().len() == 0,
            old(f).inv(),
            all_elem_ok::<T, OT, F>(self.view()),
            out matches Some(o) ==> buf_fresh(o, self.view().len()),
            (window == 0 && out.is_none() && self.view().len() > 0) ==> panic_allowed(),     // assert!(window > 0 || len == 0)
        ensures
            final(f).inv(),
            final(f).cfg() == old(f).cfg(),
            window >= 1 ==> trace_ok(final(f).hist(), self.view(), window),
            window >= 1 ==> delivered(r, match out { Some(o) => Some(final(o).written()), None => None }, outs(final(f).hist())),
            // window 0: nothing is called or written; an empty series still gives an (empty) result
            window == 0 ==> final(f).hist() =~= old(f).hist(),
            (window == 0 && out.is_some()) ==> r.is_none() && (out matches Some(o) ==> final(o).written() =~= o.written()),
            (window == 0 && out.is_none() && self.view().len() == 0) ==> r.is_some() && r.unwrap().oview().len() == 0;

    // tea-core view.rs rolling2_apply: the callback sees pairs; a second series shorter than the first is a clean panic
    fn rolling2_apply<O: Vec1<OT>, OT, V2: Vec1View<T2>, T2, F: RollingFn<(T, T2), OT>>(&self, other: &V2, window: usize, f: &mut F, out: Option<&mut O::Buf>) -> (r: Option<O>)
        requires
            old(f).hist().len() == 0,
            old(f).inv(),
            other.view().len() >= self.view().len() ==> all_elem_ok::<(T, T2), OT, F>(zipv(self.view(), other.view())),
            other.view().len() < self.view().len() ==> panic_allowed(),
            out matches Some(o) ==> buf_fresh(o, self.view().len()),
            (window == 0 && out.is_none() && self.view().len() > 0) ==> panic_allowed(),
        ensures
            final(f).inv(),
            final(f).cfg() == old(f).cfg(),
            window >= 1 ==> trace_ok(final(f).hist(), zipv(self.view(), other.view()), window),
            window >= 1 ==> delivered(r, match out { Some(o) => Some(final(o).written()), None => None }, outs(final(f).hist())),
            window == 0 ==> final(f).hist() =~= old(f).hist(),
            (window == 0 && out.is_some()) ==> r.is_none() && (out matches Some(o) ==> final(o).written() =~= o.written()),
            (window == 0 && out.is_none() && self.view().len() == 0) ==> r.is_some() && r.unwrap().oview().len() == 0;

    // tea-core view.rs rolling_apply_idx
    fn rolling_apply_idx<O: Vec1<OT>, OT, F: RollingIdxFn<T, OT>>(&self, window: usize, f: &mut F, out: Option<&mut O::Buf>) -> (r: Option<O>)
        requires
            old(f).hist().len() == 0,
            old(f).inv(),
            old(f).series() == self.view(),
            out matches Some(o) ==> buf_fresh(o, self.view().len()),
            (window == 0 && out.is_none() && self.view().len() > 0) ==> panic_allowed(),     // assert!(window > 0 || len == 0)
        ensures
            final(f).inv(),
            final(f).cfg() == old(f).cfg(),
            final(f).series() == old(f).series(),
            window >= 1 ==> trace_idx_ok(final(f).hist(), self.view(), window),
            window >= 1 ==> delivered(r, match out { Some(o) => Some(final(o).written()), None => None }, outs_idx(final(f).hist())),
            window == 0 ==> final(f).hist() =~= old(f).hist(),
            (window == 0 && out.is_some()) ==> r.is_none() && (out matches Some(o) ==> final(o).written() =~= o.written()),
            (window == 0 && out.is_none() && self.view().len() == 0) ==> r.is_some() && r.unwrap().oview().len() == 0;
}
pub open spec fn outs_idx<T, OT>(h: Seq<CallIdx<T, OT>>) -> Seq<OT> { Seq::new(h.len(), |i: int| h[i].out) }
