// ============================================================================================
// lemmas/idxwin.rs — window-index form: counts over index ranges, output-history predicate,
// composition with the driver trace.  All proved.
// ============================================================================================
//@props C03,C04,C05,C06,C10

pub open spec fn cntr<T: IsNone>(x: Seq<T>, a: int, b: int) -> int { cnt(vals(x.subrange(a, b))) }

pub proof fn lemma_cntr_bounds<T: IsNone>(x: Seq<T>, a: int, b: int)
    requires 0 <= a <= b <= x.len(),
    ensures 0 <= cntr(x, a, b) <= b - a,
{
    lemma_cnt_le_len(vals(x.subrange(a, b)));
}

pub proof fn lemma_cntr_empty<T: IsNone>(x: Seq<T>, a: int)
    requires 0 <= a <= x.len(),
    ensures cntr(x, a, a) == 0,
{
    assert(vals(x.subrange(a, a)).len() == 0);
}

pub proof fn lemma_cntr_push<T: IsNone>(x: Seq<T>, a: int, b: int)
    requires 0 <= a <= b < x.len(),
    ensures cntr(x, a, b + 1) == cntr(x, a, b) + cv(val(x[b])),
{
    assert(x.subrange(a, b + 1) =~= x.subrange(a, b).push(x[b]));
    lemma_vals_push(x.subrange(a, b), x[b]);
    lemma_push(vals(x.subrange(a, b)), val(x[b]));
}

pub proof fn lemma_cntr_pop<T: IsNone>(x: Seq<T>, a: int, b: int)
    requires 0 <= a < b <= x.len(),
    ensures cntr(x, a + 1, b) == cntr(x, a, b) - cv(val(x[a])), cntr(x, a, b) >= cv(val(x[a])),
{
    let s = x.subrange(a, b);
    assert(x.subrange(a + 1, b) =~= s.subrange(1, s.len() as int));
    lemma_vals_tail(s);
    lemma_drop_first(vals(s));
    assert(vals(s)[0] == val(x[a]));
}

pub open spec fn ostart(s: Option<usize>) -> int { match s { Some(v) => v as int, None => 0 } }

// every recorded output satisfies p on the window [start.unwrap_or(0) ..= end] of its call
pub open spec fn idx_outs_ok<T, OT>(h: Seq<CallIdx<T, OT>>, x: Seq<T>, p: spec_fn(Seq<T>, OT) -> bool) -> bool {
    forall|k: int| 0 <= k < h.len() ==> p(x.subrange(ostart((#[trigger] h[k]).start), h[k].end as int + 1), h[k].out)
}

pub proof fn lemma_idx_outs_step<T, OT>(h0: Seq<CallIdx<T, OT>>, c: CallIdx<T, OT>, x: Seq<T>, p: spec_fn(Seq<T>, OT) -> bool)
    requires idx_outs_ok(h0, x, p), p(x.subrange(ostart(c.start), c.end as int + 1), c.out),
    ensures idx_outs_ok(h0.push(c), x, p),
{
    let h1 = h0.push(c);
    assert forall|k: int| 0 <= k < h1.len() implies p(x.subrange(ostart((#[trigger] h1[k]).start), h1[k].end as int + 1), h1[k].out) by {
        if k < h0.len() { assert(h1[k] == h0[k]); }
    }
}

// composition with the driver trace (C02): the window of call k is x[max(0,k-w+1) ..= k]
pub proof fn lemma_idx_window_is_wnd<T, OT>(h: Seq<CallIdx<T, OT>>, x: Seq<T>, w: usize, window: usize, k: int)
    requires trace_idx_ok(h, x, w), 1 <= w <= x.len(), w == (if window <= x.len() { window } else { x.len() as usize }), 0 <= k < x.len(),
    ensures x.subrange(ostart(h[k].start), h[k].end as int + 1) =~= wnd(x, window, k),
{
    assert(h[k].start == exp_start(wclamp(w, x.len()), k));
    assert(h[k].end == k);
}
