// ============================================================================================
// lemmas/window.rs — window algebra: FIFO step, power sums over the value view, composition of a
// closure's history invariant with the driver trace (DESIGN 2.3, 6/C01).  All proved, no axioms.
// ============================================================================================
//@props C01,C03,C04,C05,C06

// ---- FIFO step
pub open spec fn win_after<T, OT>(h: Seq<Call<T, OT>>, rm: Option<T>, v: T) -> Seq<T> {
    let wp = win(h).push(v);
    if rm.is_some() { wp.subrange(1, wp.len() as int) } else { wp }
}

pub proof fn lemma_fifo_step<T, OT>(h0: Seq<Call<T, OT>>, c: Call<T, OT>)
    requires hist_wf(h0), fifo_ok(h0, c.rm, c.v),
    ensures
        hist_wf(h0.push(c)),
        win(h0.push(c)) =~= win_after(h0, c.rm, c.v),
        c.rm.is_some() ==> win(h0).push(c.v)[0] == c.rm.unwrap(),
        win(h0).len() <= h0.len(),
{
    let h1 = h0.push(c);
    lemma_nrm_push(h0, c);
    assert(adds(h1) =~= adds(h0).push(c.v));
    let wp = win(h0).push(c.v);
    assert(wp =~= adds(h1).subrange(nrm(h0) as int, h1.len() as int));
    if c.rm.is_some() {
        assert(wp[0] == adds(h0).push(c.v)[nrm(h0) as int]);
        assert(win(h1) =~= wp.subrange(1, wp.len() as int));
    } else {
        assert(win(h1) =~= wp);
    }
}

// window seen by call k before its own removal
pub open spec fn fifo_window<T, OT>(h: Seq<Call<T, OT>>, k: int) -> Seq<T> {
    win(h.take(k)).push(h[k].v)
}

pub open spec fn outs_ok<T, OT>(h: Seq<Call<T, OT>>, p: spec_fn(Seq<T>, OT) -> bool) -> bool {
    forall|k: int| 0 <= k < h.len() ==> p(#[trigger] fifo_window(h, k), h[k].out)
}

pub proof fn lemma_outs_step<T, OT>(h0: Seq<Call<T, OT>>, c: Call<T, OT>, p: spec_fn(Seq<T>, OT) -> bool)
    requires outs_ok(h0, p), p(win(h0).push(c.v), c.out),
    ensures outs_ok(h0.push(c), p),
{
    let h1 = h0.push(c);
    assert forall|k: int| 0 <= k < h1.len() implies p(#[trigger] fifo_window(h1, k), h1[k].out) by {
        if k < h0.len() {
            assert(h1.take(k) =~= h0.take(k));
            assert(fifo_window(h1, k) == fifo_window(h0, k));
        } else {
            assert(h1.take(k) =~= h0);
        }
    }
}

// ---- composition with the driver trace: the window of call k is x[max(0,k-w+1) ..= k]
pub open spec fn wnd<T>(x: Seq<T>, window: usize, i: int) -> Seq<T> {
    x.subrange(wstart(window as int, i), i + 1)
}

pub proof fn lemma_nrm_take<T, OT>(h: Seq<Call<T, OT>>, x: Seq<T>, window: usize, k: int)
    requires trace_ok(h, x, window), window >= 1, 0 <= k <= x.len(), k < x.len() || window <= x.len(),
    ensures nrm(h.take(k)) == wstart(wclamp(window, x.len()), k),
    decreases k
{
    let w = wclamp(window, x.len());
    if k == 0 {
        assert(h.take(0).len() == 0);
    } else {
        lemma_nrm_take(h, x, window, k - 1);
        assert(h.take(k).drop_last() =~= h.take(k - 1));
        assert(h.take(k).last() == h[k - 1]);
        assert(h[k - 1].rm == exp_rm(x, w, k - 1));
    }
}

pub proof fn lemma_fifo_window_is_wnd<T, OT>(h: Seq<Call<T, OT>>, x: Seq<T>, window: usize, k: int)
    requires trace_ok(h, x, window), window >= 1, 0 <= k < x.len(),
    ensures fifo_window(h, k) =~= wnd(x, window, k),
{
    let w = wclamp(window, x.len());
    lemma_nrm_take(h, x, window, k);
    let hk = h.take(k);
    assert(adds(hk) =~= x.take(k)) by {
        assert forall|j: int| 0 <= j < k implies adds(hk)[j] == x[j] by { assert(hk[j] == h[j]); }
    }
    assert(h[k].v == x[k]);
    // start of the unclamped window equals start of the clamped one for every k < len
    assert(wstart(window as int, k) == wstart(w, k));
    assert(win(hk) =~= x.subrange(wstart(w, k), k));
}

// ---- power sums over the value view (None = null)
pub open spec fn pw(v: Option<real>, k: int) -> real {
    match v {
        None => 0real,
        Some(x) => if k == 1 { x } else if k == 2 { x * x } else if k == 3 { x * x * x } else { (x * x) * (x * x) },
    }
}
pub open spec fn cv(v: Option<real>) -> int { if v.is_some() { 1 } else { 0 } }
pub open spec fn ps(s: Seq<Option<real>>, k: int) -> real
    decreases s.len()
{
    if s.len() == 0 { 0real } else { ps(s.drop_last(), k) + pw(s.last(), k) }
}
pub open spec fn cnt(s: Seq<Option<real>>) -> int
    decreases s.len()
{
    if s.len() == 0 { 0 } else { cnt(s.drop_last()) + cv(s.last()) }
}

pub proof fn lemma_cnt_le_len(s: Seq<Option<real>>)
    ensures 0 <= cnt(s) <= s.len(),
    decreases s.len()
{
    if s.len() > 0 { lemma_cnt_le_len(s.drop_last()); }
}

pub proof fn lemma_cnt_pos_has_some(s: Seq<Option<real>>)
    requires cnt(s) > 0,
    ensures exists|t: int| 0 <= t < s.len() && (#[trigger] s[t]).is_some(),
    decreases s.len()
{
    if s.len() > 0 {
        if s.last().is_some() {
            assert(s[s.len() - 1].is_some());
        } else {
            lemma_cnt_pos_has_some(s.drop_last());
            let t = choose|t: int| 0 <= t < s.drop_last().len() && (#[trigger] s.drop_last()[t]).is_some();
            assert(s[t] == s.drop_last()[t]);
        }
    }
}

pub proof fn lemma_push(s: Seq<Option<real>>, v: Option<real>)
    ensures
        cnt(s.push(v)) == cnt(s) + cv(v),
        forall|k: int| #![trigger ps(s.push(v), k)] ps(s.push(v), k) == ps(s, k) + pw(v, k),
{
    assert(s.push(v).drop_last() =~= s);
}

pub proof fn lemma_drop_first(s: Seq<Option<real>>)
    requires s.len() > 0,
    ensures
        cnt(s.subrange(1, s.len() as int)) == cnt(s) - cv(s[0]),
        cnt(s) >= cv(s[0]),
        forall|k: int| #![trigger ps(s.subrange(1, s.len() as int), k)] ps(s.subrange(1, s.len() as int), k) == ps(s, k) - pw(s[0], k),
    decreases s.len()
{
    let t = s.subrange(1, s.len() as int);
    if s.len() == 1 {
        assert(t.len() == 0);
        assert(s.drop_last().len() == 0);
        assert(s.last() == s[0]);
        assert(cnt(t) == 0);
        assert(cnt(s.drop_last()) == 0);
        assert(cnt(s) == cnt(s.drop_last()) + cv(s.last()));
        assert forall|k: int| #![trigger ps(t, k)] ps(t, k) == ps(s, k) - pw(s[0], k) by {
            assert(ps(t, k) == 0real);
            assert(ps(s.drop_last(), k) == 0real);
            assert(ps(s, k) == ps(s.drop_last(), k) + pw(s.last(), k));
        }
    } else {
        let sd = s.drop_last();
        lemma_drop_first(sd);
        let td = sd.subrange(1, sd.len() as int);
        assert(t.drop_last() =~= td);
        assert(t.len() > 0);
        assert(t.last() == s.last());
        assert(sd[0] == s[0]);
        lemma_cnt_le_len(sd);
        assert(cnt(s) == cnt(sd) + cv(s.last()));
        assert(cnt(t) == cnt(t.drop_last()) + cv(t.last()));
        assert(cnt(td) == cnt(sd) - cv(sd[0]));
        assert forall|k: int| #![trigger ps(t, k)] ps(t, k) == ps(s, k) - pw(s[0], k) by {
            assert(ps(s, k) == ps(sd, k) + pw(s.last(), k));
            assert(ps(t, k) == ps(t.drop_last(), k) + pw(t.last(), k));
            assert(ps(td, k) == ps(sd, k) - pw(sd[0], k));
        }
    }
}

pub proof fn lemma_vals_push<T: IsNone>(s: Seq<T>, v: T)
    ensures vals(s.push(v)) =~= vals(s).push(val(v)),
{
}

pub proof fn lemma_vals_tail<T: IsNone>(s: Seq<T>)
    requires s.len() > 0,
    ensures vals(s.subrange(1, s.len() as int)) =~= vals(s).subrange(1, s.len() as int),
{
}

// one call of a remove/add closure seen through the value view: what the accumulators must do
pub proof fn lemma_step_vals<T: IsNone, OT>(h0: Seq<Call<T, OT>>, rm: Option<T>, v: T)
    requires hist_wf(h0), fifo_ok(h0, rm, v),
    ensures
        ({
            let w0 = vals(win(h0));
            let wp = w0.push(val(v));
            let w1 = vals(win_after(h0, rm, v));
            &&& vals(win(h0).push(v)) =~= wp
            &&& cnt(wp) == cnt(w0) + cv(val(v))
            &&& (forall|k: int| #![trigger ps(wp, k)] ps(wp, k) == ps(w0, k) + pw(val(v), k))
            &&& 0 <= cnt(w0) <= h0.len()
            &&& rm.is_some() ==> {
                &&& wp.len() > 0 && wp[0] == val(rm.unwrap()) && w1 =~= wp.subrange(1, wp.len() as int)
                &&& cnt(w1) == cnt(wp) - cv(val(rm.unwrap()))
                &&& cnt(wp) >= cv(val(rm.unwrap()))
                &&& (forall|k: int| #![trigger ps(w1, k)] ps(w1, k) == ps(wp, k) - pw(val(rm.unwrap()), k))
            }
            &&& rm.is_none() ==> w1 =~= wp
        }),
{
    let c = Call { rm, v, out: arbitrary::<OT>() };
    lemma_fifo_step(h0, c);
    let w0 = vals(win(h0));
    let wp = w0.push(val(v));
    lemma_vals_push(win(h0), v);
    lemma_push(w0, val(v));
    lemma_cnt_le_len(w0);
    if rm.is_some() {
        let wpt = win(h0).push(v);
        lemma_vals_tail(wpt);
        lemma_drop_first(wp);
        assert(vals(wpt) =~= wp);
        assert(wp[0] == val(rm.unwrap()));
        assert(vals(win_after(h0, rm, v)) =~= wp.subrange(1, wp.len() as int));
    }
}

// ---- C06: the window of position i never reaches past i, so a prefix of the series has the same windows
pub proof fn lemma_wnd_prefix<T>(x: Seq<T>, c: int, window: usize, i: int)      // #C06 window_of_prefix_is_window
    requires 0 <= i < c <= x.len(), window >= 1,
    ensures wnd(x.take(c), window, i) =~= wnd(x, window, i),
{
}
// ... and never before i-w+1: two series that agree on [i-w+1, i] have the same window at i
pub proof fn lemma_wnd_only_window<T>(x: Seq<T>, y: Seq<T>, window: usize, i: int)   // #C06 window_ignores_pre_window_history
    requires 0 <= i < x.len(), x.len() == y.len(), window >= 1,
        forall|t: int| wstart(window as int, i) <= t <= i ==> x[t] == y[t],
    ensures wnd(x, window, i) =~= wnd(y, window, i),
{
}

// ---- generic value view: any per-element feature g (used for pairwise-complete two-series windows)
pub open spec fn mvals<E>(s: Seq<E>, g: spec_fn(E) -> Option<real>) -> Seq<Option<real>> { Seq::new(s.len(), |i: int| g(s[i])) }

pub proof fn lemma_step_map<E, OT>(h0: Seq<Call<E, OT>>, rm: Option<E>, v: E, g: spec_fn(E) -> Option<real>)
    requires hist_wf(h0), fifo_ok(h0, rm, v),
    ensures
        ({
            let w0 = mvals(win(h0), g);
            let wp = w0.push(g(v));
            let w1 = mvals(win_after(h0, rm, v), g);
            &&& mvals(win(h0).push(v), g) =~= wp
            &&& cnt(wp) == cnt(w0) + cv(g(v))
            &&& (forall|k: int| #![trigger ps(wp, k)] ps(wp, k) == ps(w0, k) + pw(g(v), k))
            &&& 0 <= cnt(w0) <= h0.len()
            &&& rm.is_some() ==> {
                &&& wp.len() > 0 && wp[0] == g(rm.unwrap()) && w1 =~= wp.subrange(1, wp.len() as int)
                &&& cnt(w1) == cnt(wp) - cv(g(rm.unwrap()))
                &&& cnt(wp) >= cv(g(rm.unwrap()))
                &&& (forall|k: int| #![trigger ps(w1, k)] ps(w1, k) == ps(wp, k) - pw(g(rm.unwrap()), k))
            }
            &&& rm.is_none() ==> w1 =~= wp
        }),
{
    let c = Call { rm, v, out: arbitrary::<OT>() };
    lemma_fifo_step(h0, c);
    let w0 = mvals(win(h0), g);
    let wp = w0.push(g(v));
    assert(mvals(win(h0).push(v), g) =~= wp);
    lemma_push(w0, g(v));
    lemma_cnt_le_len(w0);
    if rm.is_some() {
        let wpt = win(h0).push(v);
        assert(mvals(wpt.subrange(1, wpt.len() as int), g) =~= mvals(wpt, g).subrange(1, wpt.len() as int));
        lemma_drop_first(wp);
        assert(mvals(wpt, g) =~= wp);
        assert(wp[0] == g(rm.unwrap()));
        assert(mvals(win_after(h0, rm, v), g) =~= wp.subrange(1, wp.len() as int));
    }
}
