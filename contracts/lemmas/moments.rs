// ============================================================================================
// moments.rs — raw / central moments over a value view and the algebra that relates the code's one-pass forms to the
// textbook forms (same text as in the feat / featp units; used by the agg unit)
// ============================================================================================
// sample variance with the declared floor: a window whose biased variance is <= EPS reports 0 (rounding guard of the code)
pub open spec fn biased_var(w: Seq<Option<real>>) -> real {
    let n = cnt(w) as real;
    ps(w, 2) / n - (ps(w, 1) / n) * (ps(w, 1) / n)
}
// textbook: sum of squared deviations from the mean
pub open spec fn ssd(w: Seq<Option<real>>) -> real {
    ps(w, 2) - ps(w, 1) * ps(w, 1) / (cnt(w) as real)
}

// (S2/n - (S1/n)^2) * n / (n-1) == (S2 - S1^2/n) / (n-1): the code's form equals the textbook sample variance
pub proof fn lemma_var_forms(s1: real, s2: real, n: real)
    requires n >= 2real,
    ensures (s2 / n - (s1 / n) * (s1 / n)) * n / (n - 1real) == (s2 - s1 * s1 / n) / (n - 1real),
{
    let a = s2 / n;
    let b = s1 / n;
    assert(a * n == s2) by(nonlinear_arith) requires a == s2 / n, n >= 2real;
    assert(b * n == s1) by(nonlinear_arith) requires b == s1 / n, n >= 2real;
    assert((a - b * b) * n == s2 - s1 * s1 / n) by(nonlinear_arith) requires a * n == s2, b * n == s1, n >= 2real;
}

// ---- higher moments: raw moments E_k = S_k / n and the textbook central moments expanded in them
pub open spec fn em(w: Seq<Option<real>>, k: int) -> real { ps(w, k) / (cnt(w) as real) }
pub open spec fn cm3(w: Seq<Option<real>>) -> real {
    let m = em(w, 1);
    em(w, 3) - 3real * m * em(w, 2) + 2real * m * m * m              // (1/n) sum (x - m)^3
}
pub open spec fn cm4(w: Seq<Option<real>>) -> real {
    let m = em(w, 1);
    em(w, 4) - 4real * m * em(w, 3) + 6real * m * m * em(w, 2) - 3real * m * m * m * m      // (1/n) sum (x - m)^4
}

// small polynomial steps (each nonlinear query has at most a handful of monomials: nlsat stays stable)
pub proof fn lemma_div_mul(a: real, b: real)
    requires b != 0real,
    ensures (a / b) * b == a,
{
    assert((a / b) * b == a) by(nonlinear_arith) requires b != 0real;
}
pub proof fn lemma_cancel(x: real, y: real, d: real)
    requires d != 0real, x * d == y * d,
    ensures x == y,
{
    assert((x - y) * d == 0real) by(nonlinear_arith) requires x * d == y * d;
    assert(x - y == 0real) by(nonlinear_arith) requires (x - y) * d == 0real, d != 0real;
}
// E3/s^3 - 3(m/s) - (m/s)^3 == m3/s^3   with  s^2 = E2 - m^2
pub proof fn lemma_skew_core(e3: real, m: real, s: real, e2: real)
    requires s > 0real, s * s == e2 - m * m,
    ensures e3 / rpow(s, 3) - 3real * (m / s) - rpow(m / s, 3) == (e3 - 3real * m * e2 + 2real * m * m * m) / (s * s * s),
        rpow(s, 3) > 0real,
{
    reveal_with_fuel(rpow, 4);
    let ss = s * s;
    let s3 = ss * s;
    assert(ss > 0real) by(nonlinear_arith) requires s > 0real, ss == s * s;
    assert(s3 > 0real) by(nonlinear_arith) requires s > 0real, ss > 0real, s3 == ss * s;
    assert(rpow(s, 3) == s3) by(nonlinear_arith) requires rpow(s, 3) == s * (s * (s * 1real)), ss == s * s, s3 == ss * s;
    let q1 = e3 / s3;
    let q2 = m / s;
    lemma_div_mul(e3, s3);
    lemma_div_mul(m, s);
    let q22 = q2 * q2;
    let q23 = q22 * q2;
    assert(rpow(q2, 3) == q23) by(nonlinear_arith) requires rpow(q2, 3) == q2 * (q2 * (q2 * 1real)), q22 == q2 * q2, q23 == q22 * q2;
    // q2 * s3 == m * ss ; q23 * s3 == m^3 ; m * ss == m*e2 - m^3
    assert(q2 * s3 == m * ss) by(nonlinear_arith) requires q2 * s == m, s3 == ss * s;
    let mm = m * m;
    assert(q22 * ss == mm) by(nonlinear_arith) requires q2 * s == m, q22 == q2 * q2, ss == s * s, mm == m * m;
    assert(q23 * s3 == mm * m) by(nonlinear_arith) requires q22 * ss == mm, q2 * s == m, q23 == q22 * q2, s3 == ss * s;
    assert(m * ss == m * e2 - mm * m) by(nonlinear_arith) requires ss == e2 - mm;
    let lhs = q1 - 3real * q2 - q23;
    let num = e3 - 3real * m * e2 + 2real * m * m * m;
    assert(mm * m == m * m * m);
    assert(lhs * s3 == q1 * s3 - 3real * (q2 * s3) - q23 * s3) by(nonlinear_arith) requires lhs == q1 - 3real * q2 - q23;
    let a1 = q1 * s3; let a2 = q2 * s3; let a3 = q23 * s3; let c1 = m * ss; let c2 = mm * m; let c3 = m * e2;
    assert(num == e3 - 3real * c3 + 2real * c2) by(nonlinear_arith) requires num == e3 - 3real * m * e2 + 2real * m * m * m, c3 == m * e2, c2 == mm * m, mm == m * m;
    assert(lhs * s3 == num);
    let rhs = num / s3;
    lemma_div_mul(num, s3);
    lemma_cancel(lhs, rhs, s3);
    assert(s * s * s == s3);
}
// (E4 - 4 m E3)/v^2 + 6 m^2/v + 3 (m^2/v)^2 == m4 / v^2   with  v = E2 - m^2
pub proof fn lemma_kurt_core(e4: real, e3: real, m: real, v: real, e2: real)
    requires v > 0real, v == e2 - m * m,
    ensures (e4 - 4real * m * e3) / (v * v) + 6real * (m * m / v) + 3real * rpow(m * m / v, 2)
        == (e4 - 4real * m * e3 + 6real * m * m * e2 - 3real * m * m * m * m) / (v * v),
        v * v > 0real,
{
    reveal_with_fuel(rpow, 3);
    let v2 = v * v;
    assert(v2 > 0real) by(nonlinear_arith) requires v > 0real, v2 == v * v;
    let mm = m * m;
    let t = e4 - 4real * m * e3;
    let a = t / v2;
    let b = mm / v;
    lemma_div_mul(t, v2);
    lemma_div_mul(mm, v);
    let bb = b * b;
    assert(rpow(b, 2) == bb) by(nonlinear_arith) requires rpow(b, 2) == b * (b * 1real), bb == b * b;
    assert(b * v2 == mm * v) by(nonlinear_arith) requires b * v == mm, v2 == v * v;
    assert(bb * v2 == mm * mm) by(nonlinear_arith) requires b * v == mm, bb == b * b, v2 == v * v;
    assert(mm * v == mm * e2 - mm * mm) by(nonlinear_arith) requires v == e2 - mm;
    let lhs = a + 6real * b + 3real * bb;
    assert(lhs * v2 == a * v2 + 6real * (b * v2) + 3real * (bb * v2)) by(nonlinear_arith) requires lhs == a + 6real * b + 3real * bb;
    let num = e4 - 4real * m * e3 + 6real * m * m * e2 - 3real * m * m * m * m;
    assert(6real * m * m * e2 == 6real * (mm * e2)) by(nonlinear_arith) requires mm == m * m;
    assert(3real * m * m * m * m == 3real * (mm * mm)) by(nonlinear_arith) requires mm == m * m;
    let c1 = mm * e2; let c2 = mm * mm;
    assert(num == t + 6real * c1 - 3real * c2);
    assert(lhs * v2 == num);
    let rhs = num / v2;
    lemma_div_mul(num, v2);
    lemma_cancel(lhs, rhs, v2);
}


pub proof fn lemma_scaled_pos(a: real, n: real)
    requires a > 0real, n >= 2real,
    ensures a * n / (n - 1real) > 0real,
{
    assert(a * n > 0real) by(nonlinear_arith) requires a > 0real, n >= 2real;
    let b = a * n;
    assert(b / (n - 1real) > 0real) by(nonlinear_arith) requires b > 0real, n >= 2real;
}

