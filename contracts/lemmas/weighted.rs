// ============================================================================================
// lemmas/weighted.rs — linearly and exponentially weighted window sums over the value view:
// push / drop-first laws of the shifted-subtraction updates of ts_(v)wma and ts_(v)ewm.  All proved.
// ============================================================================================
//@props C01

// sum of rank * value over the non-null elements, ranks 1..n oldest -> newest
pub open spec fn wsum(s: Seq<Option<real>>) -> real
    decreases s.len()
{
    if s.len() == 0 { 0real } else {
        wsum(s.drop_last()) + (match s.last() { Some(x) => (cnt(s) as real) * x, None => 0real })
    }
}

pub proof fn lemma_wsum_push(s: Seq<Option<real>>, v: Option<real>)
    ensures wsum(s.push(v)) == wsum(s) + (match v { Some(x) => ((cnt(s) + 1) as real) * x, None => 0real }),
{
    assert(s.push(v).drop_last() =~= s);
    lemma_push(s, v);
}

pub proof fn lemma_wsum_drop_first(s: Seq<Option<real>>)
    requires s.len() > 0,
    ensures wsum(s.subrange(1, s.len() as int)) == wsum(s) - (if s[0].is_some() { ps(s, 1) } else { 0real }),
    decreases s.len()
{
    let t = s.subrange(1, s.len() as int);
    lemma_drop_first(s);
    if s.len() == 1 {
        assert(t.len() == 0);
        assert(s.drop_last().len() == 0);
        assert(s.last() == s[0]);
        assert(wsum(s.drop_last()) == 0real);
        assert(ps(s, 1) == ps(s.drop_last(), 1) + pw(s.last(), 1));
        assert(ps(s.drop_last(), 1) == 0real);
        assert(cnt(s) == cnt(s.drop_last()) + cv(s.last()));
        assert(cnt(s.drop_last()) == 0);
        match s[0] {
            Some(x0) => { let c = cnt(s) as real; assert(c * x0 == x0) by(nonlinear_arith) requires c == 1real; assert(pw(s.last(), 1) == x0); },
            None => {},
        }
    } else {
        let sd = s.drop_last();
        let td = sd.subrange(1, sd.len() as int);
        lemma_wsum_drop_first(sd);
        lemma_drop_first(sd);
        assert(t.drop_last() =~= td);
        assert(t.last() == s.last());
        assert(sd[0] == s[0]);
        assert(ps(s, 1) == ps(sd, 1) + pw(s.last(), 1));
        assert(cnt(s) == cnt(sd) + cv(s.last()));
        assert(cnt(t) == cnt(s) - cv(s[0]));
        assert(wsum(s) == wsum(sd) + (match s.last() { Some(x) => (cnt(s) as real) * x, None => 0real }));
        assert(wsum(t) == wsum(td) + (match t.last() { Some(x) => (cnt(t) as real) * x, None => 0real }));
        assert(wsum(td) == wsum(sd) - (if sd[0].is_some() { ps(sd, 1) } else { 0real }));
        match s.last() {
            Some(x) => {
                let c = cnt(s) as real;
                assert(pw(s.last(), 1) == x);
                if s[0].is_some() {
                    assert(cnt(t) == cnt(s) - 1);
                    assert(((cnt(s) - 1) as real) * x == c * x - x) by(nonlinear_arith) requires c == cnt(s) as real;
                } else {
                    assert(cnt(t) == cnt(s));
                }
            },
            None => { assert(pw(s.last(), 1) == 0real); },
        }
    }
}

// sum of value * q^(age) over the non-null elements, age 0 for the newest
pub open spec fn esum(s: Seq<Option<real>>, q: real) -> real
    decreases s.len()
{
    if s.len() == 0 { 0real } else {
        match s.last() { Some(x) => x + q * esum(s.drop_last(), q), None => esum(s.drop_last(), q) }
    }
}

pub proof fn lemma_esum_push(s: Seq<Option<real>>, v: Option<real>, q: real)
    ensures esum(s.push(v), q) == (match v { Some(x) => x + q * esum(s, q), None => esum(s, q) }),
{
    assert(s.push(v).drop_last() =~= s);
}

pub proof fn lemma_rpow_succ(q: real, k: int)
    requires k >= 0,
    ensures rpow(q, k + 1) == q * rpow(q, k),
{
    reveal_with_fuel(rpow, 2);
}

pub proof fn lemma_esum_drop_first(s: Seq<Option<real>>, q: real)
    requires s.len() > 0,
    ensures esum(s.subrange(1, s.len() as int), q) == esum(s, q) - (match s[0] { Some(x0) => x0 * rpow(q, cnt(s) - 1), None => 0real }),
    decreases s.len()
{
    let t = s.subrange(1, s.len() as int);
    lemma_drop_first(s);
    lemma_cnt_le_len(s);
    if s.len() == 1 {
        assert(t.len() == 0);
        assert(s.drop_last().len() == 0);
        assert(s.last() == s[0]);
        assert(esum(s.drop_last(), q) == 0real);
        assert(cnt(s) == cnt(s.drop_last()) + cv(s.last()));
        assert(cnt(s.drop_last()) == 0);
        reveal_with_fuel(rpow, 2);
        match s[0] { Some(x0) => { assert(x0 * rpow(q, 0) == x0) by(nonlinear_arith) requires rpow(q, 0) == 1real; assert(q * 0real == 0real); }, None => {} }
    } else {
        let sd = s.drop_last();
        let td = sd.subrange(1, sd.len() as int);
        lemma_esum_drop_first(sd, q);
        lemma_drop_first(sd);
        lemma_cnt_le_len(sd);
        assert(t.drop_last() =~= td);
        assert(t.last() == s.last());
        assert(sd[0] == s[0]);
        assert(cnt(s) == cnt(sd) + cv(s.last()));
        match s.last() {
            Some(xl) => {
                match s[0] {
                    Some(x0) => {
                        // esum(t) = xl + q*(esum(sd) - x0 q^(cnt(sd)-1)) = esum(s) - x0 q^(cnt(sd))
                        assert(cnt(sd) >= 1);
                        lemma_rpow_succ(q, cnt(sd) - 1);
                        let e = esum(sd, q);
                        let p = rpow(q, cnt(sd) - 1);
                        assert(xl + q * (e - x0 * p) == (xl + q * e) - x0 * (q * p)) by(nonlinear_arith);
                    },
                    None => {},
                }
            },
            None => {},
        }
    }
}

// geometric sum: the textbook normaliser of the exponentially weighted mean
pub open spec fn gsum(q: real, n: int) -> real
    decreases n
{
    if n <= 0 { 0real } else { rpow(q, n - 1) + gsum(q, n - 1) }
}
pub proof fn lemma_gsum_closed(q: real, n: int)
    requires n >= 0,
    ensures gsum(q, n) * (1real - q) == 1real - rpow(q, n),
    decreases n
{
    reveal_with_fuel(rpow, 2);
    if n > 0 {
        lemma_gsum_closed(q, n - 1);
        lemma_rpow_succ(q, n - 1);
        let g = gsum(q, n - 1);
        let p = rpow(q, n - 1);
        assert((p + g) * (1real - q) == p - q * p + g * (1real - q)) by(nonlinear_arith);
    }
}
