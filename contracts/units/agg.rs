use vstd::prelude::*;
use vstd::std_specs::ops::*;
use vstd::std_specs::cmp::*;
use core::cmp::Ordering;
verus! {
//@include prelude.rs
//@include assume_real.rs
//@include assume_std.rs
//@include dtype.rs
//@include iter.rs
//@include lemmas/window.rs
//@include aggmodel.rs
//@include lemmas/moments.rs

pub type T = Option<f64>;

//@const crate=tea-core name=EPS
pub axiom fn ax_lits()
    ensures rv(0.0f64) == 0real, !nan(0.0f64), rv(3f64) == 3real, !nan(3f64), rv(1e-14f64) * 100000000000000real == 1real, !nan(1e-14f64), rv(EPS) == rv(1e-14f64), !nan(EPS);

// sums over a sequence of inner values
pub open spec fn ivals(s: Seq<f64>) -> Seq<Option<real>> { Seq::new(s.len(), |i: int| Some(rv(s[i]))) }
pub proof fn lemma_inner_vals(s: Seq<T>)
    requires canon_seq(s),
    ensures
        cnt(ivals(inner_seq(vseq(s)))) == cnt(vals(s)), inner_seq(vseq(s)).len() == cnt(vals(s)),
        forall|k: int| #![trigger ps(ivals(inner_seq(vseq(s))), k)] ps(ivals(inner_seq(vseq(s))), k) == ps(vals(s), k),
        forall|i: int| 0 <= i < inner_seq(vseq(s)).len() ==> !nan(#[trigger] inner_seq(vseq(s))[i]),
    decreases s.len()
{
    if s.len() > 0 {
        let sd = s.drop_last();
        assert(canon_seq(sd)) by { assert forall|i: int| 0 <= i < sd.len() implies canon(#[trigger] sd[i]) by { assert(sd[i] == s[i]); } }
        lemma_inner_vals(sd);
        assert(vals(s).drop_last() =~= vals(sd));
        assert(vals(s).last() == val(s.last()));
        if s.last().opt().is_some() {
            let a = inner_seq(vseq(sd));
            let b = inner_seq(vseq(s));
            assert(b =~= a.push(s.last().opt().unwrap()));
            assert(ivals(b) =~= ivals(a).push(Some(rv(s.last().opt().unwrap()))));
            lemma_push(ivals(a), Some(rv(s.last().opt().unwrap())));
            lemma_push(vals(sd), val(s.last()));
            assert(vals(s) =~= vals(sd).push(val(s.last())));
            assert(canon(s[s.len() - 1]));
        } else {
            assert(inner_seq(vseq(s)) =~= inner_seq(vseq(sd)));
            lemma_push(vals(sd), val(s.last()));
            assert(vals(s) =~= vals(sd).push(val(s.last())));
        }
    } else {
        assert(inner_seq(vseq(s)).len() == 0);
        assert(ivals(inner_seq(vseq(s))).len() == 0);
        assert(vals(s).len() == 0);
    }
}

//@fn name=count_valid crate=tea-core ctx="pub trait AggValidBasic" props=C11,C08
//@sig fn count_valid(this: It<T>) -> (n: usize)
//@closure 1 mode=annotate params="__u: (), _x: f64" ret="(o: ())"
//@spec
    requires this.forever().is_none(), this.seq().len() <= usize::MAX,
    ensures n as int == cnt(vals(this.seq())),            // #C11,C08 counts_the_valid_elements
//@at body first
    proof { lemma_vseq_len(this.seq()); }
//@end

// a fold whose step adds the element: the result is init + the sum
pub open spec fn p_add(a: f64, x: f64, o: f64) -> bool { rv(o) == rv(a) + rv(x) && nan(o) == (nan(a) || nan(x)) }
pub proof fn lemma_chain_sum(acc: Seq<f64>, s: Seq<f64>, p: spec_fn(f64, f64, f64) -> bool, k: int)
    requires
        acc.len() == s.len() + 1, 0 <= k <= s.len(),
        forall|i: int| 0 <= i < s.len() ==> p(#[trigger] acc[i], s[i], acc[i + 1]),
        forall|a: f64, x: f64, o: f64| #[trigger] p(a, x, o) ==> p_add(a, x, o),
        forall|i: int| 0 <= i < s.len() ==> !nan(#[trigger] s[i]),
    ensures rv(acc[k]) == rv(acc[0]) + ps(ivals(s.take(k)), 1), nan(acc[k]) == nan(acc[0]),
    decreases k
{
    if k > 0 {
        lemma_chain_sum(acc, s, p, k - 1);
        assert(p(acc[k - 1], s[k - 1], acc[k]));
        assert(s.take(k).drop_last() =~= s.take(k - 1));
        assert(ivals(s.take(k)).drop_last() =~= ivals(s.take(k - 1)));
        assert(ivals(s.take(k)).last() == Some(rv(s[k - 1])));
        assert(ps(ivals(s.take(k)), 1) == ps(ivals(s.take(k)).drop_last(), 1) + pw(ivals(s.take(k)).last(), 1));
    } else {
        assert(ivals(s.take(0)).len() == 0);
    }
}
pub proof fn lemma_fold_sum(s: Seq<f64>, init: f64, r: f64, p: spec_fn(f64, f64, f64) -> bool)
    requires
        fold_relp(s, init, r, p),
        forall|a: f64, x: f64, o: f64| #[trigger] p(a, x, o) ==> p_add(a, x, o),
        forall|i: int| 0 <= i < s.len() ==> !nan(#[trigger] s[i]),
    ensures rv(r) == rv(init) + ps(ivals(s), 1), nan(r) == nan(init),
{
    let acc = choose|acc: Seq<f64>| #[trigger] fold_chain(acc, s, init, r, p);
    lemma_chain_sum(acc, s, p, s.len() as int);
    assert(s.take(s.len() as int) =~= s);
}

//@fn name=vsum crate=tea-core ctx="pub trait AggValidBasic" props=C11,C08
//@types T::Inner=f64
//@sig fn vsum(this: It<T>) -> (r: Option<f64>)
//@closure 1 mode=annotate params="acc: f64, x: f64" ret="(o: f64)"
//@closure 1 spec
            ensures rv(o) == rv(acc) + rv(x), nan(o) == (nan(acc) || nan(x))
//@at closure 1 first
            broadcast use a_real;
//@spec
    requires this.forever().is_none(), this.seq().len() <= usize::MAX, canon_seq(this.seq()),
    ensures
        cnt(vals(this.seq())) == 0 ==> r.is_none(),                                                  // #C11 null_without_valid_elements
        cnt(vals(this.seq())) >= 1 ==> r.is_some() && !nan(r.unwrap()) && rv(r.unwrap()) == ps(vals(this.seq()), 1),   // #C11,C08 sum_of_the_valid_elements
//@at body first
    let ghost s0 = this.seq();
    proof { lemma_vseq_len(s0); lemma_inner_vals(s0); }
//@at body last
    proof {
        // the fold over the valid inner values, started at zero
        let iv = inner_seq(vseq(s0));
        let pl = |a: f64, x: f64, o: f64| p_add(a, x, o);
        assert(fold_relp(iv, f64::zero_spec(), sum, pl));
        lemma_fold_sum(iv, f64::zero_spec(), sum, pl);
    }
//@end

//@fn name=vmean crate=tea-core ctx="pub trait AggValidBasic" props=C11,C08
//@types T::Inner=f64
//@sig fn vmean(this: It<T>) -> (r: f64)
//@closure 1 mode=annotate params="acc: f64, x: f64" ret="(o: f64)"
//@closure 1 spec
            ensures rv(o) == rv(acc) + rv(x), nan(o) == (nan(acc) || nan(x))
//@at closure 1 first
            broadcast use a_real;
//@spec
    requires this.forever().is_none(), this.seq().len() <= usize::MAX, canon_seq(this.seq()),
    ensures
        cnt(vals(this.seq())) == 0 ==> nan(r),                                                       // #C11 null_without_valid_elements
        cnt(vals(this.seq())) >= 1 ==> !nan(r) && rv(r) == ps(vals(this.seq()), 1) / (cnt(vals(this.seq())) as real),   // #C11,C08 mean_of_the_valid_elements
//@at body first
    let ghost s0 = this.seq();
    broadcast use a_real;
    proof { lemma_vseq_len(s0); lemma_inner_vals(s0); }
//@at body last
    proof {
        let iv = inner_seq(vseq(s0));
        let pl = |a: f64, x: f64, o: f64| p_add(a, x, o);
        assert(fold_relp(iv, f64::zero_spec(), sum, pl));
        lemma_fold_sum(iv, f64::zero_spec(), sum, pl);
    }
//@end

// ---- second moment: the code's E(x^2) - E(x)^2 form against the textbook sample variance (lemmas/moments.rs)
// what vmean_var / vvar promise for a series with value view w
pub open spec fn mean_ok(w: Seq<Option<real>>, mp: int, m: f64) -> bool {
    &&& cnt(w) < mp ==> nan(m)
    &&& (cnt(w) >= mp && cnt(w) >= 1) ==> !nan(m) && rv(m) == ps(w, 1) / (cnt(w) as real)
}
pub open spec fn var_ok(w: Seq<Option<real>>, mp: int, v: f64) -> bool {
    &&& cnt(w) < mp ==> nan(v)
    &&& (cnt(w) >= mp && cnt(w) < 2) ==> nan(v)
    &&& (cnt(w) >= mp && cnt(w) >= 2) ==> !nan(v) && (if biased_var(w) > rv(EPS) { rv(v) == ssd(w) / ((cnt(w) - 1) as real) } else { rv(v) == 0real })
}
pub open spec fn pows_ok(h: Seq<f64>, m1: f64, m2: f64, m3: f64, k: int) -> bool {
    &&& forall|i: int| 0 <= i < h.len() ==> !nan(#[trigger] h[i])
    &&& k >= 1 ==> !nan(m1) && rv(m1) == ps(ivals(h), 1)
    &&& k >= 2 ==> !nan(m2) && rv(m2) == ps(ivals(h), 2)
    &&& k >= 3 ==> !nan(m3) && rv(m3) == ps(ivals(h), 3)
}
// A-LEN: n(n-1) fits usize and is positive for n >= 2
pub proof fn lemma_small_counts(k: int)
    requires 0 <= k <= 0x7fff_ffff,
    ensures k * (k - 1) <= 0x3fff_ffff_0000_0001, k >= 2 ==> k * (k - 1) >= 2,
{
    assert(k * (k - 1) <= 0x3fff_ffff_0000_0001) by(nonlinear_arith) requires 0 <= k <= 0x7fff_ffff;
    if k >= 2 { assert(k * (k - 1) >= 2) by(nonlinear_arith) requires k >= 2; }
}
// IsNone::not_none on f64 (R12: `res.not_none()` on an f64 local)
pub fn f64_not_none(x: f64) -> (r: bool) ensures r == !nan(x) { !x.is_nan() }
pub proof fn lemma_rsqrt0()
    ensures rsqrt(0real) == 0real,
{
    ax_rsqrt(0real);
    let r = rsqrt(0real);
    assert(r == 0real) by(nonlinear_arith) requires r * r == 0real;
}
pub proof fn lemma_ivals_push(h: Seq<f64>, v: f64)
    ensures ivals(h.push(v)) =~= ivals(h).push(Some(rv(v))),
{}

//@fn name=vmean_var crate=tea-core ctx="pub trait AggValidBasic" props=C11,C08
//@types T::Inner=f64
//@sig fn vmean_var(this: It<T>, min_periods: usize) -> (r: (f64, f64))
//@replace .vapply_n( => .vapply_n_mut(
//@closure 1 name=CloMV trait="ApplyFn<f64>" params="v: f64" ret="()" push="v" caps="mut m1: f64, mut m2: f64" callty="f64" writeback=1
//@closure 1 extra
    open spec fn hist(&self) -> Seq<f64> { self.h@ }
    open spec fn arg_ok(v: f64) -> bool { !nan(v) }
//@closure 1 inv
        &&& pows_ok(self.h@, self.m1, self.m2, self.m2, 2)                 // #C11 power_sums_describe_the_elements_seen
//@at closure 1 first
        broadcast use a_real;
        proof {
            lemma_ivals_push(self.h@, v);
            lemma_push(ivals(self.h@), Some(rv(v)));
            reveal_with_fuel(rpow, 3);
        }
//@spec
    requires this.forever().is_none(), this.seq().len() <= 0x7fff_ffff, canon_seq(this.seq()),
    ensures
        mean_ok(vals(this.seq()), min_periods as int, r.0),               // #C11,C08 mean_of_the_valid_elements
        var_ok(vals(this.seq()), min_periods as int, r.1),                // #C11,C08 variance_null_below_two_observations sample_variance_of_the_valid_elements
//@at body first
    let ghost s0 = this.seq();
    broadcast use a_real, a_real_cmp;
    proof { lemma_vseq_len(s0); lemma_inner_vals(s0); ax_lits(); reveal_with_fuel(rpow, 3); }
//@at closure 1 decl
    proof { assert(ivals(Seq::<f64>::empty()).len() == 0); }
//@at closure 1 after
    proof {
        assert(Seq::<f64>::empty() + inner_seq(vseq(s0)) =~= inner_seq(vseq(s0)));
        if n >= 2 { lemma_var_forms(ps(vals(s0), 1), ps(vals(s0), 2), n as real); }
    }
//@end

//@fn name=vvar crate=tea-core ctx="pub trait AggValidBasic" props=C11,C08
//@types T::Inner=f64
//@sig fn vvar(this: It<T>, min_periods: usize) -> (r: f64)
//@replace this.vmean_var( => vmean_var(this,
//@spec
    requires this.forever().is_none(), this.seq().len() <= 0x7fff_ffff, canon_seq(this.seq()),
    ensures var_ok(vals(this.seq()), min_periods as int, r),              // #C11,C08 sample_variance_of_the_valid_elements
//@end

//@fn name=vstd crate=tea-core ctx="pub trait AggValidBasic" props=C11,C08
//@types T::Inner=f64
//@sig fn vstd(this: It<T>, min_periods: usize) -> (r: f64)
//@replace this.vvar( => vvar(this,
//@spec
    requires this.forever().is_none(), this.seq().len() <= 0x7fff_ffff, canon_seq(this.seq()),
    ensures
        cnt(vals(this.seq())) < min_periods || cnt(vals(this.seq())) < 2 ==> nan(r),                 // #C11 variance_null_below_two_observations
        (cnt(vals(this.seq())) >= min_periods && cnt(vals(this.seq())) >= 2) ==> !nan(r) && (          // #C11,C08 standard_deviation_is_root_of_sample_variance
            if biased_var(vals(this.seq())) > rv(EPS) { rv(r) == rsqrt(ssd(vals(this.seq())) / ((cnt(vals(this.seq())) - 1) as real)) } else { rv(r) == 0real }),
//@at body first
    proof {
        let w = vals(this.seq());
        let n = cnt(w);
        ax_lits(); lemma_rsqrt0();
        if n >= 2 {
            lemma_var_forms(ps(w, 1), ps(w, 2), n as real);
            if biased_var(w) > 0real { lemma_scaled_pos(biased_var(w), n as real); }
        }
    }
//@end

// ---- extrema
// `mx` selects the direction: true = maximum, false = minimum
pub open spec fn better(b: f64, a: f64, mx: bool) -> bool { !nan(a) && !nan(b) && (if mx { rv(b) > rv(a) } else { rv(b) < rv(a) }) }
pub open spec fn fsel(a: f64, b: f64, mx: bool) -> f64 { if better(b, a, mx) { b } else { a } }

//@fn name=max_with crate=tea-dtype ctx="pub trait Number" props=C11
//@types Self=f64
//@sig fn max_with(this: f64, other: f64) -> (r: f64)
//@spec
    ensures r == fsel(this, other, true),                    // #C11 larger_of_the_two
//@at body first
    broadcast use a_real_cmp;
//@end

//@fn name=min_with crate=tea-dtype ctx="pub trait Number" props=C11
//@types Self=f64
//@sig fn min_with(this: f64, other: f64) -> (r: f64)
//@spec
    ensures r == fsel(this, other, false),                   // #C11 smaller_of_the_two
//@at body first
    broadcast use a_real_cmp;
//@end

// m is the extreme value of xs: a member, and no member is better
pub open spec fn is_ext(m: f64, xs: Seq<f64>, mx: bool) -> bool {
    &&& exists|j: int| 0 <= j < xs.len() && #[trigger] xs[j] == m
    &&& forall|i: int| 0 <= i < xs.len() ==> !better(#[trigger] xs[i], m, mx)
}
pub open spec fn p_ext(acc: Option<f64>, x: T, o: Option<f64>, mx: bool) -> bool {
    o == Some(match acc { None => x.opt().unwrap(), Some(v) => fsel(v, x.opt().unwrap(), mx) })
}
pub proof fn lemma_chain_ext(acc: Seq<Option<f64>>, s: Seq<T>, p: spec_fn(Option<f64>, T, Option<f64>) -> bool, mx: bool, k: int)
    requires
        acc.len() == s.len() + 1, 0 <= k <= s.len(), acc[0].is_none(),
        forall|i: int| 0 <= i < s.len() ==> p(#[trigger] acc[i], s[i], acc[i + 1]),
        forall|a: Option<f64>, x: T, o: Option<f64>| #[trigger] p(a, x, o) ==> p_ext(a, x, o, mx),
        forall|i: int| 0 <= i < s.len() ==> (#[trigger] s[i]).opt().is_some() && !nan(s[i].opt().unwrap()),
    ensures
        k == 0 ==> acc[k].is_none(),
        k >= 1 ==> acc[k].is_some() && is_ext(acc[k].unwrap(), inner_seq(s.take(k)), mx),
    decreases k
{
    if k > 0 {
        lemma_chain_ext(acc, s, p, mx, k - 1);
        assert(p(acc[k - 1], s[k - 1], acc[k]));
        let xs0 = inner_seq(s.take(k - 1));
        let xs = inner_seq(s.take(k));
        let x = s[k - 1].opt().unwrap();
        assert(xs =~= xs0.push(x));
        let m = acc[k].unwrap();
        if k == 1 {
            assert(xs[0] == m);
        } else {
            let m0 = acc[k - 1].unwrap();
            let j0 = choose|j: int| 0 <= j < xs0.len() && #[trigger] xs0[j] == m0;
            assert(!nan(m0)) by { assert(xs0[j0] == s[j0].opt().unwrap()); }
            if better(x, m0, mx) { assert(xs[k - 1] == m); } else { assert(xs[j0] == m); }
            assert forall|i: int| 0 <= i < xs.len() implies !better(#[trigger] xs[i], m, mx) by {
                if i < k - 1 { assert(xs[i] == xs0[i]); assert(!better(xs0[i], m0, mx)); }
            }
        }
    }
}
// members of vseq(s) are the valid members of s (same multiset; what the extrema need is membership both ways)
pub proof fn lemma_vseq_members<A: IsNone>(s: Seq<A>)
    ensures
        forall|i: int| 0 <= i < s.len() && (#[trigger] s[i]).opt().is_some() ==> vseq(s).contains(s[i]),
        forall|j: int| 0 <= j < vseq(s).len() ==> s.contains(#[trigger] vseq(s)[j]) && vseq(s)[j].opt().is_some(),
    decreases s.len()
{
    if s.len() > 0 {
        let sd = s.drop_last();
        lemma_vseq_members(sd);
        let v = vseq(s);
        let vd = vseq(sd);
        assert forall|i: int| 0 <= i < s.len() && (#[trigger] s[i]).opt().is_some() implies v.contains(s[i]) by {
            if i < s.len() - 1 {
                assert(sd[i] == s[i]);
                assert(vd.contains(sd[i]));
                let j = choose|j: int| 0 <= j < vd.len() && vd[j] == sd[i];
                assert(v[j] == vd[j]);
            } else {
                assert(v[v.len() - 1] == s[i]);
            }
        }
        assert forall|j: int| 0 <= j < v.len() implies s.contains(#[trigger] v[j]) && v[j].opt().is_some() by {
            if j < vd.len() {
                assert(v[j] == vd[j]);
                assert(sd.contains(vd[j]));
                let i = choose|i: int| 0 <= i < sd.len() && sd[i] == vd[j];
                assert(s[i] == sd[i]);
            } else {
                assert(s[s.len() - 1] == v[j]);
            }
        }
    }
}
// the extreme VALUE of the valid elements of s: what vmax / vmin return
pub open spec fn ext_ok(s: Seq<T>, r: Option<f64>, mx: bool) -> bool {
    &&& cnt(vals(s)) == 0 ==> r.is_none()
    &&& cnt(vals(s)) >= 1 ==> r.is_some() && !nan(r.unwrap())
        && (exists|i: int| 0 <= i < s.len() && #[trigger] s[i].opt() == Some(r.unwrap()))
        && (forall|i: int| 0 <= i < s.len() && (#[trigger] s[i]).opt().is_some() ==> !better(s[i].opt().unwrap(), r.unwrap(), mx))
}
pub proof fn lemma_fold_ext(s: Seq<T>, r: Option<f64>, p: spec_fn(Option<f64>, T, Option<f64>) -> bool, mx: bool)
    requires
        canon_seq(s), fold_relp(vseq(s), None::<f64>, r, p),
        forall|a: Option<f64>, x: T, o: Option<f64>| #[trigger] p(a, x, o) ==> p_ext(a, x, o, mx),
    ensures ext_ok(s, r, mx),
{
    let v = vseq(s);
    lemma_vseq_len(s);
    lemma_vseq_members(s);
    assert forall|i: int| 0 <= i < v.len() implies (#[trigger] v[i]).opt().is_some() && !nan(v[i].opt().unwrap()) by {
        assert(s.contains(v[i]));
        let i0 = choose|i0: int| 0 <= i0 < s.len() && s[i0] == v[i];
        assert(canon(s[i0]));
    }
    let acc = choose|acc: Seq<Option<f64>>| #[trigger] fold_chain(acc, v, None::<f64>, r, p);
    lemma_chain_ext(acc, v, p, mx, v.len() as int);
    assert(v.take(v.len() as int) =~= v);
    if v.len() >= 1 {
        let m = r.unwrap();
        let xs = inner_seq(v);
        let j = choose|j: int| 0 <= j < xs.len() && #[trigger] xs[j] == m;
        assert(s.contains(v[j]));
        let i0 = choose|i0: int| 0 <= i0 < s.len() && s[i0] == v[j];
        assert(s[i0].opt() == Some(m));
        assert(!nan(m)) by { assert(xs[j] == v[j].opt().unwrap()); }
        assert forall|i: int| 0 <= i < s.len() && (#[trigger] s[i]).opt().is_some() implies !better(s[i].opt().unwrap(), m, mx) by {
            assert(v.contains(s[i]));
            let j2 = choose|j2: int| 0 <= j2 < v.len() && v[j2] == s[i];
            assert(xs[j2] == s[i].opt().unwrap());
        }
    }
}

//@fn name=vmax crate=tea-core ctx="pub trait AggValidBasic" props=C11,C08
//@types T::Inner=f64
//@sig fn vmax(this: It<T>) -> (r: Option<f64>)
//@replace v.max_with( => max_with(v,
//@closure 1 mode=annotate params="acc: Option<f64>, x: T" ret="(o: Option<f64>)"
//@closure 1 spec
            requires x.opt().is_some()
            ensures p_ext(acc, x, o, true)
//@spec
    requires this.forever().is_none(), canon_seq(this.seq()),
    ensures ext_ok(this.seq(), r, true),                     // #C11,C08 maximum_of_the_valid_elements
//@at body last
    proof {
        let pl = |a: Option<f64>, x: T, o: Option<f64>| p_ext(a, x, o, true);
        assert(fold_relp(vseq(this.seq()), None::<f64>, __ret, pl));
        lemma_fold_ext(this.seq(), __ret, pl, true);
    }
//@end

//@fn name=vmin crate=tea-core ctx="pub trait AggValidBasic" props=C11,C08
//@types T::Inner=f64
//@sig fn vmin(this: It<T>) -> (r: Option<f64>)
//@replace v.min_with( => min_with(v,
//@closure 1 mode=annotate params="acc: Option<f64>, x: T" ret="(o: Option<f64>)"
//@closure 1 spec
            requires x.opt().is_some()
            ensures p_ext(acc, x, o, false)
//@spec
    requires this.forever().is_none(), canon_seq(this.seq()),
    ensures ext_ok(this.seq(), r, false),                    // #C11,C08 minimum_of_the_valid_elements
//@at body last
    proof {
        let pl = |a: Option<f64>, x: T, o: Option<f64>| p_ext(a, x, o, false);
        assert(fold_relp(vseq(this.seq()), None::<f64>, __ret, pl));
        lemma_fold_ext(this.seq(), __ret, pl, false);
    }
//@end

// ---- index of the FIRST extreme element
pub open spec fn argext_ok(h: Seq<T>, idx: Option<usize>, mx: bool) -> bool {
    &&& cnt(vals(h)) == 0 ==> idx.is_none()
    &&& cnt(vals(h)) >= 1 ==> idx.is_some() && 0 <= idx.unwrap() < h.len() && h[idx.unwrap() as int].opt().is_some()
        && (forall|j: int| 0 <= j < h.len() && (#[trigger] h[j]).opt().is_some() ==> !better(h[j].opt().unwrap(), h[idx.unwrap() as int].opt().unwrap(), mx))
        && (forall|j: int| 0 <= j < idx.unwrap() && (#[trigger] h[j]).opt().is_some() ==> better(h[idx.unwrap() as int].opt().unwrap(), h[j].opt().unwrap(), mx))
}
pub open spec fn argstate_ok(h: Seq<T>, cur: Option<f64>, idx: Option<usize>, n: usize, mx: bool) -> bool {
    &&& n == h.len() && canon_seq(h)
    &&& argext_ok(h, idx, mx)
    &&& cur.is_some() == idx.is_some()
    &&& idx.is_some() ==> h[idx.unwrap() as int].opt() == cur
}
pub proof fn lemma_cnt_push(h: Seq<T>, v: T)
    ensures vals(h.push(v)) =~= vals(h).push(val(v)), cnt(vals(h.push(v))) == cnt(vals(h)) + (if v.opt().is_some() { 1int } else { 0int }),
{
    assert(vals(h.push(v)) =~= vals(h).push(val(v)));
    lemma_push(vals(h), val(v));
}
pub proof fn lemma_cnt_zero_all_none(h: Seq<T>)
    requires cnt(vals(h)) == 0,
    ensures forall|j: int| 0 <= j < h.len() ==> (#[trigger] h[j]).opt().is_none(),
    decreases h.len()
{
    if h.len() > 0 {
        assert(vals(h).drop_last() =~= vals(h.drop_last()));
        assert(vals(h).last() == val(h.last()));
        lemma_cnt_le_len(vals(h.drop_last()));
        assert(cnt(vals(h)) == cnt(vals(h).drop_last()) + cv(vals(h).last()));
        lemma_cnt_zero_all_none(h.drop_last());
        assert forall|j: int| 0 <= j < h.len() implies (#[trigger] h[j]).opt().is_none() by {
            if j < h.len() - 1 { assert(h.drop_last()[j] == h[j]); }
        }
    }
}

//@fn name=vargmax crate=tea-core ctx="pub trait AggValidBasic" props=C11,C08
//@types T::Inner=f64
//@sig fn vargmax(this: It<T>) -> (r: Option<usize>)
//@replace .for_each( => .for_each_mut(
//@closure 1 name=CloArgMax trait="ApplyFn<T>" params="v: T" ret="()" push="v" caps="mut max: Option<f64>, mut max_idx: Option<usize>, mut current_idx: usize" callty="T" writeback=1
//@closure 1 extra
    open spec fn hist(&self) -> Seq<T> { self.h@ }
    open spec fn arg_ok(v: T) -> bool { canon(v) }
//@closure 1 inv
        &&& argstate_ok(self.h@, self.max, self.max_idx, self.current_idx, true)     // #C11 state_is_first_maximum_so_far
//@at closure 1 first
        broadcast use a_real_cmp;
        let ghost h0 = self.h@;
        proof {
            lemma_cnt_push(h0, v);
            lemma_cnt_le_len(vals(h0));
            if cnt(vals(h0)) == 0 { lemma_cnt_zero_all_none(h0); }
        }
//@at closure 1 last
        proof {
            let h1 = h0.push(v);
            assert(canon_seq(h1)) by { assert forall|i: int| 0 <= i < h1.len() implies canon(#[trigger] h1[i]) by { if i < h0.len() { assert(h1[i] == h0[i]); } } }
            assert forall|j: int| 0 <= j < h0.len() implies h1[j] == h0[j] by {}
            assert(argext_ok(h1, max_idx, true));
        }
//@spec
    requires this.forever().is_none(), this.seq().len() <= 0x7fff_ffff, canon_seq(this.seq()),
    ensures argext_ok(this.seq(), r, true),                  // #C11,C08 index_of_first_maximum
//@at closure 1 decl
    proof { assert(vals(Seq::<T>::empty()).len() == 0); }
//@at closure 1 after
    proof { assert(Seq::<T>::empty() + this.seq() =~= this.seq()); }
//@end

//@fn name=vargmin crate=tea-core ctx="pub trait AggValidBasic" props=C11,C08
//@types T::Inner=f64
//@sig fn vargmin(this: It<T>) -> (r: Option<usize>)
//@replace .for_each( => .for_each_mut(
//@closure 1 name=CloArgMin trait="ApplyFn<T>" params="v: T" ret="()" push="v" caps="mut min: Option<f64>, mut min_idx: Option<usize>, mut current_idx: usize" callty="T" writeback=1
//@closure 1 extra
    open spec fn hist(&self) -> Seq<T> { self.h@ }
    open spec fn arg_ok(v: T) -> bool { canon(v) }
//@closure 1 inv
        &&& argstate_ok(self.h@, self.min, self.min_idx, self.current_idx, false)    // #C11 state_is_first_minimum_so_far
//@at closure 1 first
        broadcast use a_real_cmp;
        let ghost h0 = self.h@;
        proof {
            lemma_cnt_push(h0, v);
            lemma_cnt_le_len(vals(h0));
            if cnt(vals(h0)) == 0 { lemma_cnt_zero_all_none(h0); }
        }
//@at closure 1 last
        proof {
            let h1 = h0.push(v);
            assert(canon_seq(h1)) by { assert forall|i: int| 0 <= i < h1.len() implies canon(#[trigger] h1[i]) by { if i < h0.len() { assert(h1[i] == h0[i]); } } }
            assert forall|j: int| 0 <= j < h0.len() implies h1[j] == h0[j] by {}
            assert(argext_ok(h1, min_idx, false));
        }
//@spec
    requires this.forever().is_none(), this.seq().len() <= 0x7fff_ffff, canon_seq(this.seq()),
    ensures argext_ok(this.seq(), r, false),                 // #C11,C08 index_of_first_minimum
//@at closure 1 decl
    proof { assert(vals(Seq::<T>::empty()).len() == 0); }
//@at closure 1 after
    proof { assert(Seq::<T>::empty() + this.seq() =~= this.seq()); }
//@end

//@fn name=count_none crate=tea-core ctx="pub trait AggValidBasic" props=C11,C08
//@sig fn count_none(this: It<T>) -> (r: usize)
//@replace .for_each( => .for_each_mut(
//@closure 1 name=CloCountNone trait="ApplyFn<T>" params="v: T" ret="()" push="v" caps="mut n: usize" callty="T" writeback=1
//@closure 1 extra
    open spec fn hist(&self) -> Seq<T> { self.h@ }
    open spec fn arg_ok(v: T) -> bool { true }
//@closure 1 inv
        &&& self.n + cnt(vals(self.h@)) == self.h@.len()                              // #C11 nulls_counted_so_far
//@at closure 1 first
        proof { lemma_cnt_push(self.h@, v); lemma_cnt_le_len(vals(self.h@)); }
//@spec
    requires this.forever().is_none(), this.seq().len() <= 0x7fff_ffff,
    ensures r + cnt(vals(this.seq())) == this.seq().len(),   // #C11,C08 counts_the_null_elements
//@at closure 1 decl
    proof { assert(vals(Seq::<T>::empty()).len() == 0); }
//@at closure 1 after
    proof { assert(Seq::<T>::empty() + this.seq() =~= this.seq()); }
//@end

// adjusted Fisher-Pearson skewness  sqrt(n(n-1))/(n-2) * m3 / m2^(3/2)  of the non-null elements
pub open spec fn skew_ok(w: Seq<Option<real>>, mp: int, r: f64) -> bool {
    let n = cnt(w);
    &&& n < mp ==> nan(r)
    &&& (n >= mp && n < 3) ==> nan(r)
    &&& (n >= mp && n >= 3) ==> !nan(r) && (if biased_var(w) > rv(EPS) {
            let s = rsqrt(biased_var(w));
            rv(r) == rsqrt((n * (n - 1)) as real) / ((n - 2) as real) * (cm3(w) / (s * s * s))
        } else { rv(r) == 0real })
}

//@fn name=vskew crate=tea-core ctx="pub trait AggValidBasic" props=C11,C08 arith=C11
//@types T::Inner=f64
//@sig fn vskew(this: It<T>, min_periods: usize) -> (r: f64)
//@replace .vapply_n( => .vapply_n_mut(
//@replace res.not_none() => f64_not_none(res)
//@closure 1 name=CloSkew trait="ApplyFn<f64>" params="v: f64" ret="()" push="v" caps="mut m1: f64, mut m2: f64, mut m3: f64" callty="f64" writeback=1
//@closure 1 extra
    open spec fn hist(&self) -> Seq<f64> { self.h@ }
    open spec fn arg_ok(v: f64) -> bool { !nan(v) }
//@closure 1 inv
        &&& pows_ok(self.h@, self.m1, self.m2, self.m3, 3)                 // #C11 power_sums_describe_the_elements_seen
//@at closure 1 first
        broadcast use a_real;
        proof {
            lemma_ivals_push(self.h@, v);
            lemma_push(ivals(self.h@), Some(rv(v)));
        }
//@spec
    requires this.forever().is_none(), this.seq().len() <= 0x7fff_ffff, canon_seq(this.seq()),
    ensures skew_ok(vals(this.seq()), min_periods as int, r),            // #C11,C08 adjusted_skewness_of_the_valid_elements
//@at body first
    let ghost s0 = this.seq();
    broadcast use a_real, a_real_cmp;
    proof { lemma_vseq_len(s0); lemma_inner_vals(s0); ax_lits(); reveal_with_fuel(rpow, 4); }
//@at closure 1 decl
    proof { assert(ivals(Seq::<f64>::empty()).len() == 0); }
//@at closure 1 after
    proof {
        assert(Seq::<f64>::empty() + inner_seq(vseq(s0)) =~= inner_seq(vseq(s0)));
        let w = vals(s0);
        lemma_cnt_le_len(w);
        lemma_small_counts(n as int);
        if n >= 3 && biased_var(w) > rv(EPS) {
            let vv = biased_var(w);
            ax_rsqrt(vv);
            let s = rsqrt(vv);
            assert(s > 0real) by(nonlinear_arith) requires s >= 0real, s * s == vv, vv > 0real;
            lemma_skew_core(em(w, 3), em(w, 1), s, em(w, 2));
            ax_rsqrt((n * (n - 1)) as real);
        }
    }
//@at body last
    proof {
        let w = vals(s0);
        if n >= 3 {
            assert(rv(m1) == em(w, 1));
            assert(rv(m2) == em(w, 2));
            if biased_var(w) > rv(EPS) {
                let s = rsqrt(biased_var(w));
                assert(rv(m3) == em(w, 3));
                assert(!nan(res));
                let core = cm3(w) / (s * s * s);
                let adj = rsqrt((n * (n - 1)) as real) / ((n - 2) as real);
                let raw = em(w, 3) / rpow(s, 3) - 3real * (em(w, 1) / s) - rpow(em(w, 1) / s, 3);
                assert(raw == core);
                if raw == 0real {
                    assert(rv(res) == 0real);
                    assert(adj * core == 0real) by(nonlinear_arith) requires core == 0real;
                } else {
                    assert(rv(res) == raw * adj);
                    assert(raw * adj == adj * core) by(nonlinear_arith) requires raw == core;
                }
                assert(rv(res) == adj * core);
            } else {
                assert(rv(res) == 0real);
            }
        }
    }
//@end

} // verus!
fn main() {}
