use vstd::prelude::*;
use std::marker::PhantomData;
verus! {
//@include prelude.rs

// ---- transcription of tea-time's unit vocabulary (A-EXTRACT): enum + marker trait
#[derive(Structural, PartialEq, Eq, Clone, Copy)]
pub enum TimeUnit { Year, Month, Day, Hour, Minute, Second, Millisecond, Microsecond, Nanosecond }
impl TimeUnit {
    // nanoseconds per unit, for the four units into_unit supports; 0 otherwise
    pub open spec fn nanos(self) -> int {
        match self {
            TimeUnit::Second => 1_000_000_000,
            TimeUnit::Millisecond => 1_000_000,
            TimeUnit::Microsecond => 1_000,
            TimeUnit::Nanosecond => 1,
            _ => 0,
        }
    }
}
pub trait TimeUnitTrait: Sized {
    spec fn unit_spec() -> TimeUnit;
    fn unit() -> (r: TimeUnit) ensures r == Self::unit_spec();
}
pub struct DateTime<U: TimeUnitTrait>(pub i64, pub PhantomData<U>);

pub assume_specification[ i64::div_euclid ](x: i64, d: i64) -> (r: i64)
    requires d != 0, !(x == i64::MIN && d == -1),
    ensures d > 0 ==> r as int == (x as int) / (d as int);     // Verus' int division is Euclidean (SMT-LIB div)

// std::mem::transmute::<DateTime<U>, DateTime<T>>: sound only between identical layouts; effect = same payload (trusted)
#[verifier::external_body]
pub fn transmute_dt<U: TimeUnitTrait, T: TimeUnitTrait>(d: DateTime<U>) -> (r: DateTime<T>)
    requires U::unit_spec() == T::unit_spec(),
    ensures r.0 == d.0,
{ unimplemented!() }

//@const crate=tea-time name=NANOS_PER_MICRO
//@const crate=tea-time name=NANOS_PER_MILLI
//@const crate=tea-time name=NANOS_PER_SEC
//@const crate=tea-time name=MICROS_PER_MILLI
//@const crate=tea-time name=MICROS_PER_SEC
//@const crate=tea-time name=MILLIS_PER_SEC

impl<U: TimeUnitTrait> DateTime<U> {
//@fn name=new crate=tea-time ctx="impl<U: TimeUnitTrait> DateTime<U>" nth=1 props=C16
//@sig pub const fn new(dt: i64) -> (r: Self)
//@spec
    ensures r.0 == dt
//@end

//@fn name=is_nat crate=tea-time ctx="impl<U: TimeUnitTrait> DateTime<U>" nth=1 props=C16
//@sig pub const fn is_nat(&self) -> (r: bool)
//@spec
    ensures r == (self.0 == i64::MIN)        // #C16 nat_is_min
//@end

//@fn name=is_not_nat crate=tea-time ctx="impl<U: TimeUnitTrait> DateTime<U>" nth=1 props=C16
//@sig pub const fn is_not_nat(&self) -> (r: bool)
//@spec
    ensures r == (self.0 != i64::MIN)        // #C16 not_nat_is_negation
//@end

//@fn name=nat crate=tea-time ctx="impl<U: TimeUnitTrait> DateTime<U>" nth=1 props=C16
//@sig pub const fn nat() -> (r: Self)
//@spec
    ensures r.0 == i64::MIN
//@end

//@fn name=into_opt_i64 crate=tea-time ctx="impl<U: TimeUnitTrait> DateTime<U>" nth=1 props=C16
//@sig pub const fn into_opt_i64(self) -> (r: Option<i64>)
//@spec
    ensures r == (if self.0 == i64::MIN { None } else { Some(self.0) })      // #C16 nat_to_none
//@end

//@fn name=from_opt_i64 crate=tea-time ctx="impl<U: TimeUnitTrait> DateTime<U>" nth=1 props=C16
//@sig pub const fn from_opt_i64(v: Option<i64>) -> (r: Self)
//@spec
    ensures v.is_none() ==> r.0 == i64::MIN, v.is_some() ==> r.0 == v.unwrap()     // #C16 none_to_nat
//@end
}

pub open spec fn supported(u: TimeUnit) -> bool {
    u == TimeUnit::Second || u == TimeUnit::Millisecond || u == TimeUnit::Microsecond || u == TimeUnit::Nanosecond
}

//@fn name=into_unit crate=tea-time ctx="impl<U: TimeUnitTrait> DateTime<U>" props=C16 arith=C16
//@sig pub fn into_unit<U: TimeUnitTrait, T: TimeUnitTrait>(this: DateTime<U>) -> (r: DateTime<T>)
//@replace DateTime::nat() => DateTime::<T>::nat()
//@replace std::mem::transmute::<DateTime<U>, DateTime<T>> => transmute_dt
//@replace use TimeUnit::*; => 
//@replace (Nanosecond, => (TimeUnit::Nanosecond,
//@replace (Microsecond, => (TimeUnit::Microsecond,
//@replace (Millisecond, => (TimeUnit::Millisecond,
//@replace (Second, => (TimeUnit::Second,
//@replace , Nanosecond) => , TimeUnit::Nanosecond)
//@replace , Microsecond) => , TimeUnit::Microsecond)
//@replace , Millisecond) => , TimeUnit::Millisecond)
//@replace , Second) => , TimeUnit::Second)
//@at body last
    proof {
        let un = U::unit_spec().nanos();
        let tn = T::unit_spec().nanos();
        assert(un == 1 || un == 1_000 || un == 1_000_000 || un == 1_000_000_000);
        assert(tn == 1 || tn == 1_000 || tn == 1_000_000 || tn == 1_000_000_000);
        // x == q * (x / q) + x % q and 0 <= x % q < q for the three unit ratios
        let x = this.0 as int;
        vstd::arithmetic::div_mod::lemma_fundamental_div_mod(x, 1_000);
        vstd::arithmetic::div_mod::lemma_mod_bound(x, 1_000);
        vstd::arithmetic::div_mod::lemma_fundamental_div_mod(x, 1_000_000);
        vstd::arithmetic::div_mod::lemma_mod_bound(x, 1_000_000);
        vstd::arithmetic::div_mod::lemma_fundamental_div_mod(x, 1_000_000_000);
        vstd::arithmetic::div_mod::lemma_mod_bound(x, 1_000_000_000);
    }
//@spec
    requires
        supported(U::unit_spec()) && supported(T::unit_spec()),       // the four resolutions of the property; others: unimplemented!() panic
        // converting to a finer unit: the instant must be representable there (otherwise the product overflows)
        (this.0 != i64::MIN && U::unit_spec().nanos() > T::unit_spec().nanos()) ==>
            i64::MIN * T::unit_spec().nanos() < this.0 * U::unit_spec().nanos() <= i64::MAX * T::unit_spec().nanos(),
    ensures
        this.0 == i64::MIN ==> r.0 == i64::MIN,                                              // #C16 nat_preserved
        // instants compared in nanoseconds: value * nanos-per-unit.
        // coarser (or equal) target: the same instant truncated toward the past (floor), also before 1970
        (this.0 != i64::MIN && U::unit_spec().nanos() <= T::unit_spec().nanos()) ==>
            r.0 * T::unit_spec().nanos() <= this.0 * U::unit_spec().nanos() < (r.0 + 1) * T::unit_spec().nanos(),      // #C16 truncated_toward_the_past
        // finer target: exactly the same instant
        (this.0 != i64::MIN && U::unit_spec().nanos() > T::unit_spec().nanos()) ==>
            r.0 * T::unit_spec().nanos() == this.0 * U::unit_spec().nanos(),                                           // #C16 finer_is_exact
//@end

// ---- time of day and durations (C16 NaT absorption, C17 exact shift / inverse law)
// chrono::Duration is abstract (A-CHRONO): all tevec needs is its nanosecond count, None when it does not fit an i64
#[verifier::external_body]
pub struct Duration { _p: u8 }
impl Duration {
    pub uninterp spec fn nn(&self) -> Option<i64>;
    #[verifier::external_body]
    pub fn num_nanoseconds(&self) -> (r: Option<i64>)
        ensures r == self.nn(),
    { unimplemented!() }
}
pub struct TimeDelta { pub months: i32, pub inner: Duration }
pub struct Time(pub i64);

impl TimeDelta {
//@fn name=is_nat crate=tea-time ctx="impl TimeDelta" props=C16
//@sig pub const fn is_nat(&self) -> (r: bool)
//@spec
    ensures r == (self.months == i32::MIN)
//@end
//@fn name=is_not_nat crate=tea-time ctx="impl TimeDelta" props=C16
//@sig pub const fn is_not_nat(&self) -> (r: bool)
//@spec
    ensures r == (self.months != i32::MIN)
//@end
}
impl Time {
//@fn name=is_nat crate=tea-time ctx="impl Time" nth=1 props=C16
//@sig pub const fn is_nat(&self) -> (r: bool)
//@spec
    ensures r == (self.0 == i64::MIN)
//@end
//@fn name=is_not_nat crate=tea-time ctx="impl Time" nth=1 props=C16
//@sig pub const fn is_not_nat(&self) -> (r: bool)
//@spec
    ensures r == (self.0 != i64::MIN)
//@end
//@fn name=nat crate=tea-time ctx="impl Time" nth=1 props=C16
//@sig pub const fn nat() -> (r: Self)
//@spec
    ensures r.0 == i64::MIN
//@end
//@fn name=from_hms crate=tea-time ctx="impl Time" nth=1 props=C17 arith=C17
//@sig pub const fn from_hms(hour: i64, min: i64, sec: i64) -> (r: Self)
//@spec
    requires 0 <= hour < 24, 0 <= min < 60, 0 <= sec < 60,
    ensures r.0 == ((hour * 3600 + min * 60 + sec) * 1_000_000_000)         // #C17 components_to_nanos
//@end
//@fn name=from_hms_nano crate=tea-time ctx="impl Time" nth=1 props=C17 arith=C17
//@sig pub const fn from_hms_nano(hour: i64, min: i64, sec: i64, nano: i64) -> (r: Self)
//@spec
    requires 0 <= hour < 24, 0 <= min < 60, 0 <= sec < 60, 0 <= nano < 1_000_000_000,
    ensures r.0 == ((hour * 3600 + min * 60 + sec) * 1_000_000_000 + nano)   // #C17 components_to_nanos
//@end
//@fn name=from_hms_milli crate=tea-time ctx="impl Time" nth=1 props=C17 arith=C17
//@sig pub const fn from_hms_milli(hour: i64, min: i64, sec: i64, milli: i64) -> (r: Self)
//@spec
    requires 0 <= hour < 24, 0 <= min < 60, 0 <= sec < 60, 0 <= milli < 1000,
    ensures r.0 == ((hour * 3600 + min * 60 + sec) * 1_000_000_000 + milli * 1_000_000)   // #C17 components_to_nanos
//@end
//@fn name=from_hms_micro crate=tea-time ctx="impl Time" nth=1 props=C17 arith=C17
//@sig pub const fn from_hms_micro(hour: i64, min: i64, sec: i64, micro: i64) -> (r: Self)
//@spec
    requires 0 <= hour < 24, 0 <= min < 60, 0 <= sec < 60, 0 <= micro < 1_000_000,
    ensures r.0 == ((hour * 3600 + min * 60 + sec) * 1_000_000_000 + micro * 1000)   // #C17 components_to_nanos
//@end
}
//@const crate=tea-time name=SECS_PER_MINUTE
//@const crate=tea-time name=SECS_PER_HOUR

// what `time (+|-) delta` must be, from the property: NaT absorbs; a month-free duration shifts exactly
pub open spec fn time_shift_ok(t: Time, d: TimeDelta, sign: int, r: Time) -> bool {
    &&& (t.0 == i64::MIN || d.months == i32::MIN) ==> r.0 == i64::MIN                                    // NaT operand -> NaT
    &&& (t.0 != i64::MIN && d.months == 0 && d.inner.nn().is_some()) ==> r.0 == t.0 + sign * d.inner.nn().unwrap()
}

//@fn name=add crate=tea-time ctx="impl Add<TimeDelta> for Time" as=time_add props=C16,C17 arith=C17
//@sig pub fn time_add(this: Time, rhs: TimeDelta) -> (r: Time)
//@spec
    requires
        (this.0 != i64::MIN && rhs.months != i32::MIN && rhs.months != 0) ==> panic_allowed(),       // calendar months: documented panic
        (this.0 != i64::MIN && rhs.months == 0 && rhs.inner.nn().is_some()) ==> i64::MIN < this.0 + rhs.inner.nn().unwrap() <= i64::MAX,   // within range
    ensures
        time_shift_ok(this, rhs, 1, r),          // #C16,C17 time_plus_duration
//@end

//@fn name=sub crate=tea-time ctx="impl Sub<TimeDelta> for Time" as=time_sub props=C16,C17 arith=C17
//@sig pub fn time_sub(this: Time, rhs: TimeDelta) -> (r: Time)
//@spec
    requires
        (this.0 != i64::MIN && rhs.months != i32::MIN && rhs.months != 0) ==> panic_allowed(),
        (this.0 != i64::MIN && rhs.months == 0 && rhs.inner.nn().is_some()) ==> i64::MIN < this.0 - rhs.inner.nn().unwrap() <= i64::MAX,
    ensures
        time_shift_ok(this, rhs, -1, r),         // #C16,C17 time_minus_duration
//@end

// inverse law, over the two contracts only
proof fn lemma_time_shift_inverse(t: Time, d: TimeDelta, a: Time, b: Time)       // #C17
    requires
        t.0 != i64::MIN, d.months == 0, d.inner.nn().is_some(),
        time_shift_ok(t, d, 1, a), a.0 != i64::MIN, time_shift_ok(a, d, -1, b),
    ensures b.0 == t.0,
{
}

// ---- calendar values (C16): chrono::DateTime<Utc> as an abstract instant in nanoseconds (A-CHRONO).  The constructors and
// accessors below are chrono's documented contracts; tevec's wrappers are checked against them.
pub struct Second;
pub struct Millisecond;
pub struct Microsecond;
pub struct Nanosecond;
impl TimeUnitTrait for Second { open spec fn unit_spec() -> TimeUnit { TimeUnit::Second } #[verifier::external_body] fn unit() -> TimeUnit { TimeUnit::Second } }
impl TimeUnitTrait for Millisecond { open spec fn unit_spec() -> TimeUnit { TimeUnit::Millisecond } #[verifier::external_body] fn unit() -> TimeUnit { TimeUnit::Millisecond } }
impl TimeUnitTrait for Microsecond { open spec fn unit_spec() -> TimeUnit { TimeUnit::Microsecond } #[verifier::external_body] fn unit() -> TimeUnit { TimeUnit::Microsecond } }
impl TimeUnitTrait for Nanosecond { open spec fn unit_spec() -> TimeUnit { TimeUnit::Nanosecond } #[verifier::external_body] fn unit() -> TimeUnit { TimeUnit::Nanosecond } }
#[verifier::external_body]
pub struct CrDateTime { _p: u8 }
impl CrDateTime {
    pub uninterp spec fn ns(&self) -> int;
    #[verifier::external_body]
    pub fn from_timestamp(secs: i64, nsecs: u32) -> (r: Option<CrDateTime>)
        ensures r matches Some(d) ==> d.ns() == secs * 1_000_000_000 + nsecs,
    { unimplemented!() }
    #[verifier::external_body]
    pub fn from_timestamp_millis(ms: i64) -> (r: Option<CrDateTime>)
        ensures r matches Some(d) ==> d.ns() == ms * 1_000_000,
    { unimplemented!() }
    #[verifier::external_body]
    pub fn from_timestamp_micros(us: i64) -> (r: Option<CrDateTime>)
        ensures r matches Some(d) ==> d.ns() == us * 1_000,
    { unimplemented!() }
    #[verifier::external_body]
    pub fn from_timestamp_nanos(n: i64) -> (r: CrDateTime)
        ensures r.ns() == n,
    { unimplemented!() }
    // accessors floor toward the past (chrono: "number of non-leap seconds / milliseconds / .. since the epoch")
    #[verifier::external_body]
    pub fn timestamp(&self) -> (r: i64)
        ensures r * 1_000_000_000 <= self.ns() < (r + 1) * 1_000_000_000,
    { unimplemented!() }
    #[verifier::external_body]
    pub fn timestamp_millis(&self) -> (r: i64)
        ensures r * 1_000_000 <= self.ns() < (r + 1) * 1_000_000,
    { unimplemented!() }
    #[verifier::external_body]
    pub fn timestamp_micros(&self) -> (r: i64)
        ensures r * 1_000 <= self.ns() < (r + 1) * 1_000,
    { unimplemented!() }
    #[verifier::external_body]
    pub fn timestamp_nanos_opt(&self) -> (r: Option<i64>)
        ensures r matches Some(v) ==> v == self.ns(), (i64::MIN <= self.ns() <= i64::MAX) ==> r.is_some(),
    { unimplemented!() }
}
// `x.into()` for x: i64 is From<i64> for DateTime<U> = DateTime::new (extracted below as `from_i64`) (R12: `.into()` -> `.into_dt()`)
pub trait IntoDt<U: TimeUnitTrait>: Sized {
    spec fn raw(self) -> i64;
    fn into_dt(self) -> (r: DateTime<U>) ensures r.0 == self.raw();
}
impl<U: TimeUnitTrait> IntoDt<U> for i64 {
    open spec fn raw(self) -> i64 { self }
    fn into_dt(self) -> DateTime<U> { from_i64::<U>(self) }
}
//@fn name=from crate=tea-time ctx="impl<U: TimeUnitTrait> From<i64> for DateTime<U>" as=from_i64 props=C16
//@sig pub fn from_i64<U: TimeUnitTrait>(dt: i64) -> (r: DateTime<U>)
//@spec
    ensures r.0 == dt
//@end

//@fn name=try_from crate=tea-time ctx="impl TryFrom<DateTime<Second>> for CrDateTime<Utc>" as=try_from_s props=C16 arith=C16
//@sig pub fn try_from_s(dt: DateTime<Second>) -> (r: TResult<CrDateTime>)
//@closure 1 mode=annotate params="" ret="(e: TError)"
//@spec
    ensures r matches Ok(d) ==> d.ns() == dt.0 * 1_000_000_000       // #C16 calendar_value_is_the_same_instant
//@end
//@fn name=try_from crate=tea-time ctx="impl TryFrom<DateTime<Millisecond>> for CrDateTime<Utc>" as=try_from_ms props=C16 arith=C16
//@sig pub fn try_from_ms(dt: DateTime<Millisecond>) -> (r: TResult<CrDateTime>)
//@closure 1 mode=annotate params="" ret="(e: TError)"
//@spec
    ensures r matches Ok(d) ==> d.ns() == dt.0 * 1_000_000           // #C16 calendar_value_is_the_same_instant
//@end
//@fn name=try_from crate=tea-time ctx="impl TryFrom<DateTime<Microsecond>> for CrDateTime<Utc>" as=try_from_us props=C16 arith=C16
//@sig pub fn try_from_us(dt: DateTime<Microsecond>) -> (r: TResult<CrDateTime>)
//@closure 1 mode=annotate params="" ret="(e: TError)"
//@spec
    ensures r matches Ok(d) ==> d.ns() == dt.0 * 1_000               // #C16 calendar_value_is_the_same_instant
//@end
//@fn name=try_from crate=tea-time ctx="impl TryFrom<DateTime<Nanosecond>> for CrDateTime<Utc>" as=try_from_ns props=C16 arith=C16
//@sig pub fn try_from_ns(dt: DateTime<Nanosecond>) -> (r: TResult<CrDateTime>)
//@spec
    ensures r matches Ok(d) ==> d.ns() == dt.0                        // #C16 calendar_value_is_the_same_instant
//@end

//@fn name=from crate=tea-time ctx="impl From<CrDateTime<Utc>> for DateTime<Second>" as=from_cr_s props=C16 arith=C16
//@sig pub fn from_cr_s(dt: CrDateTime) -> (r: DateTime<Second>)
//@replace .into() => .into_dt()
//@spec
    ensures r.0 * 1_000_000_000 <= dt.ns() < (r.0 + 1) * 1_000_000_000     // #C16 calendar_to_unit_truncates_toward_the_past
//@end
//@fn name=from crate=tea-time ctx="impl From<CrDateTime<Utc>> for DateTime<Millisecond>" as=from_cr_ms props=C16 arith=C16
//@sig pub fn from_cr_ms(dt: CrDateTime) -> (r: DateTime<Millisecond>)
//@replace .into() => .into_dt()
//@spec
    ensures r.0 * 1_000_000 <= dt.ns() < (r.0 + 1) * 1_000_000             // #C16 calendar_to_unit_truncates_toward_the_past
//@end
//@fn name=from crate=tea-time ctx="impl From<CrDateTime<Utc>> for DateTime<Microsecond>" as=from_cr_us props=C16 arith=C16
//@sig pub fn from_cr_us(dt: CrDateTime) -> (r: DateTime<Microsecond>)
//@replace .into() => .into_dt()
//@spec
    ensures r.0 * 1_000 <= dt.ns() < (r.0 + 1) * 1_000                     // #C16 calendar_to_unit_truncates_toward_the_past
//@end
//@fn name=from crate=tea-time ctx="impl From<CrDateTime<Utc>> for DateTime<Nanosecond>" as=from_cr_ns props=C16 arith=C16
//@sig pub fn from_cr_ns(dt: CrDateTime) -> (r: DateTime<Nanosecond>)
//@replace .into() => .into_dt()
//@spec
    requires i64::MIN <= dt.ns() <= i64::MAX,       // within the representable range of the unit (otherwise a documented panic)
    ensures r.0 == dt.ns()                                                 // #C16 calendar_to_unit_truncates_toward_the_past
//@end

// to the calendar type and back is the identity (over the two contracts)
proof fn lemma_calendar_round_trip(x: int, q: int, n: int, y: int)       // #C16 calendar_round_trip
    requires q >= 1, n == x * q, y * q <= n < (y + 1) * q,
    ensures y == x,
{
    assert(y == x) by(nonlinear_arith) requires q >= 1, n == x * q, y * q <= n, n < (y + 1) * q;
}

// finer and back is the identity (corollary of the two clauses above, stated over the contract only)
proof fn lemma_finer_and_back(x: int, q: int, y: int, z: int)
    requires q >= 1, y == x * q, z * q <= y < (z + 1) * q,
    ensures z == x,
{
    assert(z == x) by(nonlinear_arith) requires q >= 1, y == x * q, z * q <= y, y < (z + 1) * q;
}

} // verus!
fn main() {}
