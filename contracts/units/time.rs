use vstd::prelude::*;
use vstd::std_specs::ops::*;
use std::marker::PhantomData;
verus! {
//@include prelude.rs

// ---- transcription of tea-time's unit vocabulary (A-EXTRACT): enum + marker trait
#[derive(Structural, PartialEq, Eq, Clone, Copy)]
pub enum TimeUnit { Year, Month, Day, Hour, Minute, Second, Millisecond, Microsecond, Nanosecond }
impl TimeUnit {
    // nanoseconds per unit, for the four units into_unit supports; 0 otherwise
    pub open spec fn nanos(self) -> int {
        match self {
            TimeUnit::Second => 1_000_000_000,
            TimeUnit::Millisecond => 1_000_000,
            TimeUnit::Microsecond => 1_000,
            TimeUnit::Nanosecond => 1,
            _ => 0,
        }
    }
}
pub trait TimeUnitTrait: Sized {
    spec fn unit_spec() -> TimeUnit;
    fn unit() -> (r: TimeUnit) ensures r == Self::unit_spec();
}
pub struct DateTime<U: TimeUnitTrait>(pub i64, pub PhantomData<U>);

pub assume_specification[ i64::div_euclid ](x: i64, d: i64) -> (r: i64)
    requires d != 0, !(x == i64::MIN && d == -1),
    ensures d > 0 ==> r as int == (x as int) / (d as int);     // Verus' int division is Euclidean (SMT-LIB div)

// std::mem::transmute::<DateTime<U>, DateTime<T>>: sound only between identical layouts; effect = same payload (trusted)
#[verifier::external_body]
pub fn transmute_dt<U: TimeUnitTrait, T: TimeUnitTrait>(d: DateTime<U>) -> (r: DateTime<T>)
    requires U::unit_spec() == T::unit_spec(),
    ensures r.0 == d.0,
{ unimplemented!() }

//@const crate=tea-time name=NANOS_PER_MICRO
//@const crate=tea-time name=NANOS_PER_MILLI
//@const crate=tea-time name=NANOS_PER_SEC
//@const crate=tea-time name=MICROS_PER_MILLI
//@const crate=tea-time name=MICROS_PER_SEC
//@const crate=tea-time name=MILLIS_PER_SEC

impl<U: TimeUnitTrait> DateTime<U> {
//@fn name=new crate=tea-time ctx="impl<U: TimeUnitTrait> DateTime<U>" nth=1 props=C16
//@sig pub const fn new(dt: i64) -> (r: Self)
//@spec
    ensures r.0 == dt
//@end

//@fn name=is_nat crate=tea-time ctx="impl<U: TimeUnitTrait> DateTime<U>" nth=1 props=C16
//@sig pub const fn is_nat(&self) -> (r: bool)
//@spec
    ensures r == (self.0 == i64::MIN)        // #C16 nat_is_min
//@end

//@fn name=is_not_nat crate=tea-time ctx="impl<U: TimeUnitTrait> DateTime<U>" nth=1 props=C16
//@sig pub const fn is_not_nat(&self) -> (r: bool)
//@spec
    ensures r == (self.0 != i64::MIN)        // #C16 not_nat_is_negation
//@end

//@fn name=nat crate=tea-time ctx="impl<U: TimeUnitTrait> DateTime<U>" nth=1 props=C16
//@sig pub const fn nat() -> (r: Self)
//@spec
    ensures r.0 == i64::MIN
//@end

//@fn name=into_opt_i64 crate=tea-time ctx="impl<U: TimeUnitTrait> DateTime<U>" nth=1 props=C16
//@sig pub const fn into_opt_i64(self) -> (r: Option<i64>)
//@spec
    ensures r == (if self.0 == i64::MIN { None } else { Some(self.0) })      // #C16 nat_to_none
//@end

//@fn name=from_opt_i64 crate=tea-time ctx="impl<U: TimeUnitTrait> DateTime<U>" nth=1 props=C16
//@sig pub const fn from_opt_i64(v: Option<i64>) -> (r: Self)
//@spec
    ensures v.is_none() ==> r.0 == i64::MIN, v.is_some() ==> r.0 == v.unwrap()     // #C16 none_to_nat
//@end
}

pub open spec fn supported(u: TimeUnit) -> bool {
    u == TimeUnit::Second || u == TimeUnit::Millisecond || u == TimeUnit::Microsecond || u == TimeUnit::Nanosecond
}

//@fn name=into_unit crate=tea-time ctx="impl<U: TimeUnitTrait> DateTime<U>" props=C16 arith=C16
//@sig pub fn into_unit<U: TimeUnitTrait, T: TimeUnitTrait>(this: DateTime<U>) -> (r: DateTime<T>)
//@replace DateTime::nat() => DateTime::<T>::nat()
//@replace std::mem::transmute::<DateTime<U>, DateTime<T>> => transmute_dt
//@replace use TimeUnit::*; => 
//@replace (Nanosecond, => (TimeUnit::Nanosecond,
//@replace (Microsecond, => (TimeUnit::Microsecond,
//@replace (Millisecond, => (TimeUnit::Millisecond,
//@replace (Second, => (TimeUnit::Second,
//@replace , Nanosecond) => , TimeUnit::Nanosecond)
//@replace , Microsecond) => , TimeUnit::Microsecond)
//@replace , Millisecond) => , TimeUnit::Millisecond)
//@replace , Second) => , TimeUnit::Second)
//@at body last
    proof {
        let un = U::unit_spec().nanos();
        let tn = T::unit_spec().nanos();
        assert(un == 1 || un == 1_000 || un == 1_000_000 || un == 1_000_000_000);
        assert(tn == 1 || tn == 1_000 || tn == 1_000_000 || tn == 1_000_000_000);
        let x = this.0 as int;
        let y = __ret.0 as int;
        // x == q * (x / q) + x % q and 0 <= x % q < q for the three unit ratios (literal divisors: linear facts)
        vstd::arithmetic::div_mod::lemma_fundamental_div_mod(x, 1_000);
        vstd::arithmetic::div_mod::lemma_mod_bound(x, 1_000);
        vstd::arithmetic::div_mod::lemma_fundamental_div_mod(x, 1_000_000);
        vstd::arithmetic::div_mod::lemma_mod_bound(x, 1_000_000);
        vstd::arithmetic::div_mod::lemma_fundamental_div_mod(x, 1_000_000_000);
        vstd::arithmetic::div_mod::lemma_mod_bound(x, 1_000_000_000);
        if this.0 != i64::MIN && un < tn {
            // one case per (source, target) pair, each with literal factors only
            if un == 1 && tn == 1_000 { assert(y == x / 1_000); assert(y * 1_000 <= x < (y + 1) * 1_000); }
            if un == 1 && tn == 1_000_000 { assert(y == x / 1_000_000); assert(y * 1_000_000 <= x < (y + 1) * 1_000_000); }
            if un == 1 && tn == 1_000_000_000 { assert(y == x / 1_000_000_000); assert(y * 1_000_000_000 <= x < (y + 1) * 1_000_000_000); }
            if un == 1_000 && tn == 1_000_000 { assert(y == x / 1_000); assert(y * 1_000 <= x < (y + 1) * 1_000); assert(y * 1_000_000 <= x * 1_000 < (y + 1) * 1_000_000); }
            if un == 1_000 && tn == 1_000_000_000 { assert(y == x / 1_000_000); assert(y * 1_000_000 <= x < (y + 1) * 1_000_000); assert(y * 1_000_000_000 <= x * 1_000 < (y + 1) * 1_000_000_000); }
            if un == 1_000_000 && tn == 1_000_000_000 { assert(y == x / 1_000); assert(y * 1_000 <= x < (y + 1) * 1_000); assert(y * 1_000_000_000 <= x * 1_000_000 < (y + 1) * 1_000_000_000); }
            assert(y * tn <= x * un < (y + 1) * tn);
        }
        if this.0 != i64::MIN && un == tn {
            assert(y == x);
            if tn == 1 { assert(y * 1 <= x * 1 < (y + 1) * 1); }
            if tn == 1_000 { assert(y * 1_000 <= x * 1_000 < (y + 1) * 1_000); }
            if tn == 1_000_000 { assert(y * 1_000_000 <= x * 1_000_000 < (y + 1) * 1_000_000); }
            if tn == 1_000_000_000 { assert(y * 1_000_000_000 <= x * 1_000_000_000 < (y + 1) * 1_000_000_000); }
            assert(y * tn <= x * un < (y + 1) * tn);
        }
    }
//@spec
    requires
        supported(U::unit_spec()) && supported(T::unit_spec()),       // the four resolutions of the property; others: unimplemented!() panic
        // converting to a finer unit: the instant must be representable there (otherwise the product overflows)
        (this.0 != i64::MIN && U::unit_spec().nanos() > T::unit_spec().nanos()) ==>
            i64::MIN * T::unit_spec().nanos() < this.0 * U::unit_spec().nanos() <= i64::MAX * T::unit_spec().nanos(),
    ensures
        this.0 == i64::MIN ==> r.0 == i64::MIN,                                              // #C16 nat_preserved
        // instants compared in nanoseconds: value * nanos-per-unit.
        // coarser (or equal) target: the same instant truncated toward the past (floor), also before 1970
        (this.0 != i64::MIN && U::unit_spec().nanos() <= T::unit_spec().nanos()) ==>
            r.0 * T::unit_spec().nanos() <= this.0 * U::unit_spec().nanos() < (r.0 + 1) * T::unit_spec().nanos(),      // #C16 truncated_toward_the_past
        // finer target: exactly the same instant
        (this.0 != i64::MIN && U::unit_spec().nanos() > T::unit_spec().nanos()) ==>
            r.0 * T::unit_spec().nanos() == this.0 * U::unit_spec().nanos(),                                           // #C16 finer_is_exact
//@end

impl<U: TimeUnitTrait> DateTime<U> {
    // the method form callers use (`x.into_unit::<T>()`): the extracted function above, under the same contract
    pub fn into_unit<T: TimeUnitTrait>(self) -> (r: DateTime<T>)
    requires
        supported(U::unit_spec()) && supported(T::unit_spec()),       // the four resolutions of the property; others: unimplemented!() panic
        // converting to a finer unit: the instant must be representable there (otherwise the product overflows)
        (self.0 != i64::MIN && U::unit_spec().nanos() > T::unit_spec().nanos()) ==>
            i64::MIN * T::unit_spec().nanos() < self.0 * U::unit_spec().nanos() <= i64::MAX * T::unit_spec().nanos(),
    ensures
        self.0 == i64::MIN ==> r.0 == i64::MIN,                                              // #C16 nat_preserved
        // instants compared in nanoseconds: value * nanos-per-unit.
        // coarser (or equal) target: the same instant truncated toward the past (floor), also before 1970
        (self.0 != i64::MIN && U::unit_spec().nanos() <= T::unit_spec().nanos()) ==>
            r.0 * T::unit_spec().nanos() <= self.0 * U::unit_spec().nanos() < (r.0 + 1) * T::unit_spec().nanos(),      // #C16 truncated_toward_the_past
        // finer target: exactly the same instant
        (self.0 != i64::MIN && U::unit_spec().nanos() > T::unit_spec().nanos()) ==>
            r.0 * T::unit_spec().nanos() == self.0 * U::unit_spec().nanos(),                                           // #C16 finer_is_exact
    { into_unit::<U, T>(self) }
//@fn name=into_i64 crate=tea-time ctx="impl<U: TimeUnitTrait> DateTime<U>" nth=1 props=C16
//@sig pub const fn into_i64(self) -> (r: i64)
//@spec
    ensures r == self.0
//@end
}

// ---- time of day and durations (C16 NaT absorption, C17 exact shift / inverse law)
// chrono::Duration is abstract (A-CHRONO): all tevec needs is its nanosecond count, None when it does not fit an i64
#[verifier::external_body]
pub struct Duration { _p: u8 }
pub uninterp spec fn dur_of(n: int) -> Duration;
pub broadcast axiom fn ax_dur_of(n: int) ensures (#[trigger] dur_of(n)).dns() == n;
impl Duration {
    pub uninterp spec fn dns(&self) -> int;        // exact length in nanoseconds (chrono's range is wider than i64 nanoseconds)
    pub open spec fn nn(&self) -> Option<i64> { if i64::MIN <= self.dns() <= i64::MAX { Some(self.dns() as i64) } else { None } }
    #[verifier::external_body]
    pub fn num_nanoseconds(&self) -> (r: Option<i64>)
        ensures r == self.nn(),
    { unimplemented!() }
    #[verifier::external_body]
    pub const fn seconds(s: i64) -> (r: Duration)
        ensures r.dns() == s * 1_000_000_000,
    { unimplemented!() }
    #[verifier::external_body]
    pub const fn nanoseconds(n: i64) -> (r: Duration)
        ensures r.dns() == n,
    { unimplemented!() }
    #[verifier::external_body]
    pub const fn microseconds(n: i64) -> (r: Duration)
        ensures r.dns() == n * 1_000,
    { unimplemented!() }
    #[verifier::external_body]
    pub const fn milliseconds(n: i64) -> (r: Duration)
        ensures r.dns() == n * 1_000_000,
    { unimplemented!() }
}
// chrono's operators on durations (A-CHRONO): exact on the nanosecond count (overflow of chrono's own range: outside the model)
impl core::ops::Add<Duration> for Duration { type Output = Duration; #[verifier::external_body] fn add(self, o: Duration) -> Duration { unimplemented!() } }
impl AddSpecImpl<Duration> for Duration {
    open spec fn obeys_add_spec() -> bool { true }
    open spec fn add_req(self, o: Duration) -> bool { true }
    open spec fn add_spec(self, o: Duration) -> Duration { dur_of(self.dns() + o.dns()) }
}
impl core::ops::Sub<Duration> for Duration { type Output = Duration; #[verifier::external_body] fn sub(self, o: Duration) -> Duration { unimplemented!() } }
impl SubSpecImpl<Duration> for Duration {
    open spec fn obeys_sub_spec() -> bool { true }
    open spec fn sub_req(self, o: Duration) -> bool { true }
    open spec fn sub_spec(self, o: Duration) -> Duration { dur_of(self.dns() - o.dns()) }
}
impl core::ops::Neg for Duration { type Output = Duration; #[verifier::external_body] fn neg(self) -> Duration { unimplemented!() } }
impl NegSpecImpl for Duration {
    open spec fn obeys_neg_spec() -> bool { true }
    open spec fn neg_req(self) -> bool { true }
    open spec fn neg_spec(self) -> Duration { dur_of(-self.dns()) }
}
impl core::ops::Mul<i32> for Duration { type Output = Duration; #[verifier::external_body] fn mul(self, k: i32) -> Duration { unimplemented!() } }
impl MulSpecImpl<i32> for Duration {
    open spec fn obeys_mul_spec() -> bool { true }
    open spec fn mul_req(self, k: i32) -> bool { true }
    open spec fn mul_spec(self, k: i32) -> Duration { dur_of(self.dns() * k) }
}
pub struct TimeDelta { pub months: i32, pub inner: Duration }
pub struct Time(pub i64);

impl TimeDelta {
//@fn name=is_nat crate=tea-time ctx="impl TimeDelta" props=C16
//@sig pub const fn is_nat(&self) -> (r: bool)
//@spec
    ensures r == (self.months == i32::MIN)
//@end
//@fn name=is_not_nat crate=tea-time ctx="impl TimeDelta" props=C16
//@sig pub const fn is_not_nat(&self) -> (r: bool)
//@spec
    ensures r == (self.months != i32::MIN)
//@end
}
impl Time {
//@fn name=is_nat crate=tea-time ctx="impl Time" nth=1 props=C16
//@sig pub const fn is_nat(&self) -> (r: bool)
//@spec
    ensures r == (self.0 == i64::MIN)
//@end
//@fn name=is_not_nat crate=tea-time ctx="impl Time" nth=1 props=C16
//@sig pub const fn is_not_nat(&self) -> (r: bool)
//@spec
    ensures r == (self.0 != i64::MIN)
//@end
//@fn name=nat crate=tea-time ctx="impl Time" nth=1 props=C16
//@sig pub const fn nat() -> (r: Self)
//@spec
    ensures r.0 == i64::MIN
//@end
//@fn name=from_hms crate=tea-time ctx="impl Time" nth=1 props=C17 arith=C17
//@sig pub const fn from_hms(hour: i64, min: i64, sec: i64) -> (r: Self)
//@spec
    requires 0 <= hour < 24, 0 <= min < 60, 0 <= sec < 60,
    ensures r.0 == ((hour * 3600 + min * 60 + sec) * 1_000_000_000)         // #C17 components_to_nanos
//@end
//@fn name=from_hms_nano crate=tea-time ctx="impl Time" nth=1 props=C17 arith=C17
//@sig pub const fn from_hms_nano(hour: i64, min: i64, sec: i64, nano: i64) -> (r: Self)
//@spec
    requires 0 <= hour < 24, 0 <= min < 60, 0 <= sec < 60, 0 <= nano < 1_000_000_000,
    ensures r.0 == ((hour * 3600 + min * 60 + sec) * 1_000_000_000 + nano)   // #C17 components_to_nanos
//@end
//@fn name=from_hms_milli crate=tea-time ctx="impl Time" nth=1 props=C17 arith=C17
//@sig pub const fn from_hms_milli(hour: i64, min: i64, sec: i64, milli: i64) -> (r: Self)
//@spec
    requires 0 <= hour < 24, 0 <= min < 60, 0 <= sec < 60, 0 <= milli < 1000,
    ensures r.0 == ((hour * 3600 + min * 60 + sec) * 1_000_000_000 + milli * 1_000_000)   // #C17 components_to_nanos
//@end
//@fn name=from_hms_micro crate=tea-time ctx="impl Time" nth=1 props=C17 arith=C17
//@sig pub const fn from_hms_micro(hour: i64, min: i64, sec: i64, micro: i64) -> (r: Self)
//@spec
    requires 0 <= hour < 24, 0 <= min < 60, 0 <= sec < 60, 0 <= micro < 1_000_000,
    ensures r.0 == ((hour * 3600 + min * 60 + sec) * 1_000_000_000 + micro * 1000)   // #C17 components_to_nanos
//@end
}
//@const crate=tea-time name=SECS_PER_MINUTE
//@const crate=tea-time name=SECS_PER_HOUR

// what `time (+|-) delta` must be, from the property: NaT absorbs; a month-free duration shifts exactly
pub open spec fn time_shift_ok(t: Time, d: TimeDelta, sign: int, r: Time) -> bool {
    &&& (t.0 == i64::MIN || d.months == i32::MIN) ==> r.0 == i64::MIN                                    // NaT operand -> NaT
    &&& (t.0 != i64::MIN && d.months == 0 && d.inner.nn().is_some()) ==> r.0 == t.0 + sign * d.inner.nn().unwrap()
}

//@fn name=add crate=tea-time ctx="impl Add<TimeDelta> for Time" as=time_add props=C16,C17 arith=C17
//@sig pub fn time_add(this: Time, rhs: TimeDelta) -> (r: Time)
//@spec
    requires
        (this.0 != i64::MIN && rhs.months != i32::MIN && rhs.months != 0) ==> panic_allowed(),       // calendar months: documented panic
        (this.0 != i64::MIN && rhs.months == 0 && rhs.inner.nn().is_some()) ==> i64::MIN < this.0 + rhs.inner.nn().unwrap() <= i64::MAX,   // within range
    ensures
        time_shift_ok(this, rhs, 1, r),          // #C16,C17 time_plus_duration
//@end

//@fn name=sub crate=tea-time ctx="impl Sub<TimeDelta> for Time" as=time_sub props=C16,C17 arith=C17
//@sig pub fn time_sub(this: Time, rhs: TimeDelta) -> (r: Time)
//@spec
    requires
        (this.0 != i64::MIN && rhs.months != i32::MIN && rhs.months != 0) ==> panic_allowed(),
        (this.0 != i64::MIN && rhs.months == 0 && rhs.inner.nn().is_some()) ==> i64::MIN < this.0 - rhs.inner.nn().unwrap() <= i64::MAX,
    ensures
        time_shift_ok(this, rhs, -1, r),         // #C16,C17 time_minus_duration
//@end

// inverse law, over the two contracts only
proof fn lemma_time_shift_inverse(t: Time, d: TimeDelta, a: Time, b: Time)       // #C17
    requires
        t.0 != i64::MIN, d.months == 0, d.inner.nn().is_some(),
        time_shift_ok(t, d, 1, a), a.0 != i64::MIN, time_shift_ok(a, d, -1, b),
    ensures b.0 == t.0,
{
}

// ---- calendar values (C16): chrono::DateTime<Utc> as an abstract instant in nanoseconds (A-CHRONO).  The constructors and
// accessors below are chrono's documented contracts; tevec's wrappers are checked against them.
pub struct Second;
pub struct Millisecond;
pub struct Microsecond;
pub struct Nanosecond;
impl TimeUnitTrait for Second { open spec fn unit_spec() -> TimeUnit { TimeUnit::Second } #[verifier::external_body] fn unit() -> TimeUnit { TimeUnit::Second } }
impl TimeUnitTrait for Millisecond { open spec fn unit_spec() -> TimeUnit { TimeUnit::Millisecond } #[verifier::external_body] fn unit() -> TimeUnit { TimeUnit::Millisecond } }
impl TimeUnitTrait for Microsecond { open spec fn unit_spec() -> TimeUnit { TimeUnit::Microsecond } #[verifier::external_body] fn unit() -> TimeUnit { TimeUnit::Microsecond } }
impl TimeUnitTrait for Nanosecond { open spec fn unit_spec() -> TimeUnit { TimeUnit::Nanosecond } #[verifier::external_body] fn unit() -> TimeUnit { TimeUnit::Nanosecond } }
#[verifier::external_body]
pub struct CrDateTime { _p: u8 }
impl CrDateTime {
    pub uninterp spec fn ns(&self) -> int;
    #[verifier::external_body]
    pub fn from_timestamp(secs: i64, nsecs: u32) -> (r: Option<CrDateTime>)
        ensures r matches Some(d) ==> d.ns() == secs * 1_000_000_000 + nsecs, cr_range(secs * 1_000_000_000 + nsecs) ==> r.is_some(),
    { unimplemented!() }
    #[verifier::external_body]
    pub fn from_timestamp_millis(ms: i64) -> (r: Option<CrDateTime>)
        ensures r matches Some(d) ==> d.ns() == ms * 1_000_000, cr_range(ms * 1_000_000) ==> r.is_some(),
    { unimplemented!() }
    #[verifier::external_body]
    pub fn from_timestamp_micros(us: i64) -> (r: Option<CrDateTime>)
        ensures r matches Some(d) ==> d.ns() == us * 1_000, cr_range(us * 1_000) ==> r.is_some(),
    { unimplemented!() }
    #[verifier::external_body]
    pub fn from_timestamp_nanos(n: i64) -> (r: CrDateTime)
        ensures r.ns() == n,
    { unimplemented!() }
    // accessors floor toward the past (chrono: "number of non-leap seconds / milliseconds / .. since the epoch")
    #[verifier::external_body]
    pub fn timestamp(&self) -> (r: i64)
        ensures r * 1_000_000_000 <= self.ns() < (r + 1) * 1_000_000_000,
    { unimplemented!() }
    #[verifier::external_body]
    pub fn timestamp_millis(&self) -> (r: i64)
        ensures r * 1_000_000 <= self.ns() < (r + 1) * 1_000_000,
    { unimplemented!() }
    #[verifier::external_body]
    pub fn timestamp_micros(&self) -> (r: i64)
        ensures r * 1_000 <= self.ns() < (r + 1) * 1_000,
    { unimplemented!() }
    #[verifier::external_body]
    pub fn timestamp_nanos_opt(&self) -> (r: Option<i64>)
        ensures r matches Some(v) ==> v == self.ns(), (i64::MIN <= self.ns() <= i64::MAX) ==> r.is_some(),
    { unimplemented!() }
}
// `x.into()` for x: i64 is From<i64> for DateTime<U> = DateTime::new (extracted below as `from_i64`) (R12: `.into()` -> `.into_dt()`)
pub trait IntoDt<U: TimeUnitTrait>: Sized {
    spec fn raw(self) -> i64;
    fn into_dt(self) -> (r: DateTime<U>) ensures r.0 == self.raw();
}
impl<U: TimeUnitTrait> IntoDt<U> for i64 {
    open spec fn raw(self) -> i64 { self }
    fn into_dt(self) -> DateTime<U> { from_i64::<U>(self) }
}
//@fn name=from crate=tea-time ctx="impl<U: TimeUnitTrait> From<i64> for DateTime<U>" as=from_i64 props=C16
//@sig pub fn from_i64<U: TimeUnitTrait>(dt: i64) -> (r: DateTime<U>)
//@spec
    ensures r.0 == dt
//@end

//@fn name=try_from crate=tea-time ctx="impl TryFrom<DateTime<Second>> for CrDateTime<Utc>" as=try_from_s props=C16 arith=C16
//@sig pub fn try_from_s(dt: DateTime<Second>) -> (r: TResult<CrDateTime>)
//@closure 1 mode=annotate params="" ret="(e: TError)"
//@spec
    ensures r matches Ok(d) ==> d.ns() == dt.0 * 1_000_000_000,      // #C16 calendar_value_is_the_same_instant
        cr_range(dt.0 * 1_000_000_000) ==> r.is_ok(),                // #C16 in_range_converts
//@end
//@fn name=try_from crate=tea-time ctx="impl TryFrom<DateTime<Millisecond>> for CrDateTime<Utc>" as=try_from_ms props=C16 arith=C16
//@sig pub fn try_from_ms(dt: DateTime<Millisecond>) -> (r: TResult<CrDateTime>)
//@closure 1 mode=annotate params="" ret="(e: TError)"
//@spec
    ensures r matches Ok(d) ==> d.ns() == dt.0 * 1_000_000,          // #C16 calendar_value_is_the_same_instant
        cr_range(dt.0 * 1_000_000) ==> r.is_ok(),                    // #C16 in_range_converts
//@end
//@fn name=try_from crate=tea-time ctx="impl TryFrom<DateTime<Microsecond>> for CrDateTime<Utc>" as=try_from_us props=C16 arith=C16
//@sig pub fn try_from_us(dt: DateTime<Microsecond>) -> (r: TResult<CrDateTime>)
//@closure 1 mode=annotate params="" ret="(e: TError)"
//@spec
    ensures r matches Ok(d) ==> d.ns() == dt.0 * 1_000,              // #C16 calendar_value_is_the_same_instant
        cr_range(dt.0 * 1_000) ==> r.is_ok(),                        // #C16 in_range_converts
//@end
//@fn name=try_from crate=tea-time ctx="impl TryFrom<DateTime<Nanosecond>> for CrDateTime<Utc>" as=try_from_ns props=C16 arith=C16
//@sig pub fn try_from_ns(dt: DateTime<Nanosecond>) -> (r: TResult<CrDateTime>)
//@spec
    ensures r matches Ok(d) ==> d.ns() == dt.0,                       // #C16 calendar_value_is_the_same_instant
        r.is_ok(),                                                    // #C16 in_range_converts
//@end

//@fn name=from crate=tea-time ctx="impl From<CrDateTime<Utc>> for DateTime<Second>" as=from_cr_s props=C16 arith=C16
//@sig pub fn from_cr_s(dt: CrDateTime) -> (r: DateTime<Second>)
//@replace .into() => .into_dt()
//@spec
    ensures r.0 * 1_000_000_000 <= dt.ns() < (r.0 + 1) * 1_000_000_000     // #C16 calendar_to_unit_truncates_toward_the_past
//@end
//@fn name=from crate=tea-time ctx="impl From<CrDateTime<Utc>> for DateTime<Millisecond>" as=from_cr_ms props=C16 arith=C16
//@sig pub fn from_cr_ms(dt: CrDateTime) -> (r: DateTime<Millisecond>)
//@replace .into() => .into_dt()
//@spec
    ensures r.0 * 1_000_000 <= dt.ns() < (r.0 + 1) * 1_000_000             // #C16 calendar_to_unit_truncates_toward_the_past
//@end
//@fn name=from crate=tea-time ctx="impl From<CrDateTime<Utc>> for DateTime<Microsecond>" as=from_cr_us props=C16 arith=C16
//@sig pub fn from_cr_us(dt: CrDateTime) -> (r: DateTime<Microsecond>)
//@replace .into() => .into_dt()
//@spec
    ensures r.0 * 1_000 <= dt.ns() < (r.0 + 1) * 1_000                     // #C16 calendar_to_unit_truncates_toward_the_past
//@end
//@fn name=from crate=tea-time ctx="impl From<CrDateTime<Utc>> for DateTime<Nanosecond>" as=from_cr_ns props=C16 arith=C16
//@sig pub fn from_cr_ns(dt: CrDateTime) -> (r: DateTime<Nanosecond>)
//@replace .into() => .into_dt()
//@spec
    requires i64::MIN <= dt.ns() <= i64::MAX,       // within the representable range of the unit (otherwise a documented panic)
    ensures r.0 == dt.ns()                                                 // #C16 calendar_to_unit_truncates_toward_the_past
//@end


// ---- calendar arithmetic of chrono (A-CHRONO): instants are their nanosecond count; the calendar decomposition
// (month index = year*12 + month0, day of month, nanoseconds since midnight) and the month shift are chrono's, abstract here.
pub uninterp spec fn cr_at(ns: int) -> CrDateTime;
pub broadcast axiom fn ax_cr_at(n: int) ensures (#[trigger] cr_at(n)).ns() == n;
pub uninterp spec fn cal_midx(ns: int) -> int;
pub uninterp spec fn cal_day(ns: int) -> int;
pub uninterp spec fn cal_tod(ns: int) -> int;
pub uninterp spec fn cal_make(midx: int, day: int, tod: int) -> int;      // the instant with these calendar fields
pub uninterp spec fn cal_shift(ns: int, months: int) -> int;              // chrono: checked_add_months / checked_sub_months (end-of-month clamping)
pub uninterp spec fn cr_range(ns: int) -> bool;                           // inside chrono's representable range
pub broadcast axiom fn ax_cal_fields(m: int, d: int, t: int)
    requires 1 <= d <= 28, 0 <= t < 86_400_000_000_000,
    ensures cal_midx(#[trigger] cal_make(m, d, t)) == m, cal_day(cal_make(m, d, t)) == d, cal_tod(cal_make(m, d, t)) == t;
pub broadcast axiom fn ax_cal_make(ns: int)
    ensures #[trigger] cal_make(cal_midx(ns), cal_day(ns), cal_tod(ns)) == ns;
pub broadcast axiom fn ax_cal_bounds(ns: int)
    ensures 0 <= #[trigger] cal_tod(ns) < 86_400_000_000_000;
pub broadcast axiom fn ax_cal_day(ns: int)
    ensures 1 <= #[trigger] cal_day(ns) <= 31;
// a month shift keeps the day of month (no clamping up to the 28th) and the time of day; shifting by 0 months is the identity
pub broadcast axiom fn ax_cal_shift(m: int, d: int, t: int, j: int)
    requires 1 <= d <= 28,
    ensures #[trigger] cal_shift(cal_make(m, d, t), j) == cal_make(m + j, d, t);
pub broadcast axiom fn ax_cal_shift0(ns: int) ensures #[trigger] cal_shift(ns, 0) == ns;
pub broadcast group a_chrono { ax_cr_at, ax_dur_of, ax_cal_fields, ax_cal_make, ax_cal_bounds, ax_cal_day, ax_cal_shift, ax_cal_shift0 }

pub struct Months { pub k: u32 }
impl Months {
    pub const fn new(num: u32) -> (r: Months) ensures r.k == num { Months { k: num } }
}
pub struct NaiveTime { pub tod: int }
#[verifier::external_body]
pub fn naive_time_min() -> (r: NaiveTime) ensures r.tod == 0 { unimplemented!() }       // NaiveTime::MIN (R12)
pub struct LocalResultCr { pub v: CrDateTime }
impl LocalResultCr {
    pub fn unwrap(self) -> (r: CrDateTime) ensures r == self.v { self.v }            // a UTC date-time is never ambiguous: always Single
}
#[derive(Debug)]
pub struct RoundingError;
impl CrDateTime {
    #[verifier::external_body]
    pub fn year(&self) -> (r: i32)
        ensures -262_143 <= r <= 262_142, r as int == cal_midx(self.ns()) / 12,
    { unimplemented!() }
    #[verifier::external_body]
    pub fn month0(&self) -> (r: u32)
        ensures r < 12, r as int == cal_midx(self.ns()) % 12,
    { unimplemented!() }
    #[verifier::external_body]
    pub fn with_day(&self, day: u32) -> (r: Option<CrDateTime>)
        ensures 1 <= day <= 28 ==> r.is_some() && r.unwrap().ns() == cal_make(cal_midx(self.ns()), day as int, cal_tod(self.ns())),
    { unimplemented!() }
    #[verifier::external_body]
    pub fn with_time(&self, t: NaiveTime) -> (r: LocalResultCr)
        ensures r.v.ns() == cal_make(cal_midx(self.ns()), cal_day(self.ns()), t.tod),
    { unimplemented!() }
    // chrono::DurationRound::duration_trunc (round.rs): floor to a multiple of the span, on the i64 nanosecond timestamp
    #[verifier::external_body]
    pub fn duration_trunc(self, d: Duration) -> (r: Result<CrDateTime, RoundingError>)
        ensures
            (d.nn() matches Some(n) && n > 0 && i64::MIN <= self.ns() <= i64::MAX) ==> r.is_ok(),
            r matches Ok(c) ==> d.nn().is_some() && d.dns() > 0 && c.ns() == d.dns() * (self.ns() / d.dns()),
    { unimplemented!() }
}
impl core::ops::Add<Months> for CrDateTime { type Output = CrDateTime; #[verifier::external_body] fn add(self, m: Months) -> CrDateTime { unimplemented!() } }
impl AddSpecImpl<Months> for CrDateTime {
    open spec fn obeys_add_spec() -> bool { true }
    open spec fn add_req(self, m: Months) -> bool { true }
    open spec fn add_spec(self, m: Months) -> CrDateTime { cr_at(cal_shift(self.ns(), m.k as int)) }
}
impl core::ops::Sub<Months> for CrDateTime { type Output = CrDateTime; #[verifier::external_body] fn sub(self, m: Months) -> CrDateTime { unimplemented!() } }
impl SubSpecImpl<Months> for CrDateTime {
    open spec fn obeys_sub_spec() -> bool { true }
    open spec fn sub_req(self, m: Months) -> bool { true }
    open spec fn sub_spec(self, m: Months) -> CrDateTime { cr_at(cal_shift(self.ns(), -(m.k as int))) }
}
impl core::ops::Add<Duration> for CrDateTime { type Output = CrDateTime; #[verifier::external_body] fn add(self, d: Duration) -> CrDateTime { unimplemented!() } }
impl AddSpecImpl<Duration> for CrDateTime {
    open spec fn obeys_add_spec() -> bool { true }
    open spec fn add_req(self, d: Duration) -> bool { true }
    open spec fn add_spec(self, d: Duration) -> CrDateTime { cr_at(self.ns() + d.dns()) }
}
impl core::ops::Sub<Duration> for CrDateTime { type Output = CrDateTime; #[verifier::external_body] fn sub(self, d: Duration) -> CrDateTime { unimplemented!() } }
impl SubSpecImpl<Duration> for CrDateTime {
    open spec fn obeys_sub_spec() -> bool { true }
    open spec fn sub_req(self, d: Duration) -> bool { true }
    open spec fn sub_spec(self, d: Duration) -> CrDateTime { cr_at(self.ns() - d.dns()) }
}
impl core::ops::Sub<CrDateTime> for CrDateTime { type Output = Duration; #[verifier::external_body] fn sub(self, o: CrDateTime) -> Duration { unimplemented!() } }
impl SubSpecImpl<CrDateTime> for CrDateTime {
    open spec fn obeys_sub_spec() -> bool { true }
    open spec fn sub_req(self, o: CrDateTime) -> bool { true }
    open spec fn sub_spec(self, o: CrDateTime) -> Duration { dur_of(self.ns() - o.ns()) }
}
pub assume_specification[ i64::abs ](x: i64) -> (r: i64)
    requires x != i64::MIN,
    ensures r as int == (if x < 0 { -(x as int) } else { x as int });
pub assume_specification[ i32::abs ](x: i32) -> (r: i32)
    requires x != i32::MIN,
    ensures r as int == (if x < 0 { -(x as int) } else { x as int });
pub assume_specification[ i32::rem_euclid ](x: i32, d: i32) -> (r: i32)
    requires d != 0, !(x == i32::MIN && d == -1),
    ensures d > 0 ==> r as int == (x as int) % (d as int);       // Verus' int % is Euclidean

// the four resolutions, generically: conversions to / from the calendar type are the extracted, verified functions above
pub trait UnitConv: TimeUnitTrait {
    fn try_into_cr(d: &DateTime<Self>) -> (r: TResult<CrDateTime>)
        ensures
            r matches Ok(c) ==> c.ns() == d.0 * Self::unit_spec().nanos(),
            cr_range(d.0 * Self::unit_spec().nanos()) ==> r.is_ok(),
            supported(Self::unit_spec());
    fn from_cr(c: CrDateTime) -> (r: DateTime<Self>)
        requires Self::unit_spec() == TimeUnit::Nanosecond ==> i64::MIN <= c.ns() <= i64::MAX,
        ensures r.0 * Self::unit_spec().nanos() <= c.ns() < (r.0 + 1) * Self::unit_spec().nanos();
}
impl UnitConv for Second {
    fn try_into_cr(d: &DateTime<Second>) -> TResult<CrDateTime> { try_from_s(DateTime(d.0, PhantomData)) }
    fn from_cr(c: CrDateTime) -> DateTime<Second> { from_cr_s(c) }
}
impl UnitConv for Millisecond {
    fn try_into_cr(d: &DateTime<Millisecond>) -> TResult<CrDateTime> { try_from_ms(DateTime(d.0, PhantomData)) }
    fn from_cr(c: CrDateTime) -> DateTime<Millisecond> { from_cr_ms(c) }
}
impl UnitConv for Microsecond {
    fn try_into_cr(d: &DateTime<Microsecond>) -> TResult<CrDateTime> { try_from_us(DateTime(d.0, PhantomData)) }
    fn from_cr(c: CrDateTime) -> DateTime<Microsecond> { from_cr_us(c) }
}
impl UnitConv for Nanosecond {
    fn try_into_cr(d: &DateTime<Nanosecond>) -> TResult<CrDateTime> { try_from_ns(DateTime(d.0, PhantomData)) }
    fn from_cr(c: CrDateTime) -> DateTime<Nanosecond> { from_cr_ns(c) }
}
// `x.into()` for x: chrono date-time is From<CrDateTime<Utc>> for DateTime<U> (R12: `.into()` -> `.cr_into()`)
impl CrDateTime {
    pub fn cr_into<U: UnitConv>(self) -> (r: DateTime<U>)
        requires U::unit_spec() == TimeUnit::Nanosecond ==> i64::MIN <= self.ns() <= i64::MAX,
        ensures r.0 * U::unit_spec().nanos() <= self.ns() < (r.0 + 1) * U::unit_spec().nanos(),
    { U::from_cr(self) }
}
pub open spec fn unit_floor<U: TimeUnitTrait>(r: DateTime<U>, ns: int) -> bool {
    r.0 * U::unit_spec().nanos() <= ns < (r.0 + 1) * U::unit_spec().nanos()
}
pub open spec fn dt_ns<U: TimeUnitTrait>(d: DateTime<U>) -> int { d.0 * U::unit_spec().nanos() }
// within range for the operators: the operand converts, and a nanosecond-resolution result fits (documented panics otherwise)
pub open spec fn fits<U: TimeUnitTrait>(ns: int) -> bool { U::unit_spec() == TimeUnit::Nanosecond ==> i64::MIN <= ns <= i64::MAX }

impl<U: UnitConv> DateTime<U> {
//@fn name=as_cr crate=tea-time ctx="impl<U: TimeUnitTrait> DateTime<U>" props=C16,C17
//@sig pub fn as_cr(&self) -> (r: Option<CrDateTime>)
//@replace (*self).try_into() => U::try_into_cr(self)
//@spec
    ensures
        self.0 == i64::MIN ==> r.is_none(),                              // #C16 nat_has_no_calendar_value
        r matches Some(c) ==> c.ns() == dt_ns(*self),                    // #C16,C17 calendar_value_is_the_same_instant
        (self.0 != i64::MIN && cr_range(dt_ns(*self))) ==> r.is_some(),  // #C16 in_range_converts
//@end

//@fn name=duration_trunc crate=tea-time ctx="impl<U: TimeUnitTrait> DateTime<U>" props=C16,C17 arith=C17
//@sig pub fn duration_trunc(self, duration: TimeDelta) -> (r: Self)
//@replace NaiveTime::MIN => naive_time_min()
//@replace .into() => .cr_into()
//@spec
    requires
        // the property's domain: a convertible instant and either a positive month-free span or a whole number of months
        self.0 != i64::MIN ==> {
            &&& cr_range(dt_ns(self))
            &&& (duration.months < 0 ==> panic_allowed())                                  // negative months / NaT duration: documented `unimplemented!`
            &&& (duration.months == 0 ==> duration.inner.nn().is_some() && duration.inner.dns() > 0 && i64::MIN <= dt_ns(self) <= i64::MAX)
            &&& (duration.months > 0 ==> duration.inner.dns() == 0)
            // a nanosecond-resolution result must be representable (otherwise: documented panic of the conversion)
            &&& ((U::unit_spec() == TimeUnit::Nanosecond && duration.months == 0) ==> i64::MIN <= duration.inner.dns() * (dt_ns(self) / duration.inner.dns()))
            &&& ((U::unit_spec() == TimeUnit::Nanosecond && duration.months > 0) ==>
                    i64::MIN <= cal_make(duration.months * (cal_midx(dt_ns(self)) / (duration.months as int)), 1, 0) <= i64::MAX)
        },
    ensures
        self.0 == i64::MIN ==> r.0 == i64::MIN,                                              // #C16 nat_preserved
        // month-free: the greatest multiple of the duration not after the instant (then expressed in the unit)
        (self.0 != i64::MIN && duration.months == 0 && duration.inner.nn().is_some() && duration.inner.dns() > 0) ==>
            unit_floor(r, duration.inner.dns() * (dt_ns(self) / duration.inner.dns())),      // #C17 greatest_multiple_not_after
        // whole months: the first instant of the calendar block of `months` months (aligned to January) containing the instant
        (self.0 != i64::MIN && duration.months > 0 && duration.inner.dns() == 0) ==>
            unit_floor(r, cal_make(duration.months * (cal_midx(dt_ns(self)) / (duration.months as int)), 1, 0)),    // #C17 first_instant_of_the_month_block
//@at body first
    broadcast use a_chrono;
    proof {
        let x = dt_ns(self);
        if duration.months > 0 {
            vstd::arithmetic::div_mod::lemma_fundamental_div_mod(cal_midx(x), duration.months as int);
            vstd::arithmetic::div_mod::lemma_mod_bound(cal_midx(x), duration.months as int);
            vstd::arithmetic::div_mod::lemma_fundamental_div_mod(cal_midx(x), 12);
        }
        if duration.months == 0 && duration.inner.dns() > 0 {
            vstd::arithmetic::div_mod::lemma_fundamental_div_mod(x, duration.inner.dns());
            vstd::arithmetic::div_mod::lemma_mod_bound(x, duration.inner.dns());
        }
    }
//@end
}


impl TimeDelta {
//@fn name=nat crate=tea-time ctx="impl TimeDelta" props=C16
//@sig pub const fn nat() -> (r: Self)
//@spec
    ensures r.months == i32::MIN
//@end
}

// what `date-time (+|-) delta` must be, from the property: NaT absorbs; otherwise the calendar shift by the months (chrono's),
// then the exact shift by the month-free part, expressed in the unit (truncated toward the past when the unit is coarser)
pub open spec fn dt_shift_ok<U: TimeUnitTrait>(t: DateTime<U>, d: TimeDelta, sign: int, r: DateTime<U>) -> bool {
    &&& (t.0 == i64::MIN || d.months == i32::MIN) ==> r.0 == i64::MIN
    &&& (t.0 != i64::MIN && d.months != i32::MIN) ==> unit_floor(r, cal_shift(dt_ns(t), sign * d.months) + sign * d.inner.dns())
}

//@fn name=add crate=tea-time ctx="impl<U: TimeUnitTrait> Add<TimeDelta> for DateTime<U>" as=dt_add props=C16,C17 arith=C17
//@sig pub fn dt_add<U: UnitConv>(this: DateTime<U>, rhs: TimeDelta) -> (r: DateTime<U>)
//@replace .into() => .cr_into()
//@replace DateTime::nat() => DateTime::<U>::nat()
//@spec
    requires
        (this.0 != i64::MIN && rhs.months != i32::MIN) ==> cr_range(dt_ns(this)) && fits::<U>(cal_shift(dt_ns(this), rhs.months as int) + rhs.inner.dns()),
    ensures dt_shift_ok(this, rhs, 1, r),            // #C16,C17 datetime_plus_duration
//@at body first
    broadcast use a_chrono;
//@end

//@fn name=sub crate=tea-time ctx="impl<U: TimeUnitTrait> Sub<TimeDelta> for DateTime<U>" as=dt_sub props=C16,C17 arith=C17
//@sig pub fn dt_sub<U: UnitConv>(this: DateTime<U>, rhs: TimeDelta) -> (r: DateTime<U>)
//@replace .into() => .cr_into()
//@replace DateTime::nat() => DateTime::<U>::nat()
//@spec
    requires
        (this.0 != i64::MIN && rhs.months != i32::MIN) ==> cr_range(dt_ns(this)) && fits::<U>(cal_shift(dt_ns(this), -(rhs.months as int)) - rhs.inner.dns()),
    ensures dt_shift_ok(this, rhs, -1, r),           // #C16,C17 datetime_minus_duration
//@at body first
    broadcast use a_chrono;
//@end

//@fn name=sub crate=tea-time ctx="impl<U: TimeUnitTrait> Sub<DateTime<U>> for DateTime<U>" as=dt_diff props=C16,C17
//@sig pub fn dt_diff<U: UnitConv>(this: DateTime<U>, rhs: DateTime<U>) -> (r: TimeDelta)
//@spec
    requires (this.0 != i64::MIN && rhs.0 != i64::MIN) ==> cr_range(dt_ns(this)) && cr_range(dt_ns(rhs)),
    ensures
        (this.0 == i64::MIN || rhs.0 == i64::MIN) ==> r.months == i32::MIN,                             // #C16 nat_absorbs
        (this.0 != i64::MIN && rhs.0 != i64::MIN) ==> r.months == 0 && r.inner.dns() == dt_ns(this) - dt_ns(rhs),    // #C17 difference_is_exact
//@at body first
    broadcast use a_chrono;
//@end

// inverse laws, over the contracts only.  A month-free duration that is a whole number of units shifts exactly, so adding and
// subtracting it returns the original instant, and (a - b) + b == a.
proof fn lemma_dt_shift_inverse<U: TimeUnitTrait>(t: DateTime<U>, d: TimeDelta, a: DateTime<U>, b: DateTime<U>, k: int)       // #C17
    requires
        supported(U::unit_spec()), t.0 != i64::MIN, d.months == 0, d.inner.dns() == k * U::unit_spec().nanos(),
        dt_shift_ok(t, d, 1, a), a.0 != i64::MIN, dt_shift_ok(a, d, -1, b),
    ensures a.0 == t.0 + k, b.0 == t.0,
{
    broadcast use a_chrono;
    let q = U::unit_spec().nanos();
    assert(q == 1 || q == 1_000 || q == 1_000_000 || q == 1_000_000_000);
    lemma_unit_exact(a.0 as int, t.0 + k, q);
    assert((t.0 + k) * q == t.0 * q + k * q) by(nonlinear_arith);
    lemma_unit_exact(b.0 as int, t.0 as int, q);
    assert(a.0 * q - k * q == t.0 * q) by(nonlinear_arith) requires a.0 == t.0 + k;
}
proof fn lemma_unit_exact(y: int, x: int, q: int)
    requires q >= 1,
    ensures (y * q <= x * q < (y + 1) * q) ==> y == x,
{
    if y * q <= x * q < (y + 1) * q {
        assert(y == x) by(nonlinear_arith) requires q >= 1, y * q <= x * q, x * q < (y + 1) * q;
    }
}
proof fn lemma_dt_diff_then_add<U: TimeUnitTrait>(a: DateTime<U>, b: DateTime<U>, d: TimeDelta, r: DateTime<U>)       // #C17
    requires
        supported(U::unit_spec()), a.0 != i64::MIN, b.0 != i64::MIN, d.months == 0, d.inner.dns() == dt_ns(a) - dt_ns(b),
        dt_shift_ok(b, d, 1, r),
    ensures r.0 == a.0,
{
    broadcast use a_chrono;
    let q = U::unit_spec().nanos();
    assert(q == 1 || q == 1_000 || q == 1_000_000 || q == 1_000_000_000);
    lemma_unit_exact(r.0 as int, a.0 as int, q);
}

// ---- the duration group (C17): NaT absorbs, otherwise componentwise
// `a & b` on bools (both operands evaluated; Verus has no non-short-circuit `&`): R12 `a & b` -> band(a, b)
pub fn band(a: bool, b: bool) -> (r: bool) ensures r == (a && b) { a && b }
pub open spec fn td_is(r: TimeDelta, months: int, dns: int) -> bool { r.months == months && r.inner.dns() == dns }

//@fn name=neg crate=tea-time ctx="impl Neg for TimeDelta" as=td_neg props=C16,C17 arith=C17
//@sig pub fn td_neg(this: TimeDelta) -> (r: TimeDelta)
//@replace Self { => TimeDelta {
//@spec
    ensures
        this.months == i32::MIN ==> r.months == i32::MIN,                              // #C16 nat_absorbs
        this.months != i32::MIN ==> td_is(r, -this.months, -this.inner.dns()),         // #C17 negation_componentwise
//@at body first
    broadcast use a_chrono;
//@end

//@fn name=add crate=tea-time ctx="impl Add for TimeDelta" as=td_add props=C16,C17 arith=C17
//@sig pub fn td_add(this: TimeDelta, rhs: TimeDelta) -> (r: TimeDelta)
//@replace Self { => TimeDelta {
//@replace this.is_not_nat() & rhs.is_not_nat() => band(this.is_not_nat(), rhs.is_not_nat())
//@spec
    requires (this.months != i32::MIN && rhs.months != i32::MIN) ==> i32::MIN < this.months + rhs.months <= i32::MAX,        // within range
    ensures
        (this.months == i32::MIN || rhs.months == i32::MIN) ==> r.months == i32::MIN,                                         // #C16 nat_absorbs
        (this.months != i32::MIN && rhs.months != i32::MIN) ==> td_is(r, this.months + rhs.months, this.inner.dns() + rhs.inner.dns()),   // #C17 addition_componentwise
//@at body first
    broadcast use a_chrono;
//@end

//@fn name=sub crate=tea-time ctx="impl Sub for TimeDelta" as=td_sub props=C16,C17 arith=C17
//@sig pub fn td_sub(this: TimeDelta, rhs: TimeDelta) -> (r: TimeDelta)
//@replace Self { => TimeDelta {
//@replace this.is_not_nat() & rhs.is_not_nat() => band(this.is_not_nat(), rhs.is_not_nat())
//@spec
    requires (this.months != i32::MIN && rhs.months != i32::MIN) ==> i32::MIN < this.months - rhs.months <= i32::MAX,
    ensures
        (this.months == i32::MIN || rhs.months == i32::MIN) ==> r.months == i32::MIN,                                         // #C16 nat_absorbs
        (this.months != i32::MIN && rhs.months != i32::MIN) ==> td_is(r, this.months - rhs.months, this.inner.dns() - rhs.inner.dns()),   // #C17 subtraction_componentwise
//@at body first
    broadcast use a_chrono;
//@end

//@fn name=mul crate=tea-time ctx="impl Mul<i32> for TimeDelta" as=td_mul props=C16,C17 arith=C17
//@sig pub fn td_mul(this: TimeDelta, rhs: i32) -> (r: TimeDelta)
//@replace Self { => TimeDelta {
//@spec
    requires this.months != i32::MIN ==> i32::MIN < this.months * rhs <= i32::MAX,
    ensures
        this.months == i32::MIN ==> r.months == i32::MIN,                                              // #C16 nat_absorbs
        this.months != i32::MIN ==> td_is(r, this.months * rhs, this.inner.dns() * rhs),               // #C17 scaling_componentwise
//@at body first
    broadcast use a_chrono;
//@end

// group laws and distributivity follow from the componentwise contracts (integers form a ring)
proof fn lemma_td_group(am: int, an: int, bm: int, bn: int, k: int)       // #C17
    ensures
        (am + bm) - bm == am && (an + bn) - bn == an,                      // (a + b) - b == a
        am + (-am) == 0 && an + (-an) == 0,                                // a + (-a) == 0
        (am + bm) * k == am * k + bm * k && (an + bn) * k == an * k + bn * k,   // (a + b) * k == a*k + b*k
{
    assert((am + bm) * k == am * k + bm * k) by(nonlinear_arith);
    assert((an + bn) * k == an * k + bn * k) by(nonlinear_arith);
}

// to the calendar type and back is the identity (over the two contracts)
proof fn lemma_calendar_round_trip(x: int, q: int, n: int, y: int)       // #C16 calendar_round_trip
    requires q >= 1, n == x * q, y * q <= n < (y + 1) * q,
    ensures y == x,
{
    assert(y == x) by(nonlinear_arith) requires q >= 1, n == x * q, y * q <= n, n < (y + 1) * q;
}

// finer and back is the identity (corollary of the two clauses above, stated over the contract only)
proof fn lemma_finer_and_back(x: int, q: int, y: int, z: int)
    requires q >= 1, y == x * q, z * q <= y < (z + 1) * q,
    ensures z == x,
{
    assert(z == x) by(nonlinear_arith) requires q >= 1, y == x * q, z * q <= y, y < (z + 1) * q;
}

} // verus!
fn main() {}
