use vstd::prelude::*;
use std::marker::PhantomData;
verus! {
//@include prelude.rs

// ---- transcription of tea-time's unit vocabulary (A-EXTRACT): enum + marker trait
#[derive(Structural, PartialEq, Eq, Clone, Copy)]
pub enum TimeUnit { Year, Month, Day, Hour, Minute, Second, Millisecond, Microsecond, Nanosecond }
impl TimeUnit {
    // nanoseconds per unit, for the four units into_unit supports; 0 otherwise
    pub open spec fn nanos(self) -> int {
        match self {
            TimeUnit::Second => 1_000_000_000,
            TimeUnit::Millisecond => 1_000_000,
            TimeUnit::Microsecond => 1_000,
            TimeUnit::Nanosecond => 1,
            _ => 0,
        }
    }
}
pub trait TimeUnitTrait: Sized {
    spec fn unit_spec() -> TimeUnit;
    fn unit() -> (r: TimeUnit) ensures r == Self::unit_spec();
}
pub struct DateTime<U: TimeUnitTrait>(pub i64, pub PhantomData<U>);

pub assume_specification[ i64::div_euclid ](x: i64, d: i64) -> (r: i64)
    requires d != 0, !(x == i64::MIN && d == -1),
    ensures d > 0 ==> r as int == (x as int) / (d as int);     // Verus' int division is Euclidean (SMT-LIB div)

// std::mem::transmute::<DateTime<U>, DateTime<T>>: sound only between identical layouts; effect = same payload (trusted)
#[verifier::external_body]
pub fn transmute_dt<U: TimeUnitTrait, T: TimeUnitTrait>(d: DateTime<U>) -> (r: DateTime<T>)
    requires U::unit_spec() == T::unit_spec(),
    ensures r.0 == d.0,
{ unimplemented!() }

//@const crate=tea-time name=NANOS_PER_MICRO
//@const crate=tea-time name=NANOS_PER_MILLI
//@const crate=tea-time name=NANOS_PER_SEC
//@const crate=tea-time name=MICROS_PER_MILLI
//@const crate=tea-time name=MICROS_PER_SEC
//@const crate=tea-time name=MILLIS_PER_SEC

impl<U: TimeUnitTrait> DateTime<U> {
//@fn name=new crate=tea-time ctx="impl<U: TimeUnitTrait> DateTime<U>" nth=1 props=C16
//@sig pub const fn new(dt: i64) -> (r: Self)
//@spec
    ensures r.0 == dt
//@end

//@fn name=is_nat crate=tea-time ctx="impl<U: TimeUnitTrait> DateTime<U>" nth=1 props=C16
//@sig pub const fn is_nat(&self) -> (r: bool)
//@spec
    ensures r == (self.0 == i64::MIN)        // #C16 nat_is_min
//@end

//@fn name=is_not_nat crate=tea-time ctx="impl<U: TimeUnitTrait> DateTime<U>" nth=1 props=C16
//@sig pub const fn is_not_nat(&self) -> (r: bool)
//@spec
    ensures r == (self.0 != i64::MIN)        // #C16 not_nat_is_negation
//@end

//@fn name=nat crate=tea-time ctx="impl<U: TimeUnitTrait> DateTime<U>" nth=1 props=C16
//@sig pub const fn nat() -> (r: Self)
//@spec
    ensures r.0 == i64::MIN
//@end

//@fn name=into_opt_i64 crate=tea-time ctx="impl<U: TimeUnitTrait> DateTime<U>" nth=1 props=C16
//@sig pub const fn into_opt_i64(self) -> (r: Option<i64>)
//@spec
    ensures r == (if self.0 == i64::MIN { None } else { Some(self.0) })      // #C16 nat_to_none
//@end

//@fn name=from_opt_i64 crate=tea-time ctx="impl<U: TimeUnitTrait> DateTime<U>" nth=1 props=C16
//@sig pub const fn from_opt_i64(v: Option<i64>) -> (r: Self)
//@spec
    ensures v.is_none() ==> r.0 == i64::MIN, v.is_some() ==> r.0 == v.unwrap()     // #C16 none_to_nat
//@end
}

pub open spec fn supported(u: TimeUnit) -> bool {
    u == TimeUnit::Second || u == TimeUnit::Millisecond || u == TimeUnit::Microsecond || u == TimeUnit::Nanosecond
}

//@fn name=into_unit crate=tea-time ctx="impl<U: TimeUnitTrait> DateTime<U>" props=C16 arith=C16
//@sig pub fn into_unit<U: TimeUnitTrait, T: TimeUnitTrait>(this: DateTime<U>) -> (r: DateTime<T>)
//@replace DateTime::nat() => DateTime::<T>::nat()
//@replace std::mem::transmute::<DateTime<U>, DateTime<T>> => transmute_dt
//@replace use TimeUnit::*; => 
//@replace (Nanosecond, => (TimeUnit::Nanosecond,
//@replace (Microsecond, => (TimeUnit::Microsecond,
//@replace (Millisecond, => (TimeUnit::Millisecond,
//@replace (Second, => (TimeUnit::Second,
//@replace , Nanosecond) => , TimeUnit::Nanosecond)
//@replace , Microsecond) => , TimeUnit::Microsecond)
//@replace , Millisecond) => , TimeUnit::Millisecond)
//@replace , Second) => , TimeUnit::Second)
//@at body last
    proof {
        let un = U::unit_spec().nanos();
        let tn = T::unit_spec().nanos();
        assert(un == 1 || un == 1_000 || un == 1_000_000 || un == 1_000_000_000);
        assert(tn == 1 || tn == 1_000 || tn == 1_000_000 || tn == 1_000_000_000);
    }
//@spec
    requires
        supported(U::unit_spec()) && supported(T::unit_spec()),       // the four resolutions of the property; others: unimplemented!() panic
        // converting to a finer unit: the instant must be representable there (otherwise the product overflows)
        (this.0 != i64::MIN && U::unit_spec().nanos() > T::unit_spec().nanos()) ==>
            i64::MIN * T::unit_spec().nanos() < this.0 * U::unit_spec().nanos() <= i64::MAX * T::unit_spec().nanos(),
    ensures
        this.0 == i64::MIN ==> r.0 == i64::MIN,                                              // #C16 nat_preserved
        // instants compared in nanoseconds: value * nanos-per-unit.
        // coarser (or equal) target: the same instant truncated toward the past (floor), also before 1970
        (this.0 != i64::MIN && U::unit_spec().nanos() <= T::unit_spec().nanos()) ==>
            r.0 * T::unit_spec().nanos() <= this.0 * U::unit_spec().nanos() < (r.0 + 1) * T::unit_spec().nanos(),      // #C16 truncated_toward_the_past
        // finer target: exactly the same instant
        (this.0 != i64::MIN && U::unit_spec().nanos() > T::unit_spec().nanos()) ==>
            r.0 * T::unit_spec().nanos() == this.0 * U::unit_spec().nanos(),                                           // #C16 finer_is_exact
//@end

// finer and back is the identity (corollary of the two clauses above, stated over the contract only)
proof fn lemma_finer_and_back(x: int, q: int, y: int, z: int)
    requires q >= 1, y == x * q, z * q <= y < (z + 1) * q,
    ensures z == x,
{
    assert(z == x) by(nonlinear_arith) requires q >= 1, y == x * q, z * q <= y, y < (z + 1) * q;
}

} // verus!
fn main() {}
