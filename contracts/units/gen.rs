use vstd::prelude::*;
use vstd::std_specs::ops::*;
use vstd::std_specs::cmp::*;
verus! {
//@include prelude.rs
//@include assume_real.rs
//@include dtype.rs
//@include iter.rs
//@include cutmodel.rs

// exact (integer) instantiation of the generators: T = i64
pub type T = i64;
impl Cast<i64> for usize {
    open spec fn cast_spec(self) -> i64 { self as i64 }
    #[verifier::external_body]
    fn cast(self) -> i64 { self as i64 }
}
impl Cast<usize> for i64 {
    open spec fn cast_spec(self) -> usize { self as usize }
    #[verifier::external_body]
    fn cast(self) -> usize { self as usize }
}

// tea-core linspace.rs `struct Linspace<T>` (transcribed, A-EXTRACT)
pub struct Linspace { pub start: T, pub step: T, pub index: usize, pub len: usize }

pub open spec fn small(v: i64) -> bool { -0x4000_0000 <= v <= 0x4000_0000 }
pub open spec fn stepok(v: i64) -> bool { -0x8000_0000 <= v <= 0x8000_0000 }
pub proof fn lemma_small_mul(s: int, k: int)
    requires -0x8000_0000 <= s <= 0x8000_0000, 0 <= k <= 0x8000_0001,
    ensures -0x4000_0000_8000_0000 <= s * k <= 0x4000_0000_8000_0000,
{
    assert(-0x4000_0000_8000_0000 <= s * k <= 0x4000_0000_8000_0000) by(nonlinear_arith) requires -0x8000_0000 <= s <= 0x8000_0000, 0 <= k <= 0x8000_0001;
}
impl Linspace {
    // what plain iteration will still yield
    pub open spec fn seq(&self) -> Seq<int> {
        Seq::new((self.len - self.index) as nat, |k: int| self.start + self.step * (self.index + k))
    }
    pub open spec fn wf(&self) -> bool {
        &&& self.index <= self.len <= 0x8000_0001
        &&& small(self.start) && stepok(self.step)
    }
//@fn name=next crate=tea-core ctx="impl<T> Iterator for Linspace<T>" props=C19,C09 arith=C19
//@sig pub fn next(&mut self) -> (r: Option<T>)
//@spec
    requires old(self).wf(),
    ensures
        final(self).wf(), final(self).start == old(self).start, final(self).step == old(self).step,
        old(self).seq().len() == 0 ==> r.is_none() && final(self).seq() =~= old(self).seq(),
        old(self).seq().len() > 0 ==> r == Some(old(self).seq()[0] as i64) && final(self).seq() =~= old(self).seq().skip(1),     // #C19,C09 yields_next_element
//@at body first
    proof { lemma_small_mul(self.step as int, self.index as int); }
//@end

//@fn name=size_hint crate=tea-core ctx="impl<T> Iterator for Linspace<T>" props=C09 arith=C09
//@sig pub fn size_hint(&self) -> (r: (usize, Option<usize>))
//@spec
    requires self.wf(),
    ensures r.0 == self.seq().len(), r.1 == Some(self.seq().len() as usize),     // #C09 size_hint_is_exact
//@end

//@fn name=next_back crate=tea-core ctx="impl<T> DoubleEndedIterator for Linspace<T>" props=C19,C09 arith=C19
//@sig pub fn next_back(&mut self) -> (r: Option<T>)
//@spec
    requires old(self).wf(),
    ensures
        final(self).wf(), final(self).start == old(self).start, final(self).step == old(self).step,
        old(self).seq().len() == 0 ==> r.is_none() && final(self).seq() =~= old(self).seq(),
        old(self).seq().len() > 0 ==> r == Some(old(self).seq().last() as i64) && final(self).seq() =~= old(self).seq().drop_last(),   // #C19,C09 yields_last_element
//@at body first
    proof { if self.len > 0 { lemma_small_mul(self.step as int, self.len as int - 1); } }
//@end
}

//@fn name=linspace crate=tea-core ctx="mod linspace" props=C19,C09 arith=C19
//@sig pub fn linspace(a: T, b: T, n: usize) -> (r: Linspace)
//@spec
    requires small(a), small(b), n <= 0x8000_0000,
    ensures
        r.wf(), r.index == 0, r.len == n,                     // #C19,C09 exactly_n_elements
        r.start == a,                                          // #C19 starts_at_start
        // constant step: the quotient (b - a) / (n - 1), truncated toward zero for integers
        (n > 1 && b >= a) ==> r.step as int == (b - a) / ((n - 1) as int),       // #C19 constant_step
        (n > 1 && b < a) ==> r.step as int == -((a - b) / ((n - 1) as int)),     // #C19 constant_step
        n <= 1 ==> r.step == 0,
//@end

//@fn name=range crate=tea-core ctx="mod linspace" props=C19,C09 arith=C19
//@sig pub fn range(a: T, b: T, step: T) -> (r: Linspace)
//@at body first
    proof {
        if step > 0 && a < b {
            let q = (b - a) / (step as int);
            vstd::arithmetic::div_mod::lemma_fundamental_div_mod(b - a, step as int);
            vstd::arithmetic::div_mod::lemma_mod_bound(b - a, step as int);
            assert(0 <= q <= b - a) by(nonlinear_arith) requires b - a == step * q + (b - a) % (step as int), 0 <= (b - a) % (step as int) < step, step >= 1, b - a > 0;
            assert(q <= 0x8000_0000);
            let st = step as int;
            assert((q + 1) * st == st * q + st && (q - 1) * st == st * q - st && q * st == st * q) by(nonlinear_arith);
            lemma_small_mul(step as int, q);
            lemma_small_mul(step as int, q + 1);
        }
    }
//@at body last
    proof {
        if a < b {
            let q = (b - a) / (step as int);
            let st = step as int;
            let nn = __ret.len as int;
            assert(nn == q || nn == q + 1);
            assert((nn - 1) * st == nn * st - st) by(nonlinear_arith);
            if nn == q { assert(nn * st == st * q) by(nonlinear_arith) requires nn == q; }
            else { assert(nn * st == st * q + st) by(nonlinear_arith) requires nn == q + 1; }
            let rem = (b - a) % st;
            assert(b - a == st * q + rem && 0 <= rem < st);
            assert(nn == q <==> rem == 0);
            if q == 0 { assert(st * q == 0) by(nonlinear_arith) requires q == 0; }
            assert(nn >= 1);
            assert(a + (nn - 1) * st < b);
            assert(b <= a + nn * st);
        }
    }
//@spec
    // ascending integer ranges; the descending case (step < 0) divides two negative i64, which Verus leaves unspecified for
    // exec code: it is decided by the Kani harnesses k_gen::range_* on the real code (complete over the stated i32 band)
    requires small(a), small(b), small(step), step > 0,
    ensures
        r.wf(), r.index == 0, r.start == a, r.step == step,
        // exactly the progression a, a+step, ... lying strictly before b in the direction of the step: none missing, none beyond
        step > 0 ==> (r.len == 0 <==> a >= b) && (r.len > 0 ==> a + (r.len - 1) * step < b <= a + r.len * step),      // #C19 none_missing_none_beyond
//@end


// ---- tea-core trusted.rs `struct TrustIter<I>` (transcribed, A-EXTRACT; the wrapped iterator is the abstract It<A>).
// The length given at construction is a promise (C09 obligation at every construction site, iter.rs `to_trust`); these contracts
// say that the wrapper keeps the promise true while it is being consumed, from either end.
pub struct TrustIter<A> { pub iter: It<A>, pub len: usize }
impl<A> TrustIter<A> {
    pub open spec fn honest(&self) -> bool { self.iter.forever().is_none() && self.len == self.iter.seq().len() }
//@fn name=next crate=tea-core ctx="impl<I> Iterator for TrustIter<I>" as=trust_iter_next props=C09 arith=C09
//@sig pub fn trust_iter_next(&mut self) -> (r: Option<A>)
//@spec
    requires old(self).honest(),
    ensures
        final(self).honest(),                                             // #C09 announced_length_follows_consumption
        old(self).iter.seq().len() == 0 ==> r.is_none(),
        old(self).iter.seq().len() > 0 ==> r == Some(old(self).iter.seq()[0]) && final(self).iter.seq() == old(self).iter.seq().skip(1),
//@end
//@fn name=next_back crate=tea-core ctx="impl<I> DoubleEndedIterator for TrustIter<I>" as=trust_iter_next_back props=C09 arith=C09
//@sig pub fn trust_iter_next_back(&mut self) -> (r: Option<A>)
//@spec
    requires old(self).honest(),
    ensures
        final(self).honest(),                                             // #C09 announced_length_follows_consumption
        old(self).iter.seq().len() == 0 ==> r.is_none(),
        old(self).iter.seq().len() > 0 ==> r == Some(old(self).iter.seq().last()) && final(self).iter.seq() == old(self).iter.seq().drop_last(),
//@end
//@fn name=size_hint crate=tea-core ctx="impl<I> Iterator for TrustIter<I>" as=trust_iter_size_hint props=C09
//@sig pub fn trust_iter_size_hint(&self) -> (r: (usize, Option<usize>))
//@spec
    ensures r == (self.len, Some(self.len)),                              // #C09 size_hint_is_the_stored_length
//@end
}

} // verus!
fn main() {}
