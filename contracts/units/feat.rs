use vstd::prelude::*;
use vstd::std_specs::ops::*;
use vstd::std_specs::cmp::*;
verus! {
//@include prelude.rs
//@include assume_real.rs
//@include dtype.rs
//@include dtype_optcast.rs
//@include lemmas/window.rs

pub type T = ${T};
pub type U = ${U};

//@const crate=tea-core name=EPS

// effective min_periods as the PROPERTY defines it (C05): min(mp or floor(w/2), w) raised to the intrinsic minimum
pub open spec fn mp_eff(mp: Option<usize>, window: usize, intrinsic: int) -> int {
    let m = match mp { Some(m) => m as int, None => (window / 2) as int };
    let m2 = if m <= window { m } else { window as int };
    if m2 >= intrinsic { m2 } else { intrinsic }
}

// ---- statistic specs over the value view of one window (from the property statement)
pub open spec fn isnull(o: U) -> bool { o.opt().is_none() }
pub open spec fn oval(o: U) -> real { o.opt().unwrap().rval() }

pub open spec fn sum_spec(w: Seq<Option<real>>, mp: int, o: U) -> bool {
    if cnt(w) >= mp { !isnull(o) && oval(o) == ps(w, 1) } else { isnull(o) }
}

//@fn name=ts_vsum_to crate=tea-rolling ctx="pub trait RollingValidFeature" props=C01,C05
//@types T::Inner=${TI}
//@sig fn ts_vsum_to<V: RollingDrivers<T>, O: Vec1<U>>(this: &V, window: usize, min_periods: Option<usize>, out: Option<&mut O::Buf>) -> (r: Option<O>)
//@spec
    requires
        canon_seq(this.view()),
        out matches Some(o) ==> buf_fresh(o, this.view().len()),
        (window == 0 && out.is_none() && this.view().len() > 0) ==> panic_allowed(),
    ensures
        window >= 1 ==> delivered_each(r, match out { Some(o) => Some(final(o).written()), None => None }, this.view().len(),       // #C05 one_output_per_input
            |i: int, o: U| sum_spec(vals(wnd(this.view(), window, i)), mp_eff(min_periods, window, 0), o)),                              // #C01,C05 value_and_mask
//@closure 1 name=CloVsum trait="RollingFn<T, U>" params="v_rm: Option<T>, v: T" ret="(res: U)" push="Call { rm: v_rm, v: v, out: __r }" caps="mut n: usize, mut sum: ${TI}, min_periods: usize"
//@closure 1 extra
    open spec fn hist(&self) -> Seq<Call<T, U>> { self.h@ }
    open spec fn elem_ok(v: T) -> bool { canon(v) }
//@closure 1 inv
        &&& hist_wf(self.h@) && canon_seq(adds(self.h@))
        &&& self.n as int == cnt(vals(win(self.h@)))
        &&& self.sum.rval() == ps(vals(win(self.h@)), 1) && !self.sum.is_nanv()
        &&& outs_ok(self.h@, |w: Seq<T>, o: U| sum_spec(vals(w), self.min_periods as int, o))
//@at closure 1 first
        proof {
            broadcast use a_real;
            lemma_step_vals(self.h@, v_rm, v);
        }
//@at closure 1 last
        proof {
            let c = Call { rm: v_rm, v: v, out: __r };
            lemma_fifo_step(self.h@, c);
            if v_rm.is_some() { assert(v_rm.unwrap() == adds(self.h@).push(v)[nrm(self.h@) as int]); }
            assert(adds(self.h@.push(c)) =~= adds(self.h@).push(v));
            lemma_outs_step(self.h@, c, |w: Seq<T>, o: U| sum_spec(vals(w), self.min_periods as int, o));
        }
//@at body first
    let ghost mp0 = min_periods;
    let ghost out0 = out;
//@at body last
    proof {
        let h = __clo1.h@;
        let s = outs(h);
        if window >= 1 {
            let p = |i: int, o: U| sum_spec(vals(wnd(this.view(), window, i)), mp_eff(mp0, window, 0), o);
            assert forall|i: int| 0 <= i < s.len() implies p(i, #[trigger] s[i]) by {
                lemma_fifo_window_is_wnd(h, this.view(), window, i);
                assert(sum_spec(vals(fifo_window(h, i)), __clo1.min_periods as int, h[i].out));
            }
            lemma_delivered_each(__ret, match out0 { Some(o) => Some(final(o).written()), None => None }, s, p);
        }
    }
//@end

} // verus!
fn main() {}
