use vstd::prelude::*;
use vstd::std_specs::ops::*;
use vstd::std_specs::cmp::*;
verus! {
//@include prelude.rs
//@include assume_real.rs
//@include assume_std.rs
//@include dtype.rs
//@include dtype_optcast.rs
//@include lemmas/window.rs
//@include lemmas/weighted.rs

pub type T = ${T};
pub type U = ${U};

//@const crate=tea-core name=EPS

// float literals appearing in the extracted bodies (A-REAL)
pub axiom fn ax_lits()
    ensures rv(0.0f64) == 0real, !nan(0.0f64), rv(1.0f64) == 1real, !nan(1.0f64), rv(2.0f64) == 2real, !nan(2.0f64),
        rv(3.0f64) == 3real, !nan(3.0f64), rv(4.0f64) == 4real, !nan(4.0f64), rv(6.0f64) == 6real, !nan(6.0f64),
        rv(1e-14f64) * 100000000000000real == 1real, !nan(1e-14f64), rv(EPS) == rv(1e-14f64), !nan(EPS);

// effective min_periods as the PROPERTY defines it (C05): min(mp or floor(w/2), w) raised to the intrinsic minimum
pub open spec fn mp_eff(mp: Option<usize>, window: usize, intrinsic: int) -> int {
    let m = match mp { Some(m) => m as int, None => (window / 2) as int };
    let m2 = if m <= window { m } else { window as int };
    if m2 >= intrinsic { m2 } else { intrinsic }
}

// ---- statistic specs over the value view of one window (from the property statement)
pub open spec fn isnull(o: U) -> bool { o.opt().is_none() }
pub open spec fn oval(o: U) -> real { o.opt().unwrap().rval() }

// the incrementally maintained state describes the window it claims to describe (C01), up to power K
pub open spec fn sums_ok(w: Seq<Option<real>>, n: usize, s1: f64, s2: f64, s3: f64, s4: f64, k: int) -> bool {
    &&& n as int == cnt(w)
    &&& k >= 1 ==> rv(s1) == ps(w, 1) && !nan(s1)
    &&& k >= 2 ==> rv(s2) == ps(w, 2) && !nan(s2)
    &&& k >= 3 ==> rv(s3) == ps(w, 3) && !nan(s3)
    &&& k >= 4 ==> rv(s4) == ps(w, 4) && !nan(s4)
}
// plain family: every element counts and none is NaN ("finite numeric series")
pub open spec fn all_some(w: Seq<Option<real>>) -> bool { forall|i: int| 0 <= i < w.len() ==> (#[trigger] w[i]).is_some() }

pub open spec fn mean_spec(w: Seq<Option<real>>, mp: int, o: U) -> bool {
    let n = cnt(w);
    &&& n < mp ==> isnull(o)
    &&& (n >= mp && n > 0) ==> !isnull(o) && oval(o) == ps(w, 1) / (n as real)
}
// sample variance with the declared floor: a window whose biased variance is <= EPS reports 0 (rounding guard of the code)
pub open spec fn biased_var(w: Seq<Option<real>>) -> real {
    let n = cnt(w) as real;
    ps(w, 2) / n - (ps(w, 1) / n) * (ps(w, 1) / n)
}
// textbook: sum of squared deviations from the mean
pub open spec fn ssd(w: Seq<Option<real>>) -> real {
    ps(w, 2) - ps(w, 1) * ps(w, 1) / (cnt(w) as real)
}
pub open spec fn var_spec(w: Seq<Option<real>>, mp: int, o: U) -> bool {
    let n = cnt(w);
    &&& n < mp ==> isnull(o)
    &&& (n >= mp && n >= 2) ==> !isnull(o) && (if biased_var(w) > rv(EPS) { oval(o) == ssd(w) / ((n - 1) as real) } else { oval(o) == 0real })
}
pub open spec fn std_spec(w: Seq<Option<real>>, mp: int, o: U) -> bool {
    let n = cnt(w);
    &&& n < mp ==> isnull(o)
    &&& (n >= mp && n >= 2) ==> !isnull(o)
            && (if biased_var(w) > rv(EPS) { oval(o) == rsqrt(ssd(w) / ((n - 1) as real)) } else { oval(o) == 0real })
}
// (S2/n - (S1/n)^2) * n / (n-1) == (S2 - S1^2/n) / (n-1): the code's form equals the textbook sample variance
pub proof fn lemma_var_forms(s1: real, s2: real, n: real)
    requires n >= 2real,
    ensures (s2 / n - (s1 / n) * (s1 / n)) * n / (n - 1real) == (s2 - s1 * s1 / n) / (n - 1real),
{
    let a = s2 / n;
    let b = s1 / n;
    assert(a * n == s2) by(nonlinear_arith) requires a == s2 / n, n >= 2real;
    assert(b * n == s1) by(nonlinear_arith) requires b == s1 / n, n >= 2real;
    assert((a - b * b) * n == s2 - s1 * s1 / n) by(nonlinear_arith) requires a * n == s2, b * n == s1, n >= 2real;
}

// ---- higher moments: raw moments E_k = S_k / n and the textbook central moments expanded in them
pub open spec fn em(w: Seq<Option<real>>, k: int) -> real { ps(w, k) / (cnt(w) as real) }
pub open spec fn cm3(w: Seq<Option<real>>) -> real {
    let m = em(w, 1);
    em(w, 3) - 3real * m * em(w, 2) + 2real * m * m * m              // (1/n) sum (x - m)^3
}
pub open spec fn cm4(w: Seq<Option<real>>) -> real {
    let m = em(w, 1);
    em(w, 4) - 4real * m * em(w, 3) + 6real * m * m * em(w, 2) - 3real * m * m * m * m      // (1/n) sum (x - m)^4
}
// adjusted Fisher-Pearson skewness  sqrt(n(n-1))/(n-2) * m3 / m2^(3/2)
pub open spec fn skew_spec(w: Seq<Option<real>>, mp: int, o: U) -> bool {
    let n = cnt(w);
    &&& n < mp ==> isnull(o)
    &&& (n >= mp && n >= 3) ==> !isnull(o) && (if biased_var(w) > rv(EPS) {
            let s = rsqrt(biased_var(w));
            oval(o) == rsqrt((n * (n - 1)) as real) / ((n - 2) as real) * (cm3(w) / (s * s * s))
        } else { oval(o) == 0real })
}
// excess kurtosis  (n-1)/((n-2)(n-3)) * ((n+1) m4/m2^2 - 3(n-1)), written over the common factor as the code does
pub open spec fn kurt_spec(w: Seq<Option<real>>, mp: int, o: U) -> bool {
    let n = cnt(w);
    &&& n < mp ==> isnull(o)
    &&& (n >= mp && n >= 4) ==> !isnull(o) && (if biased_var(w) > rv(EPS) {
            let v = biased_var(w);
            oval(o) == 1real / (((n - 2) * (n - 3)) as real) * (((n * n - 1) as real) * (cm4(w) / (v * v)) - ((3 * ((n - 1) * (n - 1))) as real))
        } else { oval(o) == 0real })
}
// small polynomial steps (each nonlinear query has at most a handful of monomials: nlsat stays stable)
pub proof fn lemma_div_mul(a: real, b: real)
    requires b != 0real,
    ensures (a / b) * b == a,
{
    assert((a / b) * b == a) by(nonlinear_arith) requires b != 0real;
}
pub proof fn lemma_cancel(x: real, y: real, d: real)
    requires d != 0real, x * d == y * d,
    ensures x == y,
{
    assert((x - y) * d == 0real) by(nonlinear_arith) requires x * d == y * d;
    assert(x - y == 0real) by(nonlinear_arith) requires (x - y) * d == 0real, d != 0real;
}
// E3/s^3 - 3(m/s) - (m/s)^3 == m3/s^3   with  s^2 = E2 - m^2
pub proof fn lemma_skew_core(e3: real, m: real, s: real, e2: real)
    requires s > 0real, s * s == e2 - m * m,
    ensures e3 / rpow(s, 3) - 3real * (m / s) - rpow(m / s, 3) == (e3 - 3real * m * e2 + 2real * m * m * m) / (s * s * s),
        rpow(s, 3) > 0real,
{
    reveal_with_fuel(rpow, 4);
    let ss = s * s;
    let s3 = ss * s;
    assert(ss > 0real) by(nonlinear_arith) requires s > 0real, ss == s * s;
    assert(s3 > 0real) by(nonlinear_arith) requires s > 0real, ss > 0real, s3 == ss * s;
    assert(rpow(s, 3) == s3) by(nonlinear_arith) requires rpow(s, 3) == s * (s * (s * 1real)), ss == s * s, s3 == ss * s;
    let q1 = e3 / s3;
    let q2 = m / s;
    lemma_div_mul(e3, s3);
    lemma_div_mul(m, s);
    let q22 = q2 * q2;
    let q23 = q22 * q2;
    assert(rpow(q2, 3) == q23) by(nonlinear_arith) requires rpow(q2, 3) == q2 * (q2 * (q2 * 1real)), q22 == q2 * q2, q23 == q22 * q2;
    // q2 * s3 == m * ss ; q23 * s3 == m^3 ; m * ss == m*e2 - m^3
    assert(q2 * s3 == m * ss) by(nonlinear_arith) requires q2 * s == m, s3 == ss * s;
    let mm = m * m;
    assert(q22 * ss == mm) by(nonlinear_arith) requires q2 * s == m, q22 == q2 * q2, ss == s * s, mm == m * m;
    assert(q23 * s3 == mm * m) by(nonlinear_arith) requires q22 * ss == mm, q2 * s == m, q23 == q22 * q2, s3 == ss * s;
    assert(m * ss == m * e2 - mm * m) by(nonlinear_arith) requires ss == e2 - mm;
    let lhs = q1 - 3real * q2 - q23;
    let num = e3 - 3real * m * e2 + 2real * m * m * m;
    assert(mm * m == m * m * m);
    assert(lhs * s3 == q1 * s3 - 3real * (q2 * s3) - q23 * s3) by(nonlinear_arith) requires lhs == q1 - 3real * q2 - q23;
    let a1 = q1 * s3; let a2 = q2 * s3; let a3 = q23 * s3; let c1 = m * ss; let c2 = mm * m; let c3 = m * e2;
    assert(num == e3 - 3real * c3 + 2real * c2) by(nonlinear_arith) requires num == e3 - 3real * m * e2 + 2real * m * m * m, c3 == m * e2, c2 == mm * m, mm == m * m;
    assert(lhs * s3 == num);
    let rhs = num / s3;
    lemma_div_mul(num, s3);
    lemma_cancel(lhs, rhs, s3);
    assert(s * s * s == s3);
}
// (E4 - 4 m E3)/v^2 + 6 m^2/v + 3 (m^2/v)^2 == m4 / v^2   with  v = E2 - m^2
pub proof fn lemma_kurt_core(e4: real, e3: real, m: real, v: real, e2: real)
    requires v > 0real, v == e2 - m * m,
    ensures (e4 - 4real * m * e3) / (v * v) + 6real * (m * m / v) + 3real * rpow(m * m / v, 2)
        == (e4 - 4real * m * e3 + 6real * m * m * e2 - 3real * m * m * m * m) / (v * v),
        v * v > 0real,
{
    reveal_with_fuel(rpow, 3);
    let v2 = v * v;
    assert(v2 > 0real) by(nonlinear_arith) requires v > 0real, v2 == v * v;
    let mm = m * m;
    let t = e4 - 4real * m * e3;
    let a = t / v2;
    let b = mm / v;
    lemma_div_mul(t, v2);
    lemma_div_mul(mm, v);
    let bb = b * b;
    assert(rpow(b, 2) == bb) by(nonlinear_arith) requires rpow(b, 2) == b * (b * 1real), bb == b * b;
    assert(b * v2 == mm * v) by(nonlinear_arith) requires b * v == mm, v2 == v * v;
    assert(bb * v2 == mm * mm) by(nonlinear_arith) requires b * v == mm, bb == b * b, v2 == v * v;
    assert(mm * v == mm * e2 - mm * mm) by(nonlinear_arith) requires v == e2 - mm;
    let lhs = a + 6real * b + 3real * bb;
    assert(lhs * v2 == a * v2 + 6real * (b * v2) + 3real * (bb * v2)) by(nonlinear_arith) requires lhs == a + 6real * b + 3real * bb;
    let num = e4 - 4real * m * e3 + 6real * m * m * e2 - 3real * m * m * m * m;
    assert(6real * m * m * e2 == 6real * (mm * e2)) by(nonlinear_arith) requires mm == m * m;
    assert(3real * m * m * m * m == 3real * (mm * mm)) by(nonlinear_arith) requires mm == m * m;
    let c1 = mm * e2; let c2 = mm * mm;
    assert(num == t + 6real * c1 - 3real * c2);
    assert(lhs * v2 == num);
    let rhs = num / v2;
    lemma_div_mul(num, v2);
    lemma_cancel(lhs, rhs, v2);
}

// A-LEN: products of window counts stay far inside usize for series shorter than 2^31
pub proof fn lemma_small_products(k: int)
    requires 0 <= k <= 0x7fff_ffff,
    ensures
        k * k <= 0x3fff_ffff_0000_0001, k * (k + 1) <= 0x4000_0000_0000_0000, k * (k - 1) <= 0x3fff_ffff_0000_0001,
        (k - 2) * (k - 3) <= 0x3fff_ffff_0000_0001, (k - 1) * (k - 1) <= 0x3fff_ffff_0000_0001,
        3 * ((k - 1) * (k - 1)) <= 0xbfff_fffd_0000_0003, ipow(k, 2) == k * k, ipow(k - 1, 2) == (k - 1) * (k - 1),
        k >= 1 ==> k * k >= 1, k >= 4 ==> (k - 2) * (k - 3) >= 1,
{
    reveal_with_fuel(ipow, 3);
    assert(k * k <= 0x3fff_ffff_0000_0001) by(nonlinear_arith) requires 0 <= k <= 0x7fff_ffff;
    assert(k * (k + 1) <= 0x4000_0000_0000_0000) by(nonlinear_arith) requires 0 <= k <= 0x7fff_ffff;
    assert(k * (k - 1) <= 0x3fff_ffff_0000_0001) by(nonlinear_arith) requires 0 <= k <= 0x7fff_ffff;
    assert((k - 2) * (k - 3) <= 0x3fff_ffff_0000_0001) by(nonlinear_arith) requires 0 <= k <= 0x7fff_ffff;
    assert((k - 1) * (k - 1) <= 0x3fff_ffff_0000_0001) by(nonlinear_arith) requires 0 <= k <= 0x7fff_ffff;
    if k >= 1 { assert(k * k >= 1) by(nonlinear_arith) requires k >= 1; }
    if k >= 4 { assert((k - 2) * (k - 3) >= 1) by(nonlinear_arith) requires k >= 4; }
}


// linearly weighted average: weights 1..n on the non-null elements, oldest -> newest
pub open spec fn wma_spec(w: Seq<Option<real>>, mp: int, o: U) -> bool {
    let n = cnt(w);
    &&& n < mp ==> isnull(o)
    &&& (n >= mp && n > 0) ==> !isnull(o) && oval(o) == wsum(w) / ((n * (n + 1) / 2) as real)
}
// exponentially weighted average with decay q = 1 - alpha:  sum q^j x_(n-1-j) / sum q^j  (stated without division)
pub open spec fn ewm_spec(w: Seq<Option<real>>, mp: int, q: real, o: U) -> bool {
    let n = cnt(w);
    &&& n < mp ==> isnull(o)
    &&& (n >= mp && n > 0 && 1real - rpow(q, n) != 0real) ==> !isnull(o) && oval(o) * gsum(q, n) == esum(w, q)
}
pub proof fn lemma_ewm_value(val: real, e: real, a: real, q: real, n: int)
    requires n >= 0, a != 0real, q == 1real - a, 1real - rpow(q, n) != 0real, val == e * a / (1real - rpow(q, n)),
    ensures val * gsum(q, n) == e,
{
    let d = 1real - rpow(q, n);
    lemma_gsum_closed(q, n);
    let g = gsum(q, n);
    assert(val * d == e * a) by(nonlinear_arith) requires val == e * a / d, d != 0real;
    assert(d == g * a);
    assert((val * g) * a == e * a) by(nonlinear_arith) requires val * d == e * a, d == g * a;
    assert(val * g == e) by(nonlinear_arith) requires (val * g) * a == e * a, a != 0real;
}
pub proof fn lemma_half_even(k: int)
    requires k >= 0,
    ensures (k * (k + 1)) % 2 == 0, k >= 1 ==> k * (k + 1) / 2 >= 1,
    decreases k
{
    // by induction: k(k+1) = (k-1)k + 2k, and adding a multiple of 2 does not change the remainder (no nonlinear search)
    if k > 0 {
        lemma_half_even(k - 1);
        let b = (k - 1) * k;
        assert(k * (k + 1) == 2 * k + b) by(nonlinear_arith) requires b == (k - 1) * k;
        vstd::arithmetic::div_mod::lemma_mod_multiples_vanish(k, b, 2);
        assert((2 * k + b) % 2 == b % 2);
        assert(b == (k - 1) * ((k - 1) + 1));
        assert(b % 2 == 0);
        assert((k * (k + 1)) % 2 == 0);
    } else {
        assert(k * (k + 1) == 0) by(nonlinear_arith) requires k == 0;
    }
    if k >= 1 { assert(k * (k + 1) >= 2) by(nonlinear_arith) requires k >= 1; }
}

pub proof fn lemma_scaled_pos(a: real, n: real)
    requires a > 0real, n >= 2real,
    ensures a * n / (n - 1real) > 0real,
{
    assert(a * n > 0real) by(nonlinear_arith) requires a > 0real, n >= 2real;
    let b = a * n;
    assert(b / (n - 1real) > 0real) by(nonlinear_arith) requires b > 0real, n >= 2real;
}

pub open spec fn sum_spec(w: Seq<Option<real>>, mp: int, o: U) -> bool {
    if cnt(w) >= mp { !isnull(o) && oval(o) == ps(w, 1) } else { isnull(o) }
}

//@fn name=ts_vsum_to crate=tea-rolling ctx="pub trait RollingValidFeature" props=C01,C05,C06,C07,C08
//@types T::Inner=${TI}
//@sig fn ts_vsum_to<V: RollingDrivers<T>, O: Vec1<U>>(this: &V, window: usize, min_periods: Option<usize>, out: Option<&mut O::Buf>) -> (r: Option<O>)
//@spec
    requires
        canon_seq(this.view()),
        this.view().len() <= 0x7fff_ffff,      // A-LEN
        out matches Some(o) ==> buf_fresh(o, this.view().len()),
        (window == 0 && out.is_none() && this.view().len() > 0) ==> panic_allowed(),
    ensures
        window >= 1 ==> delivered_each(r, match out { Some(o) => Some(final(o).written()), None => None }, this.view().len(),       // #C05,C07 one_output_per_input
            |i: int, o: U| sum_spec(vals(wnd(this.view(), window, i)), mp_eff(min_periods, window, 0), o)),                              // #C01,C05,C06,C08 value_and_mask
//@closure 1 name=CloVsum trait="RollingFn<T, U>" params="v_rm: Option<T>, v: T" ret="(res: U)" push="Call { rm: v_rm, v: v, out: __r }" caps="mut n: usize, mut sum: ${TI}, min_periods: usize"
//@closure 1 extra
    open spec fn hist(&self) -> Seq<Call<T, U>> { self.h@ }
    open spec fn elem_ok(v: T) -> bool { canon(v) }
    open spec fn cap_len() -> nat { 0x7fff_ffff }
//@closure 1 inv
        &&& hist_wf(self.h@) && canon_seq(adds(self.h@))
        &&& self.n as int == cnt(vals(win(self.h@)))
        &&& self.sum.rval() == ps(vals(win(self.h@)), 1) && !self.sum.is_nanv()
        &&& outs_ok(self.h@, |w: Seq<T>, o: U| sum_spec(vals(w), self.min_periods as int, o))
//@at closure 1 first
        proof {
            broadcast use a_real;
            lemma_step_vals(self.h@, v_rm, v);
            lemma_small_products(self.n as int); lemma_small_products(self.n as int + 1);
        }
//@at closure 1 last
        proof {
            let c = Call { rm: v_rm, v: v, out: __r };
            lemma_fifo_step(self.h@, c);
            if v_rm.is_some() { assert(v_rm.unwrap() == adds(self.h@).push(v)[nrm(self.h@) as int]); }
            assert(adds(self.h@.push(c)) =~= adds(self.h@).push(v));
            lemma_outs_step(self.h@, c, |w: Seq<T>, o: U| sum_spec(vals(w), self.min_periods as int, o));
        }
//@at body first
    let ghost mp0 = min_periods;
    let ghost out0 = out;
//@at body last
    proof {
        let h = __clo1.h@;
        let s = outs(h);
        if window >= 1 {
            let p = |i: int, o: U| sum_spec(vals(wnd(this.view(), window, i)), mp_eff(mp0, window, 0), o);
            assert forall|i: int| 0 <= i < s.len() implies p(i, #[trigger] s[i]) by {
                lemma_fifo_window_is_wnd(h, this.view(), window, i);
                assert(sum_spec(vals(fifo_window(h, i)), __clo1.min_periods as int, h[i].out));
            }
            lemma_delivered_each(__ret, match out0 { Some(o) => Some(final(o).written()), None => None }, s, p);
        }
    }
//@end

//@fn name=ts_vmean_to crate=tea-rolling ctx="pub trait RollingValidFeature" props=C01,C05,C06,C07,C08 arith=C05
//@types T::Inner=${TI}
//@sig fn ts_vmean_to<V: RollingDrivers<T>, O: Vec1<U>>(this: &V, window: usize, min_periods: Option<usize>, out: Option<&mut O::Buf>) -> (r: Option<O>)
//@spec
    requires
        canon_seq(this.view()),
        out matches Some(o) ==> buf_fresh(o, this.view().len()),
        (window == 0 && out.is_none() && this.view().len() > 0) ==> panic_allowed(),
        this.view().len() <= 0x7fff_ffff,      // A-LEN
    ensures
        window >= 1 ==> delivered_each(r, match out { Some(o) => Some(final(o).written()), None => None }, this.view().len(),       // #C05,C07 one_output_per_input
            |i: int, o: U| mean_spec(vals(wnd(this.view(), window, i)), mp_eff(min_periods, window, 0), o)),                              // #C01,C05,C06,C08 value_and_mask
//@closure 1 name=CloVmean trait="RollingFn<T, U>" params="v_rm: Option<T>, v: T" ret="(res: U)" push="Call { rm: v_rm, v: v, out: __r }" caps="mut n: usize, mut sum: f64, min_periods: usize"
//@closure 1 extra
    open spec fn hist(&self) -> Seq<Call<T, U>> { self.h@ }
    open spec fn elem_ok(v: T) -> bool { canon(v) }
    open spec fn cap_len() -> nat { 0x7fff_ffff }
//@closure 1 inv
        &&& hist_wf(self.h@) && canon_seq(adds(self.h@))
        &&& sums_ok(vals(win(self.h@)), self.n, self.sum, self.sum, self.sum, self.sum, 1)         // #C01 state_describes_window
        &&& self.min_periods >= 0
        &&& outs_ok(self.h@, |w: Seq<T>, o: U| mean_spec(vals(w), self.min_periods as int, o))
//@at closure 1 first
        let ghost w0 = vals(win(self.h@));
        let ghost wp = w0.push(val(v));
        proof {
            broadcast use a_real, a_real_cmp;
            ax_lits();
            reveal_with_fuel(rpow, 4);
            lemma_step_vals(self.h@, v_rm, v);
            lemma_small_products(self.n as int); lemma_small_products(self.n as int + 1);
        }
//@at closure 1 last
        proof {
            let c = Call { rm: v_rm, v: v, out: __r };
            lemma_fifo_step(self.h@, c);
            if v_rm.is_some() { assert(v_rm.unwrap() == adds(self.h@).push(v)[nrm(self.h@) as int]); }
            assert(adds(self.h@.push(c)) =~= adds(self.h@).push(v));
            assert(mean_spec(vals(win(self.h@).push(v)), self.min_periods as int, __r));       // #C01,C05 output_is_window_statistic
            lemma_outs_step(self.h@, c, |w: Seq<T>, o: U| mean_spec(vals(w), self.min_periods as int, o));
            assert(sums_ok(vals(win(self.h@.push(c))), n, sum, sum, sum, sum, 1));              // #C01 state_describes_window
        }
//@at body first
    let ghost mp0 = min_periods;
    let ghost out0 = out;
    proof { ax_lits(); }
//@at body last
    proof {
        let h = __clo1.h@;
        let s = outs(h);
        if window >= 1 {
            let p = |i: int, o: U| mean_spec(vals(wnd(this.view(), window, i)), mp_eff(mp0, window, 0), o);
            assert forall|i: int| 0 <= i < s.len() implies p(i, #[trigger] s[i]) by {
                lemma_fifo_window_is_wnd(h, this.view(), window, i);
                assert(mean_spec(vals(fifo_window(h, i)), __clo1.min_periods as int, h[i].out));
            }
            lemma_delivered_each(__ret, match out0 { Some(o) => Some(final(o).written()), None => None }, s, p);
        }
    }
//@end

//@fn name=ts_vvar_to crate=tea-rolling ctx="pub trait RollingValidFeature" props=C01,C05,C06,C07,C08 arith=C05
//@types T::Inner=${TI}
//@sig fn ts_vvar_to<V: RollingDrivers<T>, O: Vec1<U>>(this: &V, window: usize, min_periods: Option<usize>, out: Option<&mut O::Buf>) -> (r: Option<O>)
//@spec
    requires
        canon_seq(this.view()),
        out matches Some(o) ==> buf_fresh(o, this.view().len()),
        (window == 0 && out.is_none() && this.view().len() > 0) ==> panic_allowed(),
        this.view().len() <= 0x7fff_ffff,      // A-LEN
    ensures
        window >= 1 ==> delivered_each(r, match out { Some(o) => Some(final(o).written()), None => None }, this.view().len(),       // #C05,C07 one_output_per_input
            |i: int, o: U| var_spec(vals(wnd(this.view(), window, i)), mp_eff(min_periods, window, 2), o)),                              // #C01,C05,C06,C08 value_and_mask
//@closure 1 name=CloVvar trait="RollingFn<T, U>" params="v_rm: Option<T>, v: T" ret="(res: U)" push="Call { rm: v_rm, v: v, out: __r }" caps="mut n: usize, mut sum: f64, mut sum2: f64, min_periods: usize"
//@closure 1 extra
    open spec fn hist(&self) -> Seq<Call<T, U>> { self.h@ }
    open spec fn elem_ok(v: T) -> bool { canon(v) }
    open spec fn cap_len() -> nat { 0x7fff_ffff }
//@closure 1 inv
        &&& hist_wf(self.h@) && canon_seq(adds(self.h@))
        &&& sums_ok(vals(win(self.h@)), self.n, self.sum, self.sum2, self.sum, self.sum, 2)         // #C01 state_describes_window
        &&& self.min_periods >= 2
        &&& outs_ok(self.h@, |w: Seq<T>, o: U| var_spec(vals(w), self.min_periods as int, o))
//@at closure 1 first
        let ghost w0 = vals(win(self.h@));
        let ghost wp = w0.push(val(v));
        proof {
            broadcast use a_real, a_real_cmp;
            ax_lits();
            reveal_with_fuel(rpow, 4);
            lemma_step_vals(self.h@, v_rm, v);
            lemma_small_products(self.n as int); lemma_small_products(self.n as int + 1);
        }
//@at closure 1 last
        proof {
            let c = Call { rm: v_rm, v: v, out: __r };
            lemma_fifo_step(self.h@, c);
            if v_rm.is_some() { assert(v_rm.unwrap() == adds(self.h@).push(v)[nrm(self.h@) as int]); }
            assert(adds(self.h@.push(c)) =~= adds(self.h@).push(v));
            if cnt(wp) >= 2 { lemma_var_forms(ps(wp, 1), ps(wp, 2), cnt(wp) as real); }
            assert(var_spec(vals(win(self.h@).push(v)), self.min_periods as int, __r));       // #C01,C05 output_is_window_statistic
            lemma_outs_step(self.h@, c, |w: Seq<T>, o: U| var_spec(vals(w), self.min_periods as int, o));
            assert(sums_ok(vals(win(self.h@.push(c))), n, sum, sum2, sum, sum, 2));              // #C01 state_describes_window
        }
//@at body first
    let ghost mp0 = min_periods;
    let ghost out0 = out;
    proof { ax_lits(); }
//@at body last
    proof {
        let h = __clo1.h@;
        let s = outs(h);
        if window >= 1 {
            let p = |i: int, o: U| var_spec(vals(wnd(this.view(), window, i)), mp_eff(mp0, window, 2), o);
            assert forall|i: int| 0 <= i < s.len() implies p(i, #[trigger] s[i]) by {
                lemma_fifo_window_is_wnd(h, this.view(), window, i);
                assert(var_spec(vals(fifo_window(h, i)), __clo1.min_periods as int, h[i].out));
            }
            lemma_delivered_each(__ret, match out0 { Some(o) => Some(final(o).written()), None => None }, s, p);
        }
    }
//@end

//@fn name=ts_vstd_to crate=tea-rolling ctx="pub trait RollingValidFeature" props=C01,C05,C06,C07,C08 arith=C05
//@types T::Inner=${TI}
//@sig fn ts_vstd_to<V: RollingDrivers<T>, O: Vec1<U>>(this: &V, window: usize, min_periods: Option<usize>, out: Option<&mut O::Buf>) -> (r: Option<O>)
//@spec
    requires
        canon_seq(this.view()),
        out matches Some(o) ==> buf_fresh(o, this.view().len()),
        (window == 0 && out.is_none() && this.view().len() > 0) ==> panic_allowed(),
        this.view().len() <= 0x7fff_ffff,      // A-LEN
    ensures
        window >= 1 ==> delivered_each(r, match out { Some(o) => Some(final(o).written()), None => None }, this.view().len(),       // #C05,C07 one_output_per_input
            |i: int, o: U| std_spec(vals(wnd(this.view(), window, i)), mp_eff(min_periods, window, 2), o)),                              // #C01,C05,C06,C08 value_and_mask
//@closure 1 name=CloVstd trait="RollingFn<T, U>" params="v_rm: Option<T>, v: T" ret="(res: U)" push="Call { rm: v_rm, v: v, out: __r }" caps="mut n: usize, mut sum: f64, mut sum2: f64, min_periods: usize"
//@closure 1 extra
    open spec fn hist(&self) -> Seq<Call<T, U>> { self.h@ }
    open spec fn elem_ok(v: T) -> bool { canon(v) }
    open spec fn cap_len() -> nat { 0x7fff_ffff }
//@closure 1 inv
        &&& hist_wf(self.h@) && canon_seq(adds(self.h@))
        &&& sums_ok(vals(win(self.h@)), self.n, self.sum, self.sum2, self.sum, self.sum, 2)         // #C01 state_describes_window
        &&& self.min_periods >= 2
        &&& outs_ok(self.h@, |w: Seq<T>, o: U| std_spec(vals(w), self.min_periods as int, o))
//@at closure 1 first
        let ghost w0 = vals(win(self.h@));
        let ghost wp = w0.push(val(v));
        proof {
            broadcast use a_real, a_real_cmp;
            ax_lits();
            reveal_with_fuel(rpow, 4);
            lemma_step_vals(self.h@, v_rm, v);
            lemma_small_products(self.n as int); lemma_small_products(self.n as int + 1);
        }
//@at closure 1 last
        proof {
            let c = Call { rm: v_rm, v: v, out: __r };
            lemma_fifo_step(self.h@, c);
            if v_rm.is_some() { assert(v_rm.unwrap() == adds(self.h@).push(v)[nrm(self.h@) as int]); }
            assert(adds(self.h@.push(c)) =~= adds(self.h@).push(v));
            if cnt(wp) >= 2 {
                lemma_var_forms(ps(wp, 1), ps(wp, 2), cnt(wp) as real);
                if biased_var(wp) > 0real { lemma_scaled_pos(biased_var(wp), cnt(wp) as real); }
            }
            assert(std_spec(vals(win(self.h@).push(v)), self.min_periods as int, __r));       // #C01,C05 output_is_window_statistic
            lemma_outs_step(self.h@, c, |w: Seq<T>, o: U| std_spec(vals(w), self.min_periods as int, o));
            assert(sums_ok(vals(win(self.h@.push(c))), n, sum, sum2, sum, sum, 2));              // #C01 state_describes_window
        }
//@at body first
    let ghost mp0 = min_periods;
    let ghost out0 = out;
    proof { ax_lits(); }
//@at body last
    proof {
        let h = __clo1.h@;
        let s = outs(h);
        if window >= 1 {
            let p = |i: int, o: U| std_spec(vals(wnd(this.view(), window, i)), mp_eff(mp0, window, 2), o);
            assert forall|i: int| 0 <= i < s.len() implies p(i, #[trigger] s[i]) by {
                lemma_fifo_window_is_wnd(h, this.view(), window, i);
                assert(std_spec(vals(fifo_window(h, i)), __clo1.min_periods as int, h[i].out));
            }
            lemma_delivered_each(__ret, match out0 { Some(o) => Some(final(o).written()), None => None }, s, p);
        }
    }
//@end


//@fn name=ts_vskew_to crate=tea-rolling ctx="pub trait RollingValidFeature" props=C01,C05,C06,C07,C08 arith=C05
//@types T::Inner=${TI}
//@sig fn ts_vskew_to<V: RollingDrivers<T>, O: Vec1<U>>(this: &V, window: usize, min_periods: Option<usize>, out: Option<&mut O::Buf>) -> (r: Option<O>)
//@spec
    requires
        canon_seq(this.view()),
        out matches Some(o) ==> buf_fresh(o, this.view().len()),
        (window == 0 && out.is_none() && this.view().len() > 0) ==> panic_allowed(),
        this.view().len() <= 0x7fff_ffff,      // A-LEN
    ensures
        window >= 1 ==> delivered_each(r, match out { Some(o) => Some(final(o).written()), None => None }, this.view().len(),       // #C05,C07 one_output_per_input
            |i: int, o: U| skew_spec(vals(wnd(this.view(), window, i)), mp_eff(min_periods, window, 3), o)),                              // #C01,C05,C06,C08 value_and_mask
//@closure 1 name=CloVskew trait="RollingFn<T, U>" params="v_rm: Option<T>, v: T" ret="(res: U)" push="Call { rm: v_rm, v: v, out: __r }" caps="mut n: usize, mut sum: f64, mut sum2: f64, mut sum3: f64, min_periods: usize"
//@closure 1 extra
    open spec fn hist(&self) -> Seq<Call<T, U>> { self.h@ }
    open spec fn elem_ok(v: T) -> bool { canon(v) }
    open spec fn cap_len() -> nat { 0x7fff_ffff }
//@closure 1 inv
        &&& hist_wf(self.h@) && canon_seq(adds(self.h@))
        &&& sums_ok(vals(win(self.h@)), self.n, self.sum, self.sum2, self.sum3, self.sum, 3)         // #C01 state_describes_window
        &&& self.min_periods >= 3
        &&& outs_ok(self.h@, |w: Seq<T>, o: U| skew_spec(vals(w), self.min_periods as int, o))
//@at closure 1 first
        let ghost w0 = vals(win(self.h@));
        let ghost wp = w0.push(val(v));
        proof {
            broadcast use a_real, a_real_cmp;
            ax_lits();
            reveal_with_fuel(rpow, 4);
            lemma_step_vals(self.h@, v_rm, v);
            lemma_small_products(self.n as int); lemma_small_products(self.n as int + 1);
            if cnt(wp) >= 3 && biased_var(wp) > rv(EPS) {
                let vv = biased_var(wp);
                ax_rsqrt(vv);
                let s = rsqrt(vv);
                assert(s > 0real) by(nonlinear_arith) requires s >= 0real, s * s == vv, vv > 0real;
                lemma_skew_core(em(wp, 3), em(wp, 1), s, em(wp, 2));
                ax_rsqrt((cnt(wp) * (cnt(wp) - 1)) as real);
            }
        }
//@at closure 1 last
        proof {
            let c = Call { rm: v_rm, v: v, out: __r };
            lemma_fifo_step(self.h@, c);
            if v_rm.is_some() { assert(v_rm.unwrap() == adds(self.h@).push(v)[nrm(self.h@) as int]); }
            assert(adds(self.h@.push(c)) =~= adds(self.h@).push(v));
            if cnt(wp) >= 3 && biased_var(wp) > rv(EPS) {
                let vv = biased_var(wp);
                ax_rsqrt(vv);
                let s = rsqrt(vv);
                assert(s > 0real) by(nonlinear_arith) requires s >= 0real, s * s == vv, vv > 0real;
                lemma_skew_core(em(wp, 3), em(wp, 1), s, em(wp, 2));
                ax_rsqrt((cnt(wp) * (cnt(wp) - 1)) as real);
            }
            assert(skew_spec(vals(win(self.h@).push(v)), self.min_periods as int, __r));       // #C01,C05 output_is_window_statistic
            lemma_outs_step(self.h@, c, |w: Seq<T>, o: U| skew_spec(vals(w), self.min_periods as int, o));
            assert(sums_ok(vals(win(self.h@.push(c))), n, sum, sum2, sum3, sum, 3));              // #C01 state_describes_window
        }
//@at body first
    let ghost mp0 = min_periods;
    let ghost out0 = out;
    proof { ax_lits(); }
//@at body last
    proof {
        let h = __clo1.h@;
        let s = outs(h);
        if window >= 1 {
            let p = |i: int, o: U| skew_spec(vals(wnd(this.view(), window, i)), mp_eff(mp0, window, 3), o);
            assert forall|i: int| 0 <= i < s.len() implies p(i, #[trigger] s[i]) by {
                lemma_fifo_window_is_wnd(h, this.view(), window, i);
                assert(skew_spec(vals(fifo_window(h, i)), __clo1.min_periods as int, h[i].out));
            }
            lemma_delivered_each(__ret, match out0 { Some(o) => Some(final(o).written()), None => None }, s, p);
        }
    }
//@end

//@fn name=ts_vkurt_to crate=tea-rolling ctx="pub trait RollingValidFeature" props=C01,C05,C06,C07,C08 arith=C05
//@types T::Inner=${TI}
//@sig fn ts_vkurt_to<V: RollingDrivers<T>, O: Vec1<U>>(this: &V, window: usize, min_periods: Option<usize>, out: Option<&mut O::Buf>) -> (r: Option<O>)
//@spec
    requires
        canon_seq(this.view()),
        out matches Some(o) ==> buf_fresh(o, this.view().len()),
        (window == 0 && out.is_none() && this.view().len() > 0) ==> panic_allowed(),
        this.view().len() <= 0x7fff_ffff,      // A-LEN
    ensures
        window >= 1 ==> delivered_each(r, match out { Some(o) => Some(final(o).written()), None => None }, this.view().len(),       // #C05,C07 one_output_per_input
            |i: int, o: U| kurt_spec(vals(wnd(this.view(), window, i)), mp_eff(min_periods, window, 4), o)),                              // #C01,C05,C06,C08 value_and_mask
//@closure 1 name=CloVkurt trait="RollingFn<T, U>" params="v_rm: Option<T>, v: T" ret="(res: U)" push="Call { rm: v_rm, v: v, out: __r }" caps="mut n: usize, mut sum: f64, mut sum2: f64, mut sum3: f64, mut sum4: f64, min_periods: usize"
//@closure 1 extra
    open spec fn hist(&self) -> Seq<Call<T, U>> { self.h@ }
    open spec fn elem_ok(v: T) -> bool { canon(v) }
    open spec fn cap_len() -> nat { 0x7fff_ffff }
//@closure 1 inv
        &&& hist_wf(self.h@) && canon_seq(adds(self.h@))
        &&& sums_ok(vals(win(self.h@)), self.n, self.sum, self.sum2, self.sum3, self.sum4, 4)         // #C01 state_describes_window
        &&& self.min_periods >= 4
        &&& outs_ok(self.h@, |w: Seq<T>, o: U| kurt_spec(vals(w), self.min_periods as int, o))
//@at closure 1 first
        let ghost w0 = vals(win(self.h@));
        let ghost wp = w0.push(val(v));
        proof {
            broadcast use a_real, a_real_cmp;
            ax_lits();
            reveal_with_fuel(rpow, 4);
            lemma_step_vals(self.h@, v_rm, v);
            lemma_small_products(self.n as int); lemma_small_products(self.n as int + 1);
            if cnt(wp) >= 4 && biased_var(wp) > rv(EPS) {
                lemma_kurt_core(em(wp, 4), em(wp, 3), em(wp, 1), biased_var(wp), em(wp, 2));
                reveal_with_fuel(ipow, 3);
            }
        }
//@at closure 1 last
        proof {
            let c = Call { rm: v_rm, v: v, out: __r };
            lemma_fifo_step(self.h@, c);
            if v_rm.is_some() { assert(v_rm.unwrap() == adds(self.h@).push(v)[nrm(self.h@) as int]); }
            assert(adds(self.h@.push(c)) =~= adds(self.h@).push(v));
            if cnt(wp) >= 4 && biased_var(wp) > rv(EPS) {
                lemma_kurt_core(em(wp, 4), em(wp, 3), em(wp, 1), biased_var(wp), em(wp, 2));
                reveal_with_fuel(ipow, 3);
            }
            assert(kurt_spec(vals(win(self.h@).push(v)), self.min_periods as int, __r));       // #C01,C05 output_is_window_statistic
            lemma_outs_step(self.h@, c, |w: Seq<T>, o: U| kurt_spec(vals(w), self.min_periods as int, o));
            assert(sums_ok(vals(win(self.h@.push(c))), n, sum, sum2, sum3, sum4, 4));              // #C01 state_describes_window
        }
//@at body first
    let ghost mp0 = min_periods;
    let ghost out0 = out;
    proof { ax_lits(); }
//@at body last
    proof {
        let h = __clo1.h@;
        let s = outs(h);
        if window >= 1 {
            let p = |i: int, o: U| kurt_spec(vals(wnd(this.view(), window, i)), mp_eff(mp0, window, 4), o);
            assert forall|i: int| 0 <= i < s.len() implies p(i, #[trigger] s[i]) by {
                lemma_fifo_window_is_wnd(h, this.view(), window, i);
                assert(kurt_spec(vals(fifo_window(h, i)), __clo1.min_periods as int, h[i].out));
            }
            lemma_delivered_each(__ret, match out0 { Some(o) => Some(final(o).written()), None => None }, s, p);
        }
    }
//@end


//@fn name=ts_vwma_to crate=tea-rolling ctx="pub trait RollingValidFeature" props=C01,C05,C06,C07,C08 arith=C05
//@types T::Inner=${TI}
//@sig fn ts_vwma_to<V: RollingDrivers<T>, O: Vec1<U>>(this: &V, window: usize, min_periods: Option<usize>, out: Option<&mut O::Buf>) -> (r: Option<O>)
//@spec
    requires
        canon_seq(this.view()),
        out matches Some(o) ==> buf_fresh(o, this.view().len()),
        (window == 0 && out.is_none() && this.view().len() > 0) ==> panic_allowed(),
        this.view().len() <= 0x7fff_ffff,      // A-LEN
    ensures
        window >= 1 ==> delivered_each(r, match out { Some(o) => Some(final(o).written()), None => None }, this.view().len(),       // #C05,C07 one_output_per_input
            |i: int, o: U| wma_spec(vals(wnd(this.view(), window, i)), mp_eff(min_periods, window, 0), o)),                              // #C01,C05,C06,C08 value_and_mask
//@closure 1 name=CloVwma trait="RollingFn<T, U>" params="v_rm: Option<T>, v: T" ret="(res: U)" push="Call { rm: v_rm, v: v, out: __r }" caps="mut sum: f64, mut sum_xt: f64, mut n: usize, min_periods: usize"
//@closure 1 extra
    open spec fn hist(&self) -> Seq<Call<T, U>> { self.h@ }
    open spec fn elem_ok(v: T) -> bool { canon(v) }
    open spec fn cap_len() -> nat { 0x7fff_ffff }
//@closure 1 inv
        &&& hist_wf(self.h@) && canon_seq(adds(self.h@))
        &&& self.n as int == cnt(vals(win(self.h@)))
        &&& rv(self.sum) == ps(vals(win(self.h@)), 1) && !nan(self.sum)                 // #C01 state_describes_window
        &&& rv(self.sum_xt) == wsum(vals(win(self.h@))) && !nan(self.sum_xt)            // #C01 weighted_state_describes_window
        &&& outs_ok(self.h@, |w: Seq<T>, o: U| wma_spec(vals(w), self.min_periods as int, o))
//@at closure 1 first
        let ghost w0 = vals(win(self.h@));
        let ghost wp = w0.push(val(v));
        proof {
            broadcast use a_real, a_real_cmp;
            ax_lits();
            lemma_step_vals(self.h@, v_rm, v);
            lemma_small_products(self.n as int); lemma_small_products(self.n as int + 1);
            lemma_half_even(self.n as int); lemma_half_even(self.n as int + 1);
            lemma_wsum_push(w0, val(v));
            if v_rm.is_some() { lemma_wsum_drop_first(wp); }
            assert forall|a: usize| (#[trigger] (a >> 1usize)) == a / 2 by { assert((a >> 1usize) == a / 2) by(bit_vector); }
        }
//@at closure 1 last
        proof {
            let c = Call { rm: v_rm, v: v, out: __r };
            lemma_fifo_step(self.h@, c);
            if v_rm.is_some() { assert(v_rm.unwrap() == adds(self.h@).push(v)[nrm(self.h@) as int]); }
            assert(adds(self.h@.push(c)) =~= adds(self.h@).push(v));
            assert(wma_spec(vals(win(self.h@).push(v)), self.min_periods as int, __r));       // #C01,C05 output_is_window_statistic
            assert(rv(sum_xt) == wsum(vals(win(self.h@.push(c)))) && rv(sum) == ps(vals(win(self.h@.push(c))), 1) && n as int == cnt(vals(win(self.h@.push(c)))));   // #C01 weighted_state_after_call
            lemma_outs_step(self.h@, c, |w: Seq<T>, o: U| wma_spec(vals(w), self.min_periods as int, o));
        }
//@at body first
    let ghost mp0 = min_periods;
    let ghost out0 = out;
    proof { ax_lits(); }
//@at body last
    proof {
        let h = __clo1.h@;
        let s = outs(h);
        if window >= 1 {
            let p = |i: int, o: U| wma_spec(vals(wnd(this.view(), window, i)), mp_eff(mp0, window, 0), o);
            assert forall|i: int| 0 <= i < s.len() implies p(i, #[trigger] s[i]) by {
                lemma_fifo_window_is_wnd(h, this.view(), window, i);
                assert(wma_spec(vals(fifo_window(h, i)), __clo1.min_periods as int, h[i].out));
            }
            lemma_delivered_each(__ret, match out0 { Some(o) => Some(final(o).written()), None => None }, s, p);
        }
    }
//@end

//@fn name=ts_vewm_to crate=tea-rolling ctx="pub trait RollingValidFeature" props=C01,C05,C06,C07,C08 arith=C05
//@types T::Inner=${TI}
//@sig fn ts_vewm_to<V: RollingDrivers<T>, O: Vec1<U>>(this: &V, window: usize, min_periods: Option<usize>, out: Option<&mut O::Buf>) -> (r: Option<O>)
//@spec
    requires
        canon_seq(this.view()),
        out matches Some(o) ==> buf_fresh(o, this.view().len()),
        window >= 1,                            // alpha = 2 / window
        this.view().len() <= 0x7fff_ffff,      // A-LEN: the valid count is passed to powi as i32
    ensures
        window >= 1 ==> delivered_each(r, match out { Some(o) => Some(final(o).written()), None => None }, this.view().len(),       // #C05,C07 one_output_per_input
            |i: int, o: U| ewm_spec(vals(wnd(this.view(), window, i)), mp_eff(min_periods, window, 0), 1real - 2real / (window as real), o)),   // #C01,C05,C06,C08 value_and_mask
//@closure 1 name=CloVewm trait="RollingFn<T, U>" params="v_rm: Option<T>, v: T" ret="(res: U)" push="Call { rm: v_rm, v: v, out: __r }" caps="mut q_x: f64, alpha: f64, oma: f64, mut n: usize, min_periods: usize"
//@closure 1 extra
    open spec fn hist(&self) -> Seq<Call<T, U>> { self.h@ }
    open spec fn elem_ok(v: T) -> bool { canon(v) }
    open spec fn cap_len() -> nat { 0x7fff_ffff }
//@closure 1 inv
        &&& hist_wf(self.h@) && canon_seq(adds(self.h@))
        &&& self.n as int == cnt(vals(win(self.h@)))
        &&& !nan(self.alpha) && !nan(self.oma) && rv(self.oma) == 1real - rv(self.alpha) && rv(self.alpha) != 0real
        &&& rv(self.q_x) == esum(vals(win(self.h@)), rv(self.oma)) && !nan(self.q_x)            // #C01 weighted_state_describes_window
        &&& outs_ok(self.h@, |w: Seq<T>, o: U| ewm_spec(vals(w), self.min_periods as int, rv(self.oma), o))
//@at closure 1 first
        let ghost w0 = vals(win(self.h@));
        let ghost wp = w0.push(val(v));
        let ghost q = rv(self.oma);
        let ghost al = rv(self.alpha);
        proof {
            broadcast use a_real, a_real_cmp;
            ax_lits();
            lemma_step_vals(self.h@, v_rm, v);
            lemma_esum_push(w0, val(v), q);
            if v_rm.is_some() { lemma_esum_drop_first(wp, q); }
            // q_x + (x - alpha*q_x) == x + (1-alpha)*q_x
            let e0 = rv(self.q_x);
            match val(v) {
                Some(x) => { assert(e0 + (x - al * e0) == x + q * e0) by(nonlinear_arith) requires q == 1real - al; },
                None => {},
            }
            // the output in textbook form, for either possible count
            let n0 = self.n as int;
            if 1real - rpow(q, n0) != 0real { lemma_ewm_value(esum(w0, q) * al / (1real - rpow(q, n0)), esum(w0, q), al, q, n0); }
            if 1real - rpow(q, n0 + 1) != 0real { lemma_ewm_value(esum(wp, q) * al / (1real - rpow(q, n0 + 1)), esum(wp, q), al, q, n0 + 1); }
        }
//@at closure 1 last
        proof {
            let c = Call { rm: v_rm, v: v, out: __r };
            lemma_fifo_step(self.h@, c);
            if v_rm.is_some() { assert(v_rm.unwrap() == adds(self.h@).push(v)[nrm(self.h@) as int]); }
            assert(adds(self.h@.push(c)) =~= adds(self.h@).push(v));
            assert(ewm_spec(vals(win(self.h@).push(v)), self.min_periods as int, q, __r));       // #C01,C05 output_is_window_statistic
            lemma_outs_step(self.h@, c, |w: Seq<T>, o: U| ewm_spec(vals(w), self.min_periods as int, rv(self.oma), o));
        }
//@at body first
    let ghost mp0 = min_periods;
    let ghost out0 = out;
    proof {
        ax_lits(); broadcast use a_real;
        let wr = window as real;
        let a0 = 2real / wr;
        assert(a0 * wr == 2real) by(nonlinear_arith) requires a0 == 2real / wr, wr >= 1real;
        assert(a0 != 0real) by(nonlinear_arith) requires a0 * wr == 2real;
    }
//@at body last
    proof {
        let h = __clo1.h@;
        let s = outs(h);
        if window >= 1 {
            let p = |i: int, o: U| ewm_spec(vals(wnd(this.view(), window, i)), mp_eff(mp0, window, 0), 1real - 2real / (window as real), o);
            assert forall|i: int| 0 <= i < s.len() implies p(i, #[trigger] s[i]) by {
                lemma_fifo_window_is_wnd(h, this.view(), window, i);
                assert(ewm_spec(vals(fifo_window(h, i)), __clo1.min_periods as int, rv(__clo1.oma), h[i].out));
            }
            lemma_delivered_each(__ret, match out0 { Some(o) => Some(final(o).written()), None => None }, s, p);
        }
    }
//@end


// ---- rolling z-score (tea-rolling norm.rs, C03): (x - mean) / sample standard deviation over the non-null window; null when
// the current element is null, below min_periods, or when the spread is (numerically) zero
pub open spec fn zscore_spec(w: Seq<Option<real>>, mp: int, o: U) -> bool {
    let n = cnt(w);
    &&& (w.len() == 0 || w.last().is_none() || n < mp) ==> isnull(o)
    &&& (w.len() > 0 && w.last().is_some() && n >= mp) ==> (if biased_var(w) > rv(EPS) {
            !isnull(o) && n >= 2 && oval(o) == (w.last().unwrap() - ps(w, 1) / (n as real)) / rsqrt(ssd(w) / ((n - 1) as real))
        } else { isnull(o) })
}
pub proof fn lemma_cnt0_ps0(w: Seq<Option<real>>, k: int)
    requires cnt(w) == 0,
    ensures ps(w, k) == 0real,
    decreases w.len()
{
    if w.len() > 0 { lemma_cnt_le_len(w.drop_last()); lemma_cnt0_ps0(w.drop_last(), k); }
}
// a window with a single valid observation has no spread: S2 == S1^2
pub proof fn lemma_single_no_spread(w: Seq<Option<real>>)
    requires cnt(w) == 1,
    ensures ps(w, 2) == ps(w, 1) * ps(w, 1), biased_var(w) == 0real,
    decreases w.len()
{
    if w.len() > 0 {
        lemma_cnt_le_len(w.drop_last());
        if w.last().is_some() {
            lemma_cnt0_ps0(w.drop_last(), 1); lemma_cnt0_ps0(w.drop_last(), 2);
        } else {
            lemma_single_no_spread(w.drop_last());
        }
        let (s1, s2) = (ps(w, 1), ps(w, 2));
        assert(s2 == s1 * s1);
        assert(s2 / 1real - (s1 / 1real) * (s1 / 1real) == 0real) by(nonlinear_arith) requires s2 == s1 * s1;
    }
}

//@fn name=ts_vzscore_to crate=tea-rolling ctx="pub trait RollingValidNorm" props=C03,C05,C06,C07,C08 arith=C05
//@types T::Inner=${TI}
//@sig fn ts_vzscore_to<V: RollingDrivers<T>, O: Vec1<U>>(this: &V, window: usize, min_periods: Option<usize>, out: Option<&mut O::Buf>) -> (r: Option<O>)
//@spec
    requires
        canon_seq(this.view()),
        out matches Some(o) ==> buf_fresh(o, this.view().len()),
        (window == 0 && out.is_none() && this.view().len() > 0) ==> panic_allowed(),
        this.view().len() <= 0x7fff_ffff,      // A-LEN
    ensures
        window >= 1 ==> delivered_each(r, match out { Some(o) => Some(final(o).written()), None => None }, this.view().len(),       // #C05,C07 one_output_per_input
            |i: int, o: U| zscore_spec(vals(wnd(this.view(), window, i)), mp_eff(min_periods, window, 0), o)),                           // #C03,C05,C06,C08 value_and_mask
//@closure 1 name=CloVzscore trait="RollingFn<T, U>" params="v_rm: Option<T>, v: T" ret="(res: U)" push="Call { rm: v_rm, v: v, out: __r }" caps="mut n: usize, mut sum: f64, mut sum2: f64, min_periods: usize"
//@closure 1 extra
    open spec fn hist(&self) -> Seq<Call<T, U>> { self.h@ }
    open spec fn elem_ok(v: T) -> bool { canon(v) }
    open spec fn cap_len() -> nat { 0x7fff_ffff }
//@closure 1 inv
        &&& hist_wf(self.h@) && canon_seq(adds(self.h@))
        &&& sums_ok(vals(win(self.h@)), self.n, self.sum, self.sum2, self.sum, self.sum, 2)         // #C03 state_describes_window
        &&& outs_ok(self.h@, |w: Seq<T>, o: U| zscore_spec(vals(w), self.min_periods as int, o))
//@at closure 1 first
        let ghost w0 = vals(win(self.h@));
        let ghost wp = w0.push(val(v));
        proof {
            broadcast use a_real, a_real_cmp;
            ax_lits();
            reveal_with_fuel(rpow, 4);
            lemma_step_vals(self.h@, v_rm, v);
            lemma_small_products(self.n as int); lemma_small_products(self.n as int + 1);
            lemma_cnt_le_len(wp);
            if cnt(wp) == 1 { lemma_single_no_spread(wp); }
            if cnt(wp) >= 2 {
                lemma_var_forms(ps(wp, 1), ps(wp, 2), cnt(wp) as real);
                if biased_var(wp) > 0real {
                    lemma_scaled_pos(biased_var(wp), cnt(wp) as real);
                    ax_rsqrt(ssd(wp) / ((cnt(wp) - 1) as real));
                    let s = rsqrt(ssd(wp) / ((cnt(wp) - 1) as real));
                    assert(s != 0real) by(nonlinear_arith) requires s * s == ssd(wp) / ((cnt(wp) - 1) as real), ssd(wp) / ((cnt(wp) - 1) as real) > 0real;
                }
            }
        }
//@at closure 1 last
        proof {
            let c = Call { rm: v_rm, v: v, out: __r };
            lemma_fifo_step(self.h@, c);
            if v_rm.is_some() { assert(v_rm.unwrap() == adds(self.h@).push(v)[nrm(self.h@) as int]); }
            assert(adds(self.h@.push(c)) =~= adds(self.h@).push(v));
            assert(vals(win(self.h@).push(v)) =~= wp);
            assert(wp.last() == val(v));
            assert(zscore_spec(vals(win(self.h@).push(v)), self.min_periods as int, __r));       // #C03,C05 output_is_window_statistic
            lemma_outs_step(self.h@, c, |w: Seq<T>, o: U| zscore_spec(vals(w), self.min_periods as int, o));
            assert(sums_ok(vals(win(self.h@.push(c))), n, sum, sum2, sum, sum, 2));              // #C03 state_describes_window
        }
//@at body first
    let ghost mp0 = min_periods;
    let ghost out0 = out;
    proof { ax_lits(); }
//@at body last
    proof {
        let h = __clo1.h@;
        let s = outs(h);
        if window >= 1 {
            let p = |i: int, o: U| zscore_spec(vals(wnd(this.view(), window, i)), mp_eff(mp0, window, 0), o);
            assert forall|i: int| 0 <= i < s.len() implies p(i, #[trigger] s[i]) by {
                lemma_fifo_window_is_wnd(h, this.view(), window, i);
                assert(zscore_spec(vals(fifo_window(h, i)), __clo1.min_periods as int, h[i].out));
            }
            lemma_delivered_each(__ret, match out0 { Some(o) => Some(final(o).written()), None => None }, s, p);
        }
    }
//@end

} // verus!
fn main() {}
