use vstd::prelude::*;
use vstd::std_specs::ops::*;
use vstd::std_specs::cmp::*;
verus! {
//@include prelude.rs
//@include assume_real.rs
//@include assume_std.rs
//@include dtype.rs
//@include dtype_optcast.rs
//@include lemmas/window.rs

pub type T = ${T};
pub type T2 = ${T};
pub type U = ${U};
pub type P = (T, T2);

//@const crate=tea-core name=EPS
pub axiom fn ax_lits()
    ensures rv(0.0f64) == 0real, !nan(0.0f64), rv(1e-14f64) * 100000000000000real == 1real, !nan(1e-14f64), rv(EPS) == rv(1e-14f64), !nan(EPS);

pub open spec fn isnull(o: U) -> bool { o.opt().is_none() }
pub open spec fn oval(o: U) -> real { o.opt().unwrap().rval() }
pub open spec fn mp_eff(mp: Option<usize>, window: usize, intrinsic: int) -> int {
    let m = match mp { Some(m) => m as int, None => (window / 2) as int };
    let m2 = if m <= window { m } else { window as int };
    if m2 >= intrinsic { m2 } else { intrinsic }
}

// pairwise-complete observations: a pair counts only when both sides are non-null (C04, C08)
pub open spec fn both(p: P) -> bool { val(p.0).is_some() && val(p.1).is_some() }
pub open spec fn ga(p: P) -> Option<real> { if both(p) { Some(val(p.0).unwrap()) } else { None } }
pub open spec fn gb(p: P) -> Option<real> { if both(p) { Some(val(p.1).unwrap()) } else { None } }
pub open spec fn gab(p: P) -> Option<real> { if both(p) { Some(val(p.0).unwrap() * val(p.1).unwrap()) } else { None } }
pub open spec fn gaa(p: P) -> Option<real> { if both(p) { Some(val(p.0).unwrap() * val(p.0).unwrap()) } else { None } }
pub open spec fn gbb(p: P) -> Option<real> { if both(p) { Some(val(p.1).unwrap() * val(p.1).unwrap()) } else { None } }
pub open spec fn npair(w: Seq<P>) -> int { cnt(mvals(w, |p: P| ga(p))) }
pub open spec fn sa(w: Seq<P>) -> real { ps(mvals(w, |p: P| ga(p)), 1) }
pub open spec fn sb(w: Seq<P>) -> real { ps(mvals(w, |p: P| gb(p)), 1) }
pub open spec fn sab(w: Seq<P>) -> real { ps(mvals(w, |p: P| gab(p)), 1) }
pub open spec fn saa(w: Seq<P>) -> real { ps(mvals(w, |p: P| gaa(p)), 1) }
pub open spec fn sbb(w: Seq<P>) -> real { ps(mvals(w, |p: P| gbb(p)), 1) }
pub open spec fn canon2(p: P) -> bool { canon(p.0) && canon(p.1) }

// sample covariance over the pairwise-complete pairs of the window:  (Sab - Sa Sb / n) / (n - 1)
pub open spec fn cov_spec(w: Seq<P>, mp: int, o: U) -> bool {
    let n = npair(w);
    &&& n < mp ==> isnull(o)
    &&& (n >= mp && n >= 2) ==> !isnull(o) && oval(o) == (sab(w) - sa(w) * sb(w) / (n as real)) / ((n - 1) as real)
}

// all five counts agree (the same pairs are complete for every feature)
pub proof fn lemma_counts_agree(w: Seq<P>)
    ensures cnt(mvals(w, |p: P| gb(p))) == npair(w), cnt(mvals(w, |p: P| gab(p))) == npair(w),
        cnt(mvals(w, |p: P| gaa(p))) == npair(w), cnt(mvals(w, |p: P| gbb(p))) == npair(w),
    decreases w.len()
{
    if w.len() > 0 {
        lemma_counts_agree(w.drop_last());
        assert(mvals(w, |p: P| ga(p)).drop_last() =~= mvals(w.drop_last(), |p: P| ga(p)));
        assert(mvals(w, |p: P| gb(p)).drop_last() =~= mvals(w.drop_last(), |p: P| gb(p)));
        assert(mvals(w, |p: P| gab(p)).drop_last() =~= mvals(w.drop_last(), |p: P| gab(p)));
        assert(mvals(w, |p: P| gaa(p)).drop_last() =~= mvals(w.drop_last(), |p: P| gaa(p)));
        assert(mvals(w, |p: P| gbb(p)).drop_last() =~= mvals(w.drop_last(), |p: P| gbb(p)));
    }
}


// biased variance from raw sums
pub open spec fn bvar(s2: real, s1: real, n: int) -> real { s2 / (n as real) - (s1 / (n as real)) * (s1 / (n as real)) }
// Pearson correlation over the pairwise-complete pairs:  (Sab/n - Sa Sb/n^2) / sqrt(var_a var_b), null when either spread is zero (<= EPS)
pub open spec fn corr_spec(w: Seq<P>, mp: int, o: U) -> bool {
    let n = npair(w);
    let (va, vb) = (bvar(saa(w), sa(w), n), bvar(sbb(w), sb(w), n));
    &&& n < mp ==> isnull(o)
    &&& (n >= mp && n >= 1) ==> (if va > rv(EPS) && vb > rv(EPS) {
            !isnull(o) && oval(o) == (sab(w) / (n as real) - sa(w) * sb(w) / ((n as real) * ((n as real) * 1real))) / rsqrt(va * vb)
        } else { isnull(o) })
}

//@fn name=ts_vcov_to crate=tea-rolling ctx="pub trait RollingValidBinary" props=C04,C05,C06,C08 arith=C05
//@types T::Inner=${TI}; T2::Inner=${TI}
//@sig fn ts_vcov_to<V: RollingDrivers<T>, V2: Vec1View<T2>, O: Vec1<U>>(this: &V, other: &V2, window: usize, min_periods: Option<usize>, out: Option<&mut O::Buf>) -> (r: Option<O>)
//@spec
    requires
        canon_seq(this.view()), canon_seq(other.view()),
        other.view().len() >= this.view().len(),          // equal-length series (a shorter second series is a clean panic, C10)
        out matches Some(o) ==> buf_fresh(o, this.view().len()),
        (window == 0 && out.is_none() && this.view().len() > 0) ==> panic_allowed(),
        this.view().len() <= 0x7fff_ffff,      // A-LEN
    ensures
        window >= 1 ==> delivered_each(r, match out { Some(o) => Some(final(o).written()), None => None }, this.view().len(),       // #C05 one_output_per_input
            |i: int, o: U| cov_spec(wnd(zipv(this.view(), other.view()), window, i), mp_eff(min_periods, window, 2), o)),                // #C04,C05,C06 value_and_mask
//@closure 1 name=CloVcov trait="RollingFn<P, U>" params="remove_values: Option<P>, v: P" ret="(res: U)" push="Call { rm: remove_values, v: v, out: __r }" callty="Call<P, U>" caps="mut sum_a: f64, mut sum_b: f64, mut sum_ab: f64, mut n: usize, min_periods: usize"
//@closure 1 extra
    open spec fn hist(&self) -> Seq<Call<P, U>> { self.h@ }
    open spec fn elem_ok(v: P) -> bool { canon2(v) }
    open spec fn cap_len() -> nat { 0x7fff_ffff }
//@closure 1 inv
        let w = win(self.h@);
        &&& hist_wf(self.h@) && (forall|i: int| 0 <= i < self.h@.len() ==> canon2(#[trigger] adds(self.h@)[i]))
        &&& self.n as int == npair(w)                                       // #C04 state_describes_window
        &&& rv(self.sum_a) == sa(w) && !nan(self.sum_a)                     // #C04 state_describes_window
        &&& rv(self.sum_b) == sb(w) && !nan(self.sum_b)                     // #C04 state_describes_window
        &&& rv(self.sum_ab) == sab(w) && !nan(self.sum_ab)                  // #C04 state_describes_window
        &&& self.min_periods >= 2
        &&& outs_ok(self.h@, |w: Seq<P>, o: U| cov_spec(w, self.min_periods as int, o))
//@at closure 1 first
        let ghost w0 = win(self.h@);
        let ghost wp = w0.push(v);
        proof {
            broadcast use a_real, a_real_cmp;
            ax_lits();
            lemma_step_map(self.h@, remove_values, v, |p: P| ga(p));
            lemma_step_map(self.h@, remove_values, v, |p: P| gb(p));
            lemma_step_map(self.h@, remove_values, v, |p: P| gab(p));
            lemma_counts_agree(w0); lemma_counts_agree(wp); lemma_counts_agree(win_after(self.h@, remove_values, v));
            if remove_values.is_some() { assert(remove_values.unwrap() == adds(self.h@).push(v)[nrm(self.h@) as int]); }
        }
//@at closure 1 last
        proof {
            let c = Call { rm: remove_values, v: v, out: __r };
            lemma_fifo_step(self.h@, c);
            assert(adds(self.h@.push(c)) =~= adds(self.h@).push(v));
            assert(cov_spec(wp, self.min_periods as int, __r));       // #C04,C05 output_is_window_statistic
            lemma_outs_step(self.h@, c, |w: Seq<P>, o: U| cov_spec(w, self.min_periods as int, o));
        }
//@at body first
    let ghost mp0 = min_periods;
    let ghost out0 = out;
    proof { ax_lits(); }
//@at body last
    proof {
        let h = __clo1.h@;
        let s = outs(h);
        let z = zipv(this.view(), other.view());
        if window >= 1 {
            let p = |i: int, o: U| cov_spec(wnd(z, window, i), mp_eff(mp0, window, 2), o);
            assert forall|i: int| 0 <= i < s.len() implies p(i, #[trigger] s[i]) by {
                lemma_fifo_window_is_wnd(h, z, window, i);
                assert(cov_spec(fifo_window(h, i), __clo1.min_periods as int, h[i].out));
            }
            lemma_delivered_each(__ret, match out0 { Some(o) => Some(final(o).written()), None => None }, s, p);
        }
    }
//@end

//@fn name=ts_vcorr_to crate=tea-rolling ctx="pub trait RollingValidBinary" props=C04,C05,C06,C08 arith=C05
//@types T::Inner=${TI}; T2::Inner=${TI}
//@sig fn ts_vcorr_to<V: RollingDrivers<T>, V2: Vec1View<T2>, O: Vec1<U>>(this: &V, other: &V2, window: usize, min_periods: Option<usize>, out: Option<&mut O::Buf>) -> (r: Option<O>)
//@replace (var_a > EPS) & (var_b > EPS) => (var_a > EPS) && (var_b > EPS)
//@spec
    requires
        canon_seq(this.view()), canon_seq(other.view()),
        other.view().len() >= this.view().len(),          // equal-length series (a shorter second series is a clean panic, C10)
        out matches Some(o) ==> buf_fresh(o, this.view().len()),
        (window == 0 && out.is_none() && this.view().len() > 0) ==> panic_allowed(),
        this.view().len() <= 0x7fff_ffff,      // A-LEN
    ensures
        window >= 1 ==> delivered_each(r, match out { Some(o) => Some(final(o).written()), None => None }, this.view().len(),       // #C05 one_output_per_input
            |i: int, o: U| corr_spec(wnd(zipv(this.view(), other.view()), window, i), mp_eff(min_periods, window, 0), o)),                // #C04,C05,C06 value_and_mask
//@closure 1 name=CloVcorr trait="RollingFn<P, U>" params="remove_values: Option<P>, v: P" ret="(res: U)" push="Call { rm: remove_values, v: v, out: __r }" callty="Call<P, U>" caps="mut sum_a: f64, mut sum2_a: f64, mut sum_b: f64, mut sum2_b: f64, mut sum_ab: f64, mut n: usize, min_periods: usize"
//@closure 1 extra
    open spec fn hist(&self) -> Seq<Call<P, U>> { self.h@ }
    open spec fn elem_ok(v: P) -> bool { canon2(v) }
    open spec fn cap_len() -> nat { 0x7fff_ffff }
//@closure 1 inv
        let w = win(self.h@);
        &&& hist_wf(self.h@) && (forall|i: int| 0 <= i < self.h@.len() ==> canon2(#[trigger] adds(self.h@)[i]))
        &&& self.n as int == npair(w)                                       // #C04 state_describes_window
        &&& rv(self.sum_a) == sa(w) && !nan(self.sum_a)                     // #C04 state_describes_window
        &&& rv(self.sum_b) == sb(w) && !nan(self.sum_b)                     // #C04 state_describes_window
        &&& rv(self.sum_ab) == sab(w) && !nan(self.sum_ab)                  // #C04 state_describes_window
        &&& rv(self.sum2_a) == saa(w) && !nan(self.sum2_a)                  // #C04 state_describes_window
        &&& rv(self.sum2_b) == sbb(w) && !nan(self.sum2_b)                  // #C04 state_describes_window
        &&& outs_ok(self.h@, |w: Seq<P>, o: U| corr_spec(w, self.min_periods as int, o))
//@at closure 1 first
        let ghost w0 = win(self.h@);
        let ghost wp = w0.push(v);
        proof {
            broadcast use a_real, a_real_cmp;
            ax_lits();
            lemma_step_map(self.h@, remove_values, v, |p: P| ga(p));
            lemma_step_map(self.h@, remove_values, v, |p: P| gb(p));
            lemma_step_map(self.h@, remove_values, v, |p: P| gab(p));
            lemma_step_map(self.h@, remove_values, v, |p: P| gaa(p));
            lemma_step_map(self.h@, remove_values, v, |p: P| gbb(p));
            reveal_with_fuel(rpow, 3);
            if npair(wp) >= 1 { let kr = npair(wp) as real; assert(kr * (kr * 1real) > 0real) by(nonlinear_arith) requires kr >= 1real; }
            if npair(wp) >= 1 && bvar(saa(wp), sa(wp), npair(wp)) > 0real && bvar(sbb(wp), sb(wp), npair(wp)) > 0real {
                let (x, y) = (bvar(saa(wp), sa(wp), npair(wp)), bvar(sbb(wp), sb(wp), npair(wp)));
                assert(x * y > 0real) by(nonlinear_arith) requires x > 0real, y > 0real;
                ax_rsqrt(x * y);
                let r = rsqrt(x * y);
                assert(r != 0real) by(nonlinear_arith) requires r * r == x * y, x * y > 0real;
            }
            lemma_counts_agree(w0); lemma_counts_agree(wp); lemma_counts_agree(win_after(self.h@, remove_values, v));
            if remove_values.is_some() { assert(remove_values.unwrap() == adds(self.h@).push(v)[nrm(self.h@) as int]); }
        }
//@at closure 1 last
        proof {
            let c = Call { rm: remove_values, v: v, out: __r };
            lemma_fifo_step(self.h@, c);
            assert(adds(self.h@.push(c)) =~= adds(self.h@).push(v));
            assert(corr_spec(wp, self.min_periods as int, __r));       // #C04,C05 output_is_window_statistic
            lemma_outs_step(self.h@, c, |w: Seq<P>, o: U| corr_spec(w, self.min_periods as int, o));
        }
//@at body first
    let ghost mp0 = min_periods;
    let ghost out0 = out;
    proof { ax_lits(); }
//@at body last
    proof {
        let h = __clo1.h@;
        let s = outs(h);
        let z = zipv(this.view(), other.view());
        if window >= 1 {
            let p = |i: int, o: U| corr_spec(wnd(z, window, i), mp_eff(mp0, window, 0), o);
            assert forall|i: int| 0 <= i < s.len() implies p(i, #[trigger] s[i]) by {
                lemma_fifo_window_is_wnd(h, z, window, i);
                assert(corr_spec(fifo_window(h, i), __clo1.min_periods as int, h[i].out));
            }
            lemma_delivered_each(__ret, match out0 { Some(o) => Some(final(o).written()), None => None }, s, p);
        }
    }
//@end


// ---- regression of the first series (y) on the second (x) over the pairwise-complete pairs of the window (C04):
// beta = (n Sxy - Sx Sy) / (n Sxx - Sx^2), alpha = (Sy - beta Sx) / n, SSE = Syy - alpha Sy - beta Sxy.
// In the pair sums a = y (first series), b = x (second series).  When the x values have no spread (n Sxx == Sx^2, in particular
// n <= 1) and the numerator vanishes with it, the fit is undefined: all three are null (0 / 0), never a number.
pub open spec fn null3(o: (U, U, U)) -> bool { isnull(o.0) && isnull(o.1) && isnull(o.2) }
pub open spec fn regx_spec(w: Seq<P>, mp: int, o: (U, U, U)) -> bool {
    let n = npair(w);
    let nr = n as real;
    let d = nr * sbb(w) - sb(w) * sb(w);
    let num = nr * sab(w) - sa(w) * sb(w);
    &&& n < mp ==> null3(o)
    &&& (n >= mp && d != 0real) ==> {
        let beta = num / d;
        let alpha = (sa(w) - beta * sb(w)) / nr;
        &&& !isnull(o.0) && !isnull(o.1) && !isnull(o.2)
        &&& oval(o.1) == beta && oval(o.0) == alpha && oval(o.2) == saa(w) - alpha * sa(w) - beta * sab(w)
    }
    &&& (n >= mp && d == 0real && num == 0real) ==> null3(o)           // undefined fit: null, never a number
}
pub proof fn lemma_cnt0_ps0(w: Seq<Option<real>>, k: int)
    requires cnt(w) == 0,
    ensures ps(w, k) == 0real,
    decreases w.len()
{
    if w.len() > 0 { lemma_cnt_le_len(w.drop_last()); lemma_cnt0_ps0(w.drop_last(), k); }
}

//@fn name=ts_vregx_all crate=tea-rolling ctx="pub trait RollingValidRegBinary" props=C04,C05,C06,C08 arith=C05
//@types T::Inner=${TI}; T2::Inner=${TI}
//@sig fn ts_vregx_all<V: RollingDrivers<T>, V2: Vec1View<T2>, O: Vec1<(U, U, U)>>(this: &V, other: &V2, window: usize, min_periods: Option<usize>) -> (r: O)
//@spec
    requires
        canon_seq(this.view()), canon_seq(other.view()),
        other.view().len() >= this.view().len(),          // equal-length series (a shorter second series is a clean panic, C10)
        window >= 1 || this.view().len() == 0,            // a zero window on a non-empty series is a clean panic of the driver
        this.view().len() <= 0x7fff_ffff,      // A-LEN
    ensures
        window >= 1 ==> r.oview().len() == this.view().len(),                                                                        // #C05 one_output_per_input
        window >= 1 ==> forall|i: int| 0 <= i < this.view().len() ==>
            regx_spec(wnd(zipv(this.view(), other.view()), window, i), mp_eff(min_periods, window, 0), #[trigger] r.oview()[i]),       // #C04,C05,C06 value_and_mask
//@closure 1 name=CloVregxAll trait="RollingFn<P, (U, U, U)>" params="remove_values: Option<P>, v: P" ret="(res: (U, U, U))" push="Call { rm: remove_values, v: v, out: __r }" callty="Call<P, (U, U, U)>" caps="mut sum_a: f64, mut sum_b: f64, mut sum_b2: f64, mut sum_ab: f64, mut sum_a2: f64, mut n: usize, min_periods: usize"
//@closure 1 extra
    open spec fn hist(&self) -> Seq<Call<P, (U, U, U)>> { self.h@ }
    open spec fn elem_ok(v: P) -> bool { canon2(v) }
    open spec fn cap_len() -> nat { 0x7fff_ffff }
//@closure 1 inv
        let w = win(self.h@);
        &&& hist_wf(self.h@) && (forall|i: int| 0 <= i < self.h@.len() ==> canon2(#[trigger] adds(self.h@)[i]))
        &&& self.n as int == npair(w)                                       // #C04 state_describes_window
        &&& rv(self.sum_a) == sa(w) && !nan(self.sum_a)                     // #C04 state_describes_window
        &&& rv(self.sum_b) == sb(w) && !nan(self.sum_b)                     // #C04 state_describes_window
        &&& rv(self.sum_ab) == sab(w) && !nan(self.sum_ab)                  // #C04 state_describes_window
        &&& rv(self.sum_a2) == saa(w) && !nan(self.sum_a2)                  // #C04 state_describes_window
        &&& rv(self.sum_b2) == sbb(w) && !nan(self.sum_b2)                  // #C04 state_describes_window
        &&& outs_ok(self.h@, |w: Seq<P>, o: (U, U, U)| regx_spec(w, self.min_periods as int, o))
//@at closure 1 first
        let ghost w0 = win(self.h@);
        let ghost wp = w0.push(v);
        broadcast use a_real, a_real_cmp, ax_div_nan;
        proof {
            ax_lits();
            lemma_step_map(self.h@, remove_values, v, |p: P| ga(p));
            lemma_step_map(self.h@, remove_values, v, |p: P| gb(p));
            lemma_step_map(self.h@, remove_values, v, |p: P| gab(p));
            lemma_step_map(self.h@, remove_values, v, |p: P| gaa(p));
            lemma_step_map(self.h@, remove_values, v, |p: P| gbb(p));
            reveal_with_fuel(rpow, 3);
            lemma_counts_agree(w0); lemma_counts_agree(wp); lemma_counts_agree(win_after(self.h@, remove_values, v));
            if remove_values.is_some() { assert(remove_values.unwrap() == adds(self.h@).push(v)[nrm(self.h@) as int]); }
            if npair(wp) == 0 {
                lemma_cnt0_ps0(mvals(wp, |p: P| ga(p)), 1); lemma_cnt0_ps0(mvals(wp, |p: P| gb(p)), 1);
                lemma_cnt0_ps0(mvals(wp, |p: P| gab(p)), 1); lemma_cnt0_ps0(mvals(wp, |p: P| gbb(p)), 1);
            }
        }
//@at closure 1 last
        proof {
            let c = Call { rm: remove_values, v: v, out: __r };
            lemma_fifo_step(self.h@, c);
            assert(adds(self.h@.push(c)) =~= adds(self.h@).push(v));
            assert(regx_spec(wp, self.min_periods as int, __r));       // #C04,C05 output_is_window_statistic
            lemma_outs_step(self.h@, c, |w: Seq<P>, o: (U, U, U)| regx_spec(w, self.min_periods as int, o));
        }
//@at body first
    let ghost mp0 = min_periods;
    proof { ax_lits(); }
//@at body last
    proof {
        let h = __clo1.h@;
        let s = outs(h);
        let z = zipv(this.view(), other.view());
        if window >= 1 {
            assert(__ret.oview() =~= s);
            assert forall|i: int| 0 <= i < this.view().len() implies regx_spec(wnd(z, window, i), mp_eff(mp0, window, 0), #[trigger] __ret.oview()[i]) by {
                lemma_fifo_window_is_wnd(h, z, window, i);
                assert(regx_spec(fifo_window(h, i), __clo1.min_periods as int, h[i].out));
            }
        }
    }
//@end


// the slope and the intercept alone (ts_vregx_beta / ts_vregx_alpha): the same closed forms as in the triple
pub open spec fn regx_beta_spec(w: Seq<P>, mp: int, o: U) -> bool {
    let n = npair(w);
    let nr = n as real;
    let d = nr * sbb(w) - sb(w) * sb(w);
    let num = nr * sab(w) - sa(w) * sb(w);
    &&& n < mp ==> isnull(o)
    &&& (n >= mp && d != 0real) ==> !isnull(o) && oval(o) == num / d
    &&& (n >= mp && d == 0real && num == 0real) ==> isnull(o)           // undefined fit: null, never a number
}
pub open spec fn regx_alpha_spec(w: Seq<P>, mp: int, o: U) -> bool {
    let n = npair(w);
    let nr = n as real;
    let d = nr * sbb(w) - sb(w) * sb(w);
    let num = nr * sab(w) - sa(w) * sb(w);
    &&& n < mp ==> isnull(o)
    &&& (n >= mp && d != 0real) ==> !isnull(o) && oval(o) == (sa(w) - (num / d) * sb(w)) / nr
    &&& (n >= mp && d == 0real && num == 0real) ==> isnull(o)           // undefined fit: null, never a number
}

//@fn name=ts_vregx_beta_to crate=tea-rolling ctx="pub trait RollingValidRegBinary" props=C04,C05,C06,C08 arith=C05
//@types T::Inner=${TI}; T2::Inner=${TI}
//@sig fn ts_vregx_beta_to<V: RollingDrivers<T>, V2: Vec1View<T2>, O: Vec1<U>>(this: &V, other: &V2, window: usize, min_periods: Option<usize>, out: Option<&mut O::Buf>) -> (r: Option<O>)
//@spec
    requires
        canon_seq(this.view()), canon_seq(other.view()),
        other.view().len() >= this.view().len(),          // equal-length series (a shorter second series is a clean panic, C10)
        out matches Some(o) ==> buf_fresh(o, this.view().len()),
        (window == 0 && out.is_none() && this.view().len() > 0) ==> panic_allowed(),
        this.view().len() <= 0x7fff_ffff,      // A-LEN
    ensures
        window >= 1 ==> delivered_each(r, match out { Some(o) => Some(final(o).written()), None => None }, this.view().len(),       // #C05 one_output_per_input
            |i: int, o: U| regx_beta_spec(wnd(zipv(this.view(), other.view()), window, i), mp_eff(min_periods, window, 0), o)),                // #C04,C05,C06 value_and_mask
//@closure 1 name=CloVregxBeta trait="RollingFn<P, U>" params="remove_values: Option<P>, v: P" ret="(res: U)" push="Call { rm: remove_values, v: v, out: __r }" callty="Call<P, U>" caps="mut sum_a: f64, mut sum_b: f64, mut sum_b2: f64, mut sum_ab: f64, mut n: usize, min_periods: usize"
//@closure 1 extra
    open spec fn hist(&self) -> Seq<Call<P, U>> { self.h@ }
    open spec fn elem_ok(v: P) -> bool { canon2(v) }
    open spec fn cap_len() -> nat { 0x7fff_ffff }
//@closure 1 inv
        let w = win(self.h@);
        &&& hist_wf(self.h@) && (forall|i: int| 0 <= i < self.h@.len() ==> canon2(#[trigger] adds(self.h@)[i]))
        &&& self.n as int == npair(w)                                       // #C04 state_describes_window
        &&& rv(self.sum_a) == sa(w) && !nan(self.sum_a)                     // #C04 state_describes_window
        &&& rv(self.sum_b) == sb(w) && !nan(self.sum_b)                     // #C04 state_describes_window
        &&& rv(self.sum_ab) == sab(w) && !nan(self.sum_ab)                  // #C04 state_describes_window
        &&& rv(self.sum_b2) == sbb(w) && !nan(self.sum_b2)                  // #C04 state_describes_window
        &&& outs_ok(self.h@, |w: Seq<P>, o: U| regx_beta_spec(w, self.min_periods as int, o))
//@at closure 1 first
        let ghost w0 = win(self.h@);
        let ghost wp = w0.push(v);
        broadcast use a_real, a_real_cmp, ax_div_nan;
        proof {
            ax_lits();
            lemma_step_map(self.h@, remove_values, v, |p: P| ga(p));
            lemma_step_map(self.h@, remove_values, v, |p: P| gb(p));
            lemma_step_map(self.h@, remove_values, v, |p: P| gab(p));
            lemma_step_map(self.h@, remove_values, v, |p: P| gbb(p));
            reveal_with_fuel(rpow, 3);
            lemma_counts_agree(w0); lemma_counts_agree(wp); lemma_counts_agree(win_after(self.h@, remove_values, v));
            if remove_values.is_some() { assert(remove_values.unwrap() == adds(self.h@).push(v)[nrm(self.h@) as int]); }
            if npair(wp) == 0 {
                lemma_cnt0_ps0(mvals(wp, |p: P| ga(p)), 1); lemma_cnt0_ps0(mvals(wp, |p: P| gb(p)), 1);
                lemma_cnt0_ps0(mvals(wp, |p: P| gab(p)), 1); lemma_cnt0_ps0(mvals(wp, |p: P| gbb(p)), 1);
            }
        }
//@at closure 1 last
        proof {
            let c = Call { rm: remove_values, v: v, out: __r };
            lemma_fifo_step(self.h@, c);
            assert(adds(self.h@.push(c)) =~= adds(self.h@).push(v));
            assert(regx_beta_spec(wp, self.min_periods as int, __r));       // #C04,C05 output_is_window_statistic
            lemma_outs_step(self.h@, c, |w: Seq<P>, o: U| regx_beta_spec(w, self.min_periods as int, o));
        }
//@at body first
    let ghost mp0 = min_periods;
    let ghost out0 = out;
    proof { ax_lits(); }
//@at body last
    proof {
        let h = __clo1.h@;
        let s = outs(h);
        let z = zipv(this.view(), other.view());
        if window >= 1 {
            let p = |i: int, o: U| regx_beta_spec(wnd(z, window, i), mp_eff(mp0, window, 0), o);
            assert forall|i: int| 0 <= i < s.len() implies p(i, #[trigger] s[i]) by {
                lemma_fifo_window_is_wnd(h, z, window, i);
                assert(regx_beta_spec(fifo_window(h, i), __clo1.min_periods as int, h[i].out));
            }
            lemma_delivered_each(__ret, match out0 { Some(o) => Some(final(o).written()), None => None }, s, p);
        }
    }
//@end

//@fn name=ts_vregx_alpha_to crate=tea-rolling ctx="pub trait RollingValidRegBinary" props=C04,C05,C06,C08 arith=C05
//@types T::Inner=${TI}; T2::Inner=${TI}
//@sig fn ts_vregx_alpha_to<V: RollingDrivers<T>, V2: Vec1View<T2>, O: Vec1<U>>(this: &V, other: &V2, window: usize, min_periods: Option<usize>, out: Option<&mut O::Buf>) -> (r: Option<O>)
//@spec
    requires
        canon_seq(this.view()), canon_seq(other.view()),
        other.view().len() >= this.view().len(),          // equal-length series (a shorter second series is a clean panic, C10)
        out matches Some(o) ==> buf_fresh(o, this.view().len()),
        (window == 0 && out.is_none() && this.view().len() > 0) ==> panic_allowed(),
        this.view().len() <= 0x7fff_ffff,      // A-LEN
    ensures
        window >= 1 ==> delivered_each(r, match out { Some(o) => Some(final(o).written()), None => None }, this.view().len(),       // #C05 one_output_per_input
            |i: int, o: U| regx_alpha_spec(wnd(zipv(this.view(), other.view()), window, i), mp_eff(min_periods, window, 0), o)),                // #C04,C05,C06 value_and_mask
//@closure 1 name=CloVregxAlpha trait="RollingFn<P, U>" params="remove_values: Option<P>, v: P" ret="(res: U)" push="Call { rm: remove_values, v: v, out: __r }" callty="Call<P, U>" caps="mut sum_a: f64, mut sum_b: f64, mut sum_b2: f64, mut sum_ab: f64, mut n: usize, min_periods: usize"
//@closure 1 extra
    open spec fn hist(&self) -> Seq<Call<P, U>> { self.h@ }
    open spec fn elem_ok(v: P) -> bool { canon2(v) }
    open spec fn cap_len() -> nat { 0x7fff_ffff }
//@closure 1 inv
        let w = win(self.h@);
        &&& hist_wf(self.h@) && (forall|i: int| 0 <= i < self.h@.len() ==> canon2(#[trigger] adds(self.h@)[i]))
        &&& self.n as int == npair(w)                                       // #C04 state_describes_window
        &&& rv(self.sum_a) == sa(w) && !nan(self.sum_a)                     // #C04 state_describes_window
        &&& rv(self.sum_b) == sb(w) && !nan(self.sum_b)                     // #C04 state_describes_window
        &&& rv(self.sum_ab) == sab(w) && !nan(self.sum_ab)                  // #C04 state_describes_window
        &&& rv(self.sum_b2) == sbb(w) && !nan(self.sum_b2)                  // #C04 state_describes_window
        &&& outs_ok(self.h@, |w: Seq<P>, o: U| regx_alpha_spec(w, self.min_periods as int, o))
//@at closure 1 first
        let ghost w0 = win(self.h@);
        let ghost wp = w0.push(v);
        broadcast use a_real, a_real_cmp, ax_div_nan;
        proof {
            ax_lits();
            lemma_step_map(self.h@, remove_values, v, |p: P| ga(p));
            lemma_step_map(self.h@, remove_values, v, |p: P| gb(p));
            lemma_step_map(self.h@, remove_values, v, |p: P| gab(p));
            lemma_step_map(self.h@, remove_values, v, |p: P| gbb(p));
            reveal_with_fuel(rpow, 3);
            lemma_counts_agree(w0); lemma_counts_agree(wp); lemma_counts_agree(win_after(self.h@, remove_values, v));
            if remove_values.is_some() { assert(remove_values.unwrap() == adds(self.h@).push(v)[nrm(self.h@) as int]); }
            if npair(wp) == 0 {
                lemma_cnt0_ps0(mvals(wp, |p: P| ga(p)), 1); lemma_cnt0_ps0(mvals(wp, |p: P| gb(p)), 1);
                lemma_cnt0_ps0(mvals(wp, |p: P| gab(p)), 1); lemma_cnt0_ps0(mvals(wp, |p: P| gbb(p)), 1);
            }
        }
//@at closure 1 last
        proof {
            let c = Call { rm: remove_values, v: v, out: __r };
            lemma_fifo_step(self.h@, c);
            assert(adds(self.h@.push(c)) =~= adds(self.h@).push(v));
            assert(regx_alpha_spec(wp, self.min_periods as int, __r));       // #C04,C05 output_is_window_statistic
            lemma_outs_step(self.h@, c, |w: Seq<P>, o: U| regx_alpha_spec(w, self.min_periods as int, o));
        }
//@at body first
    let ghost mp0 = min_periods;
    let ghost out0 = out;
    proof { ax_lits(); }
//@at body last
    proof {
        let h = __clo1.h@;
        let s = outs(h);
        let z = zipv(this.view(), other.view());
        if window >= 1 {
            let p = |i: int, o: U| regx_alpha_spec(wnd(z, window, i), mp_eff(mp0, window, 0), o);
            assert forall|i: int| 0 <= i < s.len() implies p(i, #[trigger] s[i]) by {
                lemma_fifo_window_is_wnd(h, z, window, i);
                assert(regx_alpha_spec(fifo_window(h, i), __clo1.min_periods as int, h[i].out));
            }
            lemma_delivered_each(__ret, match out0 { Some(o) => Some(final(o).written()), None => None }, s, p);
        }
    }
//@end


} // verus!
fn main() {}
