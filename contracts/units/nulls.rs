use vstd::prelude::*;
use vstd::std_specs::ops::*;
use vstd::std_specs::cmp::*;
verus! {
//@include prelude.rs
//@include assume_real.rs
//@include assume_std.rs
//@include dtype.rs
//@include lemmas/window.rs
//@props C08

// ============================================================================================
// C08 as lemmas over the contracts.  Every null-aware contract of the agg / feat / bin / quant / cmp units states its result
// as a function of vals(series) - the Option<real> view in which NaN (float encoding) and None (optional encoding) are the
// same null - through cnt (number of valid elements), ps (power sums) and comparisons of valid values.  The two laws below
// therefore make the property a corollary of those contracts:
//   (1) re-encoding: the two encodings of one logical series have the same vals();
//   (2) transparency: cnt and ps do not change when a null is inserted or deleted at any position.
// ============================================================================================
pub open spec fn same_series(a: Seq<f64>, b: Seq<Option<f64>>) -> bool {
    &&& a.len() == b.len()
    &&& forall|i: int| 0 <= i < a.len() ==> (#[trigger] b[i]) == (if nan(a[i]) { None::<f64> } else { Some(a[i]) })
}
pub proof fn lemma_reencode(a: Seq<f64>, b: Seq<Option<f64>>)       // #C08 encodings_have_the_same_value_view
    requires same_series(a, b),
    ensures vals(a) =~= vals(b), canon_seq(a), canon_seq(b),
{
    assert forall|i: int| 0 <= i < a.len() implies vals(a)[i] == vals(b)[i] by {
        assert(b[i] == (if nan(a[i]) { None::<f64> } else { Some(a[i]) }));
    }
    assert forall|i: int| 0 <= i < b.len() implies canon(#[trigger] b[i]) by {
        assert(b[i] == (if nan(a[i]) { None::<f64> } else { Some(a[i]) }));
    }
}

pub proof fn lemma_insert_null(w: Seq<Option<real>>, i: int)            // #C08 nulls_are_transparent_to_counts_and_power_sums
    requires 0 <= i <= w.len(),
    ensures
        cnt(w.insert(i, None)) == cnt(w),
        forall|k: int| #![trigger ps(w.insert(i, None), k)] ps(w.insert(i, None), k) == ps(w, k),
    decreases w.len() - i
{
    let x = w.insert(i, None);
    if i == w.len() {
        assert(x =~= w.push(None));
        lemma_push(w, None);
    } else {
        let wd = w.drop_last();
        assert(x.drop_last() =~= wd.insert(i, None));
        assert(x.last() == w.last());
        lemma_insert_null(wd, i);
        assert forall|k: int| #![trigger ps(x, k)] ps(x, k) == ps(w, k) by {
            assert(ps(x, k) == ps(x.drop_last(), k) + pw(x.last(), k));
            assert(ps(wd.insert(i, None), k) == ps(wd, k));
        }
    }
}
pub proof fn lemma_remove_null(w: Seq<Option<real>>, i: int)            // #C08 nulls_are_transparent_to_counts_and_power_sums
    requires 0 <= i < w.len(), w[i].is_none(),
    ensures
        cnt(w.remove(i)) == cnt(w),
        forall|k: int| #![trigger ps(w.remove(i), k)] ps(w.remove(i), k) == ps(w, k),
{
    assert(w.remove(i).insert(i, None) =~= w);
    lemma_insert_null(w.remove(i), i);
}
// the value view commutes with insertion: inserting an encoded null inserts None in the view
pub proof fn lemma_vals_insert<T: IsNone>(s: Seq<T>, i: int, x: T)      // #C08 value_view_commutes_with_insertion
    requires 0 <= i <= s.len(),
    ensures vals(s.insert(i, x)) =~= vals(s).insert(i, val(x)),
{
}

} // verus!
fn main() {}
