use vstd::prelude::*;
use vstd::std_specs::ops::*;
use vstd::std_specs::cmp::*;
verus! {
//@include prelude.rs
//@include assume_real.rs
//@include assume_std.rs
//@include dtype.rs
//@include iter.rs
//@include lemmas/window.rs

pub type T = f64;       // NaN-encoded nulls

// tea-agg vec_valid.rs `enum QuantileMethod` (transcribed, A-EXTRACT)
#[derive(Clone, Copy)]
pub enum QuantileMethod { Linear, Lower, Higher, MidPoint }

pub axiom fn ax_lits()
    ensures rv(0.0f64) == 0real, !nan(0.0f64), rv(1.0f64) == 1real, !nan(1.0f64), rv(2.0f64) == 2real, !nan(2.0f64),
        rv(0.5f64) * 2real == 1real, !nan(0.5f64);

pub open spec fn nvalid(s: Seq<T>) -> int { cnt(vals(s)) }
// A-SORT: kth(x, k) is the k-th smallest (0-based) non-null value of x — the order statistic std's selection delivers
pub uninterp spec fn kth(x: Seq<T>, k: int) -> real;

// `(0. ..=1.).contains(&q)` (R12)
#[verifier::external_body]
pub fn unit_interval_contains(q: &f64) -> (r: bool)
    ensures r == (!nan(*q) && 0real <= rv(*q) <= 1real),
{ unimplemented!() }

impl It<T> {
    // C11 contracts (assumed here, unit `agg`): count of non-null items, first non-null item, extrema of the non-null items
    #[verifier::external_body]
    pub fn count_valid(self) -> (n: usize)
        requires self.forever().is_none(),
        ensures n as int == nvalid(self.seq()),
    { unimplemented!() }
    #[verifier::external_body]
    pub fn vfirst(self) -> (r: Option<T>)
        requires self.forever().is_none(),
        ensures nvalid(self.seq()) > 0 <==> r.is_some(), r matches Some(v) ==> !nan(v) && self.seq().contains(v),
            r matches Some(v) ==> (nvalid(self.seq()) == 1 ==> rv(v) == kth(self.seq(), 0)),
    { unimplemented!() }
}
// the parts `slice::select_nth_unstable_by(j, cmp)` returns (A-SORT).  `head` is an ordinary (unordered!) sequence of which
// only one thing is known: it holds the j elements that sort before the pivot.  is_head(h, x, j, asc) records exactly that.
pub uninterp spec fn is_head(h: Seq<T>, x: Seq<T>, j: int, asc: bool) -> bool;
pub trait SliceTiter { fn titer(&self) -> (r: HeadIt); }
impl SliceTiter for Vec<T> {
    #[verifier::external_body]
    fn titer(&self) -> (r: HeadIt) ensures r.s@ == self@ { unimplemented!() }
}
pub struct HeadIt { pub s: Ghost<Seq<T>> }
impl HeadIt {
    // C11 extrema of the non-null items + the order-statistic fact of A-SORT:
    // the greatest of the j smallest is the (j-1)-th smallest; the least of the j largest is the (j-1)-th largest
    #[verifier::external_body]
    pub fn vmax(self) -> (r: Option<f64>)
        ensures forall|x: Seq<T>, j: int| #![trigger is_head(self.s@, x, j, true)] (is_head(self.s@, x, j, true) && 1 <= j <= nvalid(x))
            ==> r.is_some() && !nan(r.unwrap()) && rv(r.unwrap()) == kth(x, j - 1),
    { unimplemented!() }
    #[verifier::external_body]
    pub fn vmin(self) -> (r: Option<f64>)
        ensures forall|x: Seq<T>, j: int| #![trigger is_head(self.s@, x, j, false)] (is_head(self.s@, x, j, false) && 1 <= j <= nvalid(x))
            ==> r.is_some() && !nan(r.unwrap()) && rv(r.unwrap()) == kth(x, nvalid(x) - j),
    { unimplemented!() }
}
// null-last orders on NaN-encoded floats (tea-dtype isnone.rs sort_cmp / sort_cmp_rev; the real comparators are proved total
// preorders with nulls last by the Kani harnesses of C15).  Ascending and descending both put nulls LAST.
pub open spec fn fcmp(a: T, b: T, asc: bool) -> core::cmp::Ordering {
    if nan(a) && nan(b) { core::cmp::Ordering::Equal }
    else if nan(a) { core::cmp::Ordering::Greater }
    else if nan(b) { core::cmp::Ordering::Less }
    else if rv(a) == rv(b) { core::cmp::Ordering::Equal }
    else if (rv(a) < rv(b)) == asc { core::cmp::Ordering::Less }
    else { core::cmp::Ordering::Greater }
}
pub trait SortCmpF: Sized {
    fn sort_cmp(&self, other: &Self) -> (r: core::cmp::Ordering);
    fn sort_cmp_rev(&self, other: &Self) -> (r: core::cmp::Ordering);
}
impl SortCmpF for f64 {
    #[verifier::external_body]
    fn sort_cmp(&self, other: &Self) -> (r: core::cmp::Ordering) ensures r == fcmp(*self, *other, true) { unimplemented!() }
    #[verifier::external_body]
    fn sort_cmp_rev(&self, other: &Self) -> (r: core::cmp::Ordering) ensures r == fcmp(*self, *other, false) { unimplemented!() }
}
// the comparator handed to the selection is one of the two null-last orders
pub open spec fn cmp_is<F: Fn(&T, &T) -> core::cmp::Ordering>(f: F, asc: bool) -> bool {
    forall|a: &T, b: &T, o: core::cmp::Ordering| #[trigger] f.ensures((a, b), o) ==> o == fcmp(*a, *b, asc)
}
// slice::select_nth_unstable_by(j, cmp) (R12: `slc.select_nth_unstable_by(` -> `select_nth_by(slc, `), A-SORT: what it delivers
// depends on WHICH order the comparator is; a comparator that is neither null-last order is outside the contract
#[verifier::external_body]
pub fn select_nth_by<F: Fn(&T, &T) -> core::cmp::Ordering>(slc: &mut [T], j: usize, f: F) -> (r: (Vec<T>, T, Vec<T>))
    requires j < old(slc)@.len(),           // #C10 select_nth_index_in_range
        forall|a: &T, b: &T| #[trigger] f.requires((a, b)),
        cmp_is(f, true) || cmp_is(f, false),          // #C12,C08 comparator_is_a_null_last_order
    ensures r.0@.len() == j,
        cmp_is(f, true) ==> is_head(r.0@, old(slc)@, j as int, true)
            && (j < nvalid(old(slc)@) ==> !nan(r.1) && rv(r.1) == kth(old(slc)@, j as int)),
        cmp_is(f, false) ==> is_head(r.0@, old(slc)@, j as int, false)
            && (j < nvalid(old(slc)@) ==> !nan(r.1) && rv(r.1) == kth(old(slc)@, nvalid(old(slc)@) - 1 - j)),
{ unimplemented!() }
impl Cast<f64> for Option<f64> {
    open spec fn cast_spec(self) -> f64 { match self { Some(v) => v, None => arbitrary_nan() } }
    #[verifier::external_body]
    fn cast(self) -> f64 { match self { Some(v) => v, None => f64::NAN } }
}
pub uninterp spec fn arbitrary_nan() -> f64;
pub broadcast axiom fn ax_arbitrary_nan() ensures nan(#[trigger] arbitrary_nan());

// ---- the property (C12): value at fractional index (n-1)q of the sorted non-null elements, under the interpolation
pub open spec fn quantile_lo(x: Seq<T>, q: real, method: QuantileMethod, v: real) -> bool {
    let n = nvalid(x);
    let p = ((n - 1) as real) * q;
    let (i, j) = (rfloor(p), rceil(p));
    if i == j { v == kth(x, j) } else {
        match method {
            QuantileMethod::Lower => v == kth(x, i),
            QuantileMethod::Higher => v == kth(x, j),
            QuantileMethod::MidPoint => v == (kth(x, i) + kth(x, j)) / 2real,
            QuantileMethod::Linear => true,      // interpolation weight: not covered (division chain exceeds the solver budget), see DESIGN 9
        }
    }
}
// upper half, as the code evaluates it: mirrored at q' = 1 - q on the descending order (rank r from the top = rank n-1-r from the bottom)
pub open spec fn quantile_hi(x: Seq<T>, q: real, method: QuantileMethod, v: real) -> bool {
    let n = nvalid(x);
    let q1 = 1real - q;
    let p = ((n - 1) as real) * q1;
    let (i, j) = (rfloor(p), rceil(p));
    let (ki, kj) = (kth(x, n - 1 - i), kth(x, n - 1 - j));     // i-th / j-th largest
    if i == j { v == kj } else {
        match method {
            QuantileMethod::Lower => v == kj,
            QuantileMethod::Higher => v == ki,
            QuantileMethod::MidPoint => v == (ki + kj) / 2real,
            QuantileMethod::Linear => true,      // not covered, see above
        }
    }
}

pub proof fn lemma_frac_nonzero(i: int, j: int, m: real)
    requires j == i + 1, m >= 1real,
    ensures (j as real) / m - (i as real) / m != 0real,
{
    let a = (j as real) / m;
    let b = (i as real) / m;
    lemma_div_mul_q(j as real, m);
    lemma_div_mul_q(i as real, m);
    assert((a - b) * m == 1real) by(nonlinear_arith) requires a * m == j as real, b * m == i as real, j == i + 1;
    assert(a - b != 0real) by(nonlinear_arith) requires (a - b) * m == 1real;
}
pub proof fn lemma_div_mul_q(a: real, b: real)
    requires b != 0real,
    ensures (a / b) * b == a,
{
    assert((a / b) * b == a) by(nonlinear_arith) requires b != 0real;
}
pub proof fn lemma_index_bounds(n: int, q: real)
    requires n >= 2, 0real <= q <= 1real,
    ensures 0 <= rfloor(((n - 1) as real) * q) <= rceil(((n - 1) as real) * q) <= n - 1,
        rceil(((n - 1) as real) * q) <= rfloor(((n - 1) as real) * q) + 1,
{
    broadcast use a_round;
    let m = (n - 1) as real;
    let p = m * q;
    assert(0real <= p <= m) by(nonlinear_arith) requires p == m * q, m >= 1real, 0real <= q <= 1real;
}

//@fn name=vquantile crate=tea-agg ctx="pub trait VecAggValidExt" props=C08,C10,C12 arith=C12
//@types T=f64
//@sig #[verifier::rlimit(50)] fn vquantile<V: TIter<T>>(this: &V, q: f64, method: QuantileMethod) -> (res: TResult<f64>)
//@replace (0. ..=1.).contains(&q) => unit_interval_contains(&q)
//@replace out_c.try_as_slice_mut().unwrap() => out_c.as_mut_slice()
//@replace slc.select_nth_unstable_by( => select_nth_by(slc,
//@closure 1 mode=annotate key="sort_cmp" params="va: &f64, vb: &f64" ret="(o: core::cmp::Ordering)"
//@closure 1 spec
                    ensures o == fcmp(*va, *vb, true)           // #C12,C08 ascending_selection_puts_nulls_last
//@closure 2 mode=annotate key=".f64()" params="v: f64" ret="(c: f64)"
//@closure 2 spec
                    ensures c == v
//@closure 3 mode=annotate key="sort_cmp" params="va: &f64, vb: &f64" ret="(o: core::cmp::Ordering)"
//@closure 3 spec
                    ensures o == fcmp(*va, *vb, false)          // #C12,C08 descending_selection_puts_nulls_last
//@closure 4 mode=annotate key=".f64()" params="v: f64" ret="(c: f64)"
//@closure 4 spec
                    ensures c == v
//@at body first
    proof {
        ax_lits(); broadcast use a_real, a_real_cmp, a_round, ax_arbitrary_nan;
        lemma_cnt_le_len(vals(this.view()));
        if !nan(q) && 0real <= rv(q) <= 1real && nvalid(this.view()) >= 2 {
            let nn = nvalid(this.view());
            lemma_index_bounds(nn, rv(q));
            lemma_index_bounds(nn, 1real - rv(q));
        }
    }
//@spec
    requires
        this.view().len() <= 0x7fff_ffff,          // A-LEN
    // NOT COVERED here (solver budget / stability, DESIGN 9): the interpolated VALUE for n >= 2 (quantile_lo / quantile_hi above are the
    // intended statements; they verify in isolation but not stably together with the float axioms)
    ensures
        !(!nan(q) && 0real <= rv(q) <= 1real) ==> res.is_err(),                                   // #C12 q_outside_unit_interval_is_an_error
        (!nan(q) && 0real <= rv(q) <= 1real) ==> res.is_ok(),
        res matches Ok(v) ==> (nvalid(this.view()) == 0 ==> nan(v)),                                // #C12 null_iff_no_valid_element
        res matches Ok(v) ==> (nvalid(this.view()) == 1 ==> !nan(v) && rv(v) == kth(this.view(), 0)),   // #C12 single_valid_element
        res matches Ok(v) ==> ((nvalid(this.view()) >= 2 && rv(q) * 2real <= 1real && !(method is Linear)) ==> quantile_lo(this.view(), rv(q), method, rv(v))),   // #C12 value_at_fractional_index
        res matches Ok(v) ==> ((nvalid(this.view()) >= 2 && rv(q) * 2real > 1real && !(method is Linear)) ==> quantile_hi(this.view(), rv(q), method, rv(v))),    // #C12 value_at_fractional_index
//@end

} // verus!
fn main() {}
