use vstd::prelude::*;
verus! {
//@include prelude.rs
//@include drv_to.rs
} // verus!
fn main() {}
