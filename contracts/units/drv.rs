use vstd::prelude::*;
verus! {
//@include prelude.rs

//@fn name=rolling_apply_to crate=tea-core ctx="pub trait Vec1View" props=C02 arith=C10
//@sig fn rolling_apply_to<V: Vec1View<T>, T, B: UninitRefMut<OT>, OT, F: RollingFn<T, OT>>(this: &V, window: usize, f: &mut F, out: &mut B)
//@callbacks f
//@spec
    requires
        buf_fresh(old(out), this.view().len()),
        old(f).hist().len() == 0,
        old(f).inv(),
        all_elem_ok::<T, OT, F>(this.view()),
    ensures
        final(f).inv(),
        final(out).cap() == old(out).cap(),
        window >= 1 ==> trace_strict(final(f).hist(), this.view(), window),     // #C02 trace
        window >= 1 ==> out_ok(final(out).written(), final(f).hist()),          // #C02,C10 stored_at_i_once
        window == 0 ==> final(f).hist() =~= old(f).hist() && final(out).written() =~= old(out).written(),  // #C10 window0_writes_nothing
//@at body first
    proof { assert(nrm(f.hist()) == 0); }
//@loop 1
    invariant
        window <= len, len == this.view().len(), out.cap() == len, window >= 1,
        all_elem_ok::<T, OT, F>(this.view()),
        f.hist().len() == i, f.inv(), nrm(f.hist()) == 0,
        forall|j: int| out.written().dom().contains(j) <==> 0 <= j < i,
        forall|j: int| 0 <= j < i ==> (#[trigger] f.hist()[j]).v == this.view()[j]
            && f.hist()[j].rm == exp_rm(this.view(), window as int, j) && out.written()[j] == f.hist()[j].out,
//@at loop 1 first
    let ghost h0 = f.hist();
//@at loop 1 last
    proof { lemma_nrm_push(h0, f.hist().last()); }
//@loop 2
    invariant
        window <= len, len == this.view().len(), out.cap() == len, window >= 1,
        all_elem_ok::<T, OT, F>(this.view()),
        start == end - (window - 1),
        f.hist().len() == end, f.inv(), nrm(f.hist()) == start,
        forall|j: int| out.written().dom().contains(j) <==> 0 <= j < end,
        forall|j: int| 0 <= j < end ==> (#[trigger] f.hist()[j]).v == this.view()[j]
            && f.hist()[j].rm == exp_rm(this.view(), window as int, j) && out.written()[j] == f.hist()[j].out,
//@at loop 2 first
    let ghost h0 = f.hist();
    proof { assert(adds(h0).push(this.view()[end as int])[start as int] == this.view()[start as int]); }
//@at loop 2 last
    proof { lemma_nrm_push(h0, f.hist().last()); }
//@end

} // verus!
fn main() {}
