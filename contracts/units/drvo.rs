use vstd::prelude::*;
verus! {
//@include prelude.rs
//@include iter.rs
//@include rollmodel.rs
//@include drv_to.rs

// the removal column of the iterator-form driver: window-1 leading Nones, then the series itself
pub open spec fn is_rm_items<T>(items: Seq<(Option<T>, T)>, x: Seq<T>, w: int) -> bool {
    &&& items.len() == x.len()
    &&& forall|i: int| 0 <= i < x.len() ==> #[trigger] items[i] == (if i < w - 1 { None::<T> } else { Some(x[i - (w - 1)]) }, x[i])
}
pub proof fn lemma_nsome_rm_items<T>(items: Seq<(Option<T>, T)>, x: Seq<T>, w: int, k: int)
    requires w >= 1, 0 <= k <= x.len(), is_rm_items(items, x, w),
    ensures nsome(items, k) == (if k <= w - 1 { 0 } else { k - (w - 1) }),
    decreases k
{
    if k > 0 { lemma_nsome_rm_items(items, x, w, k - 1); }
}
// the FIFO precondition of every call holds for that column, from an empty history
pub proof fn lemma_rm_items_fifo<T, OT>(h0: Seq<Call<T, OT>>, items: Seq<(Option<T>, T)>, x: Seq<T>, w: int)
    requires w >= 1, h0.len() == 0, is_rm_items(items, x, w),
    ensures fifo_items_ok(h0, items),
{
    assert(nrm(h0) == 0);
    assert forall|i: int| 0 <= i < items.len() && (#[trigger] items[i]).0.is_some() implies {
        let k = nrm(h0) + nsome(items, i);
        &&& k <= h0.len() + i
        &&& items[i].0.unwrap() == (adds(h0) + Seq::new(items.len(), |j: int| items[j].1))[k as int]
    } by {
        lemma_nsome_rm_items(items, x, w, i);
        let k = i - (w - 1);
        assert(items[k].1 == x[k]);
    }
}

//@fn name=rolling_apply crate=tea-core ctx="pub trait Vec1View" props=C02,C07,C09,C10 arith=C10
//@sig fn rolling_apply<V: TIter<T>, T, O: Vec1<OT>, OT, F: RollingFn<T, OT>>(this: &V, window: usize, f: &mut F, out: Option<&mut O::Buf>) -> (r: Option<O>)
//@strip_turbofish
//@replace this.rolling_apply_to( => rolling_apply_to(this,
//@replace .map(Some) => .map_some()
//@replace .map(move |(v_remove, v)| f(v_remove, v)) => .map_rolling(f)
//@replace .collect_trusted_vec1() => .collect_trusted_o()
//@spec
    requires
        old(f).hist().len() == 0,
        old(f).inv(),
        all_elem_ok::<T, OT, F>(this.view()),
        out matches Some(o) ==> buf_fresh(o, this.view().len()),
        (window == 0 && out.is_none() && this.view().len() > 0) ==> panic_allowed(),     // assert!(window > 0 || len == 0)
    ensures
        final(f).inv(),
        final(f).cfg() == old(f).cfg(),
        window >= 1 ==> trace_ok(final(f).hist(), this.view(), window),                                  // #C02,C07 trace
        window >= 1 ==> delivered(r, match out { Some(o) => Some(final(o).written()), None => None }, outs(final(f).hist())),   // #C02,C07 delivered_to_buffer_or_returned
        window == 0 ==> final(f).hist() =~= old(f).hist(),
        (window == 0 && out.is_some()) ==> r.is_none() && (out matches Some(o) ==> final(o).written() =~= o.written()),
        (window == 0 && out.is_none() && this.view().len() == 0) ==> r.is_some() && r.unwrap().oview().len() == 0,
//@at body first
    let ghost x = this.view();
    let ghost h0 = f.hist();
    proof {
        // whatever sequence has the shape of the removal column satisfies the callback's FIFO precondition
        assert forall|items: Seq<(Option<T>, T)>| #[trigger] is_rm_items(items, x, window as int) && window >= 1 implies fifo_items_ok(h0, items) by {
            lemma_rm_items_fifo(h0, items, x, window as int);
        }
    }
//@at body last
    proof {
        if window >= 1 && out.is_none() {
            let h = f.hist();
            assert(h.len() == x.len());
            assert forall|i: int| 0 <= i < x.len() implies (#[trigger] h[i]).v == x[i]
                && h[i].rm == (if i < window - 1 { None::<T> } else { Some(x[i - (window - 1)]) }) by {}
            assert(trace_ok(h, x, window));
            assert(__ret.unwrap().oview() =~= outs(h)) by {
                assert forall|i: int| 0 <= i < x.len() implies __ret.unwrap().oview()[i] == (#[trigger] h[i]).out by {}
            }
        }
    }
//@at let remove_value_iter after
    proof {
        if window >= 1 {
            let a = remove_value_iter.seq();
            assert(a.len() == (window - 1) + x.len());
            assert forall|i: int| 0 <= i < a.len() implies #[trigger] a[i] == (if i < window - 1 { None::<T> } else { Some(x[i - (window - 1)]) }) by {}
            // the zipped item sequence has the shape of the removal column
            let items = Seq::new(min_nat(a.len(), x.len()), |i: int| (a[i], x[i]));
            assert(is_rm_items(items, x, window as int));
        }
    }
//@end

//@fn name=rolling2_apply crate=tea-core ctx="pub trait Vec1View" props=C02,C05,C07,C09,C10 arith=C10
//@sig fn rolling2_apply<V: TIter<T>, T, O: Vec1<OT>, OT, V2: Vec1View<T2>, T2, F: RollingFn<(T, T2), OT>>(this: &V, other: &V2, window: usize, f: &mut F, out: Option<&mut O::Buf>) -> (r: Option<O>)
//@strip_turbofish
//@replace this.rolling2_apply_to( => rolling2_apply_to(this,
//@replace other.titer() => view_titer(other)
//@replace .map(Some) => .map_some()
//@replace .map(move |(v_remove, v)| f(v_remove, v)) => .map_rolling(f)
//@replace .collect_trusted_vec1() => .collect_trusted_o()
//@spec
    requires
        old(f).hist().len() == 0,
        old(f).inv(),
        other.view().len() >= this.view().len() ==> all_elem_ok::<(T, T2), OT, F>(zipv(this.view(), other.view())),
        other.view().len() < this.view().len() ==> panic_allowed(),                          // a shorter second series: clean panic in both forms
        out matches Some(o) ==> buf_fresh(o, this.view().len()),
        (window == 0 && out.is_none() && this.view().len() > 0) ==> panic_allowed(),
    ensures
        final(f).inv(),
        final(f).cfg() == old(f).cfg(),
        window >= 1 ==> trace_ok(final(f).hist(), zipv(this.view(), other.view()), window),                  // #C02,C07 trace
        window >= 1 ==> delivered(r, match out { Some(o) => Some(final(o).written()), None => None }, outs(final(f).hist())),   // #C02,C05,C07 delivered_to_buffer_or_returned
        window == 0 ==> final(f).hist() =~= old(f).hist(),
        (window == 0 && out.is_some()) ==> r.is_none() && (out matches Some(o) ==> final(o).written() =~= o.written()),
        (window == 0 && out.is_none() && this.view().len() == 0) ==> r.is_some() && r.unwrap().oview().len() == 0,
//@at body first
    let ghost x = zipv(this.view(), other.view());
    let ghost h0 = f.hist();
    proof {
        assert forall|items: Seq<(Option<(T, T2)>, (T, T2))>| #[trigger] is_rm_items(items, x, window as int) && window >= 1 implies fifo_items_ok(h0, items) by {
            lemma_rm_items_fifo(h0, items, x, window as int);
        }
    }
//@at body last
    proof {
        if window >= 1 && out.is_none() {
            let h = f.hist();
            assert(h.len() == x.len());
            assert forall|i: int| 0 <= i < x.len() implies (#[trigger] h[i]).v == x[i]
                && h[i].rm == (if i < window - 1 { None::<(T, T2)> } else { Some(x[i - (window - 1)]) }) by {}
            assert(trace_ok(h, x, window));
            assert(__ret.unwrap().oview() =~= outs(h)) by {
                assert forall|i: int| 0 <= i < x.len() implies __ret.unwrap().oview()[i] == (#[trigger] h[i]).out by {}
            }
        }
    }
//@at let remove_value_iter after
    proof {
        if window >= 1 {
            let a = remove_value_iter.seq();
            assert(a.len() == (window - 1) + x.len());
            assert forall|i: int| 0 <= i < a.len() implies #[trigger] a[i] == (if i < window - 1 { None::<(T, T2)> } else { Some(x[i - (window - 1)]) }) by {}
            let items = Seq::new(min_nat(a.len(), x.len()), |i: int| (a[i], x[i]));
            assert(is_rm_items(items, x, window as int));
        }
    }
//@end

//@fn name=rolling_apply_idx crate=tea-core ctx="pub trait Vec1View" props=C02,C07,C09,C10 arith=C10
//@sig fn rolling_apply_idx<V: TIter<T>, T, O: Vec1<OT>, OT, F: RollingIdxFn<T, OT>>(this: &V, window: usize, f: &mut F, out: Option<&mut O::Buf>) -> (r: Option<O>)
//@strip_turbofish
//@replace this.rolling_apply_idx_to( => rolling_apply_idx_to(this,
//@replace (0..this.len()) => range_it(0, this.len())
//@replace .map(Some) => .map_some()
//@replace .map(move |(end, (v, start))| f(start, end, v)) => .map_rolling_idx(f)
//@replace .collect_trusted_vec1() => .collect_trusted_o()
//@spec
    requires
        old(f).hist().len() == 0,
        old(f).inv(),
        old(f).series() == this.view(),
        out matches Some(o) ==> buf_fresh(o, this.view().len()),
        (window == 0 && out.is_none() && this.view().len() > 0) ==> panic_allowed(),     // assert!(window > 0 || len == 0)
    ensures
        final(f).inv(),
        final(f).cfg() == old(f).cfg(),
        final(f).series() == old(f).series(),
        window >= 1 ==> trace_idx_ok(final(f).hist(), this.view(), window),                               // #C02,C07 trace
        window >= 1 ==> delivered(r, match out { Some(o) => Some(final(o).written()), None => None }, outs_idx(final(f).hist())),   // #C02,C07 delivered_to_buffer_or_returned
        window == 0 ==> final(f).hist() =~= old(f).hist(),
        (window == 0 && out.is_some()) ==> r.is_none() && (out matches Some(o) ==> final(o).written() =~= o.written()),
        (window == 0 && out.is_none() && this.view().len() == 0) ==> r.is_some() && r.unwrap().oview().len() == 0,
//@at body first
    let ghost x = this.view();
//@at body last
    proof {
        if window >= 1 && out.is_none() {
            let h = f.hist();
            assert(h.len() == x.len());
            assert forall|i: int| 0 <= i < x.len() implies (#[trigger] h[i]).v == x[i] && h[i].end == i
                && h[i].start == (if i < window - 1 { None::<usize> } else { Some((i - (window - 1)) as usize) }) by {}
            assert(trace_idx_ok(h, x, window));
            assert(__ret.unwrap().oview() =~= outs_idx(h)) by {
                assert forall|i: int| 0 <= i < x.len() implies __ret.unwrap().oview()[i] == (#[trigger] h[i]).out by {}
            }
        }
    }
//@at let start_iter after
    proof {
        if window >= 1 {
            let a = start_iter.seq();
            assert(a.len() == (window - 1) + x.len());
            assert forall|i: int| 0 <= i < a.len() implies #[trigger] a[i] == (if i < window - 1 { None::<usize> } else { Some((i - (window - 1)) as usize) }) by {}
            let z = Seq::new(min_nat(x.len(), a.len()), |i: int| (x[i], a[i]));
            let items = Seq::new(z.len(), |i: int| (i as usize, z[i]));
            assert(idx_items_ok(x, items));
        }
    }
//@end

// ---- the Vec / slice / array fast paths (impl_vec1! in backends_impl/vec.rs): allocate, fill through the buffer form, assume_init.
// Same contract as the default bodies above: a zero window on a non-empty series must not reach assume_init.
//@fn name=rolling_apply crate=tea-core ctx="impl<T: Clone> Vec1View<T> for Vec<T>" as=vec_rolling_apply props=C02,C05,C07,C10 arith=C10
//@sig fn vec_rolling_apply<V: Vec1View<T>, T, O: Vec1<OT>, OT, F: RollingFn<T, OT>>(this: &V, window: usize, f: &mut F, out: Option<&mut O::Buf>) -> (r: Option<O>)
//@strip_turbofish
//@replace this.rolling_apply_to( => rolling_apply_to(this,
//@replace O::uninit(len) => uninit_buf::<O, OT>(len)
//@replace O::uninit_ref_mut(&mut out) => &mut out
//@replace out.assume_init() => assume_init_buf::<O, OT>(out)
//@spec
    requires
        old(f).hist().len() == 0,
        old(f).inv(),
        all_elem_ok::<T, OT, F>(this.view()),
        out matches Some(o) ==> buf_fresh(o, this.view().len()),
        (window == 0 && out.is_none() && this.view().len() > 0) ==> panic_allowed(),
    ensures
        final(f).inv(),
        final(f).cfg() == old(f).cfg(),
        window >= 1 ==> trace_ok(final(f).hist(), this.view(), window),                                  // #C02,C07 trace
        window >= 1 ==> delivered(r, match out { Some(o) => Some(final(o).written()), None => None }, outs(final(f).hist())),   // #C02,C05,C07 delivered_to_buffer_or_returned
        window == 0 ==> final(f).hist() =~= old(f).hist(),
        (window == 0 && out.is_some()) ==> r.is_none() && (out matches Some(o) ==> final(o).written() =~= o.written()),
        (window == 0 && out.is_none() && this.view().len() == 0) ==> r.is_some() && r.unwrap().oview().len() == 0,
//@at body last
    proof {
        if window >= 1 && out.is_none() {
            assert(__ret.unwrap().oview() =~= outs(f.hist()));
        }
    }
//@end

//@fn name=rolling_apply_idx crate=tea-core ctx="impl<T: Clone> Vec1View<T> for Vec<T>" as=vec_rolling_apply_idx props=C02,C05,C07,C10 arith=C10
//@sig fn vec_rolling_apply_idx<V: Vec1View<T>, T, O: Vec1<OT>, OT, F: RollingIdxFn<T, OT>>(this: &V, window: usize, f: &mut F, out: Option<&mut O::Buf>) -> (r: Option<O>)
//@strip_turbofish
//@replace this.rolling_apply_idx_to( => rolling_apply_idx_to(this,
//@replace O::uninit(len) => uninit_buf::<O, OT>(len)
//@replace O::uninit_ref_mut(&mut out) => &mut out
//@replace out.assume_init() => assume_init_buf::<O, OT>(out)
//@spec
    requires
        old(f).hist().len() == 0,
        old(f).inv(),
        old(f).series() == this.view(),
        out matches Some(o) ==> buf_fresh(o, this.view().len()),
        (window == 0 && out.is_none() && this.view().len() > 0) ==> panic_allowed(),
    ensures
        final(f).inv(),
        final(f).cfg() == old(f).cfg(),
        final(f).series() == old(f).series(),
        window >= 1 ==> trace_idx_ok(final(f).hist(), this.view(), window),                               // #C02,C07 trace
        window >= 1 ==> delivered(r, match out { Some(o) => Some(final(o).written()), None => None }, outs_idx(final(f).hist())),   // #C02,C05,C07 delivered_to_buffer_or_returned
        window == 0 ==> final(f).hist() =~= old(f).hist(),
        (window == 0 && out.is_some()) ==> r.is_none() && (out matches Some(o) ==> final(o).written() =~= o.written()),
        (window == 0 && out.is_none() && this.view().len() == 0) ==> r.is_some() && r.unwrap().oview().len() == 0,
//@at body last
    proof {
        if window >= 1 && out.is_none() {
            assert(__ret.unwrap().oview() =~= outs_idx(f.hist()));
        }
    }
//@end

//@fn name=rolling2_apply crate=tea-core ctx="impl<T: Clone> Vec1View<T> for Vec<T>" as=vec_rolling2_apply props=C02,C05,C07,C10 arith=C10
//@sig fn vec_rolling2_apply<V: Vec1View<T>, T, O: Vec1<OT>, OT, V2: Vec1View<T2>, T2, F: RollingFn<(T, T2), OT>>(this: &V, other: &V2, window: usize, f: &mut F, out: Option<&mut O::Buf>) -> (r: Option<O>)
//@strip_turbofish
//@replace this.rolling2_apply_to( => rolling2_apply_to(this,
//@replace O::uninit(len) => uninit_buf::<O, OT>(len)
//@replace O::uninit_ref_mut(&mut out) => &mut out
//@replace out.assume_init() => assume_init_buf::<O, OT>(out)
//@spec
    requires
        old(f).hist().len() == 0,
        old(f).inv(),
        other.view().len() >= this.view().len() ==> all_elem_ok::<(T, T2), OT, F>(zipv(this.view(), other.view())),
        other.view().len() < this.view().len() ==> panic_allowed(),
        out matches Some(o) ==> buf_fresh(o, this.view().len()),
        (window == 0 && out.is_none() && this.view().len() > 0) ==> panic_allowed(),
    ensures
        final(f).inv(),
        final(f).cfg() == old(f).cfg(),
        window >= 1 ==> trace_ok(final(f).hist(), zipv(this.view(), other.view()), window),                  // #C02,C07 trace
        window >= 1 ==> delivered(r, match out { Some(o) => Some(final(o).written()), None => None }, outs(final(f).hist())),   // #C02,C05,C07 delivered_to_buffer_or_returned
        window == 0 ==> final(f).hist() =~= old(f).hist(),
        (window == 0 && out.is_some()) ==> r.is_none() && (out matches Some(o) ==> final(o).written() =~= o.written()),
        (window == 0 && out.is_none() && this.view().len() == 0) ==> r.is_some() && r.unwrap().oview().len() == 0,
//@at body last
    proof {
        if window >= 1 && out.is_none() {
            assert(__ret.unwrap().oview() =~= outs(f.hist()));
        }
    }
//@end

//@fn name=rolling_custom crate=tea-core ctx="impl<T: Clone> Vec1View<T> for Vec<T>" as=vec_rolling_custom props=C02,C05,C07,C10 arith=C10
//@sig fn vec_rolling_custom<V: Vec1View<T>, T, O: Vec1<OT>, OT, F: SliceFn<V::Slice, T, OT>>(this: &V, window: usize, f: &mut F, out: Option<&mut O::Buf>) -> (r: Option<O>)
//@strip_turbofish
//@replace use crate::prelude::UninitVec; =>
//@replace this.rolling_custom_to( => rolling_custom_to(this,
//@replace O::uninit(len) => uninit_buf::<O, OT>(len)
//@replace O::uninit_ref_mut(&mut out) => &mut out
//@replace out.assume_init() => assume_init_buf::<O, OT>(out)
//@spec
    requires
        old(f).hist().len() == 0,
        old(f).inv(),
        this.supports_slice(),
        forall|s: &V::Slice| #[trigger] F::sview(s) == V::slice_view(s),
        out matches Some(o) ==> buf_fresh(o, this.view().len()),
        (window == 0 && out.is_none() && this.view().len() > 0) ==> panic_allowed(),
    ensures
        final(f).inv(),
        final(f).cfg() == old(f).cfg(),
        window >= 1 ==> trace_slice(final(f).hist(), this.view(), wclamp(window, this.view().len())),                   // #C02,C07 slice_is_window
        window >= 1 ==> delivered(r, match out { Some(o) => Some(final(o).written()), None => None }, outs_slice(final(f).hist())),   // #C02,C05,C07 delivered_to_buffer_or_returned
        window == 0 ==> final(f).hist() =~= old(f).hist(),
        (window == 0 && out.is_some()) ==> r.is_none() && (out matches Some(o) ==> final(o).written() =~= o.written()),
        (window == 0 && out.is_none() && this.view().len() == 0) ==> r.is_some() && r.unwrap().oview().len() == 0,
//@at body last
    proof {
        if window >= 1 && out.is_none() {
            assert(__ret.unwrap().oview() =~= outs_slice(f.hist()));
        }
    }
//@end

//@fn name=rolling2_apply_idx crate=tea-core ctx="impl<T: Clone> Vec1View<T> for Vec<T>" as=vec_rolling2_apply_idx props=C02,C05,C07,C10 arith=C10
//@sig fn vec_rolling2_apply_idx<V: Vec1View<T>, T, O: Vec1<OT>, OT, V2: Vec1View<T2>, T2, F: RollingIdxFn<(T, T2), OT>>(this: &V, other: &V2, window: usize, f: &mut F, out: Option<&mut O::Buf>) -> (r: Option<O>)
//@strip_turbofish
//@replace this.rolling2_apply_idx_to( => rolling2_apply_idx_to(this,
//@replace O::uninit(len) => uninit_buf::<O, OT>(len)
//@replace O::uninit_ref_mut(&mut out) => &mut out
//@replace out.assume_init() => assume_init_buf::<O, OT>(out)
//@spec
    requires
        old(f).hist().len() == 0,
        old(f).inv(),
        old(f).series() == zipv(this.view(), other.view()),
        other.view().len() < this.view().len() ==> panic_allowed(),
        out matches Some(o) ==> buf_fresh(o, this.view().len()),
        (window == 0 && out.is_none() && this.view().len() > 0) ==> panic_allowed(),
    ensures
        final(f).inv(),
        final(f).cfg() == old(f).cfg(),
        final(f).series() == old(f).series(),
        window >= 1 ==> trace_idx_strict(final(f).hist(), zipv(this.view(), other.view()), window),             // #C02,C07 trace
        window >= 1 ==> delivered(r, match out { Some(o) => Some(final(o).written()), None => None }, outs_idx(final(f).hist())),   // #C02,C05,C07 delivered_to_buffer_or_returned
        window == 0 ==> final(f).hist() =~= old(f).hist(),
        (window == 0 && out.is_some()) ==> r.is_none() && (out matches Some(o) ==> final(o).written() =~= o.written()),
        (window == 0 && out.is_none() && this.view().len() == 0) ==> r.is_some() && r.unwrap().oview().len() == 0,
//@at body last
    proof {
        if window >= 1 && out.is_none() {
            assert(__ret.unwrap().oview() =~= outs_idx(f.hist()));
        }
    }
//@end

// ---- the ndarray fast paths (impl_vec1view_for_ndarray! in backends_impl/ndarray.rs, feature `ndarray`; the three impls come from one
// macro body, the ArrayView1 instance is extracted): same shape and same contract as the Vec fast paths.  The array itself is the
// abstract Vec1View (len / uget describe the logical sequence: bounded Kani harnesses k_nd check that on strided and reversed views).
//@fn name=rolling_apply crate=tea-core ctx="impl<'t, T: Clone> Vec1View<T> for ArrayView1<'t, T>" features=ndarray as=nd_rolling_apply props=C02,C05,C07,C10 arith=C10
//@sig fn nd_rolling_apply<V: Vec1View<T>, T, O: Vec1<OT>, OT, F: RollingFn<T, OT>>(this: &V, window: usize, f: &mut F, out: Option<&mut O::Buf>) -> (r: Option<O>)
//@strip_turbofish
//@replace this.rolling_apply_to( => rolling_apply_to(this,
//@replace O::uninit(len) => uninit_buf::<O, OT>(len)
//@replace O::uninit_ref_mut(&mut out) => &mut out
//@replace out.assume_init() => assume_init_buf::<O, OT>(out)
//@spec
    requires
        old(f).hist().len() == 0,
        old(f).inv(),
        all_elem_ok::<T, OT, F>(this.view()),
        out matches Some(o) ==> buf_fresh(o, this.view().len()),
        (window == 0 && out.is_none() && this.view().len() > 0) ==> panic_allowed(),
    ensures
        final(f).inv(),
        final(f).cfg() == old(f).cfg(),
        window >= 1 ==> trace_ok(final(f).hist(), this.view(), window),                                  // #C02,C07 trace
        window >= 1 ==> delivered(r, match out { Some(o) => Some(final(o).written()), None => None }, outs(final(f).hist())),   // #C02,C05,C07 delivered_to_buffer_or_returned
        window == 0 ==> final(f).hist() =~= old(f).hist(),
        (window == 0 && out.is_some()) ==> r.is_none() && (out matches Some(o) ==> final(o).written() =~= o.written()),
        (window == 0 && out.is_none() && this.view().len() == 0) ==> r.is_some() && r.unwrap().oview().len() == 0,
//@at body last
    proof {
        if window >= 1 && out.is_none() {
            assert(__ret.unwrap().oview() =~= outs(f.hist()));
        }
    }
//@end

//@fn name=rolling_apply_idx crate=tea-core ctx="impl<'t, T: Clone> Vec1View<T> for ArrayView1<'t, T>" features=ndarray as=nd_rolling_apply_idx props=C02,C05,C07,C10 arith=C10
//@sig fn nd_rolling_apply_idx<V: Vec1View<T>, T, O: Vec1<OT>, OT, F: RollingIdxFn<T, OT>>(this: &V, window: usize, f: &mut F, out: Option<&mut O::Buf>) -> (r: Option<O>)
//@strip_turbofish
//@replace this.rolling_apply_idx_to( => rolling_apply_idx_to(this,
//@replace O::uninit(len) => uninit_buf::<O, OT>(len)
//@replace O::uninit_ref_mut(&mut out) => &mut out
//@replace out.assume_init() => assume_init_buf::<O, OT>(out)
//@spec
    requires
        old(f).hist().len() == 0,
        old(f).inv(),
        old(f).series() == this.view(),
        out matches Some(o) ==> buf_fresh(o, this.view().len()),
        (window == 0 && out.is_none() && this.view().len() > 0) ==> panic_allowed(),
    ensures
        final(f).inv(),
        final(f).cfg() == old(f).cfg(),
        final(f).series() == old(f).series(),
        window >= 1 ==> trace_idx_ok(final(f).hist(), this.view(), window),                               // #C02,C07 trace
        window >= 1 ==> delivered(r, match out { Some(o) => Some(final(o).written()), None => None }, outs_idx(final(f).hist())),   // #C02,C05,C07 delivered_to_buffer_or_returned
        window == 0 ==> final(f).hist() =~= old(f).hist(),
        (window == 0 && out.is_some()) ==> r.is_none() && (out matches Some(o) ==> final(o).written() =~= o.written()),
        (window == 0 && out.is_none() && this.view().len() == 0) ==> r.is_some() && r.unwrap().oview().len() == 0,
//@at body last
    proof {
        if window >= 1 && out.is_none() {
            assert(__ret.unwrap().oview() =~= outs_idx(f.hist()));
        }
    }
//@end

//@fn name=rolling2_apply crate=tea-core ctx="impl<'t, T: Clone> Vec1View<T> for ArrayView1<'t, T>" features=ndarray as=nd_rolling2_apply props=C02,C05,C07,C10 arith=C10
//@sig fn nd_rolling2_apply<V: Vec1View<T>, T, O: Vec1<OT>, OT, V2: Vec1View<T2>, T2, F: RollingFn<(T, T2), OT>>(this: &V, other: &V2, window: usize, f: &mut F, out: Option<&mut O::Buf>) -> (r: Option<O>)
//@strip_turbofish
//@replace this.rolling2_apply_to( => rolling2_apply_to(this,
//@replace O::uninit(len) => uninit_buf::<O, OT>(len)
//@replace O::uninit_ref_mut(&mut out) => &mut out
//@replace out.assume_init() => assume_init_buf::<O, OT>(out)
//@spec
    requires
        old(f).hist().len() == 0,
        old(f).inv(),
        other.view().len() >= this.view().len() ==> all_elem_ok::<(T, T2), OT, F>(zipv(this.view(), other.view())),
        other.view().len() < this.view().len() ==> panic_allowed(),
        out matches Some(o) ==> buf_fresh(o, this.view().len()),
        (window == 0 && out.is_none() && this.view().len() > 0) ==> panic_allowed(),
    ensures
        final(f).inv(),
        final(f).cfg() == old(f).cfg(),
        window >= 1 ==> trace_ok(final(f).hist(), zipv(this.view(), other.view()), window),                  // #C02,C07 trace
        window >= 1 ==> delivered(r, match out { Some(o) => Some(final(o).written()), None => None }, outs(final(f).hist())),   // #C02,C05,C07 delivered_to_buffer_or_returned
        window == 0 ==> final(f).hist() =~= old(f).hist(),
        (window == 0 && out.is_some()) ==> r.is_none() && (out matches Some(o) ==> final(o).written() =~= o.written()),
        (window == 0 && out.is_none() && this.view().len() == 0) ==> r.is_some() && r.unwrap().oview().len() == 0,
//@at body last
    proof {
        if window >= 1 && out.is_none() {
            assert(__ret.unwrap().oview() =~= outs(f.hist()));
        }
    }
//@end

//@fn name=rolling_custom crate=tea-core ctx="impl<'t, T: Clone> Vec1View<T> for ArrayView1<'t, T>" features=ndarray as=nd_rolling_custom props=C02,C05,C07,C10 arith=C10
//@sig fn nd_rolling_custom<V: Vec1View<T>, T, O: Vec1<OT>, OT, F: SliceFn<V::Slice, T, OT>>(this: &V, window: usize, f: &mut F, out: Option<&mut O::Buf>) -> (r: Option<O>)
//@strip_turbofish
//@replace use crate::prelude::UninitVec; =>
//@replace this.rolling_custom_to( => rolling_custom_to(this,
//@replace O::uninit(len) => uninit_buf::<O, OT>(len)
//@replace O::uninit_ref_mut(&mut out) => &mut out
//@replace out.assume_init() => assume_init_buf::<O, OT>(out)
//@spec
    requires
        old(f).hist().len() == 0,
        old(f).inv(),
        this.supports_slice(),
        forall|s: &V::Slice| #[trigger] F::sview(s) == V::slice_view(s),
        out matches Some(o) ==> buf_fresh(o, this.view().len()),
        (window == 0 && out.is_none() && this.view().len() > 0) ==> panic_allowed(),
    ensures
        final(f).inv(),
        final(f).cfg() == old(f).cfg(),
        window >= 1 ==> trace_slice(final(f).hist(), this.view(), wclamp(window, this.view().len())),                   // #C02,C07 slice_is_window
        window >= 1 ==> delivered(r, match out { Some(o) => Some(final(o).written()), None => None }, outs_slice(final(f).hist())),   // #C02,C05,C07 delivered_to_buffer_or_returned
        window == 0 ==> final(f).hist() =~= old(f).hist(),
        (window == 0 && out.is_some()) ==> r.is_none() && (out matches Some(o) ==> final(o).written() =~= o.written()),
        (window == 0 && out.is_none() && this.view().len() == 0) ==> r.is_some() && r.unwrap().oview().len() == 0,
//@at body last
    proof {
        if window >= 1 && out.is_none() {
            assert(__ret.unwrap().oview() =~= outs_slice(f.hist()));
        }
    }
//@end

//@fn name=rolling2_apply_idx crate=tea-core ctx="impl<'t, T: Clone> Vec1View<T> for ArrayView1<'t, T>" features=ndarray as=nd_rolling2_apply_idx props=C02,C05,C07,C10 arith=C10
//@sig fn nd_rolling2_apply_idx<V: Vec1View<T>, T, O: Vec1<OT>, OT, V2: Vec1View<T2>, T2, F: RollingIdxFn<(T, T2), OT>>(this: &V, other: &V2, window: usize, f: &mut F, out: Option<&mut O::Buf>) -> (r: Option<O>)
//@strip_turbofish
//@replace this.rolling2_apply_idx_to( => rolling2_apply_idx_to(this,
//@replace O::uninit(len) => uninit_buf::<O, OT>(len)
//@replace O::uninit_ref_mut(&mut out) => &mut out
//@replace out.assume_init() => assume_init_buf::<O, OT>(out)
//@spec
    requires
        old(f).hist().len() == 0,
        old(f).inv(),
        old(f).series() == zipv(this.view(), other.view()),
        other.view().len() < this.view().len() ==> panic_allowed(),
        out matches Some(o) ==> buf_fresh(o, this.view().len()),
        (window == 0 && out.is_none() && this.view().len() > 0) ==> panic_allowed(),
    ensures
        final(f).inv(),
        final(f).cfg() == old(f).cfg(),
        final(f).series() == old(f).series(),
        window >= 1 ==> trace_idx_strict(final(f).hist(), zipv(this.view(), other.view()), window),             // #C02,C07 trace
        window >= 1 ==> delivered(r, match out { Some(o) => Some(final(o).written()), None => None }, outs_idx(final(f).hist())),   // #C02,C05,C07 delivered_to_buffer_or_returned
        window == 0 ==> final(f).hist() =~= old(f).hist(),
        (window == 0 && out.is_some()) ==> r.is_none() && (out matches Some(o) ==> final(o).written() =~= o.written()),
        (window == 0 && out.is_none() && this.view().len() == 0) ==> r.is_some() && r.unwrap().oview().len() == 0,
//@at body last
    proof {
        if window >= 1 && out.is_none() {
            assert(__ret.unwrap().oview() =~= outs_idx(f.hist()));
        }
    }
//@end

// ---- linkage: the trait contract that every client unit (feat, featp, cmp, bin, reg) ASSUMES for the Option-form drivers is
// discharged here by the functions proved above from the extracted bodies (Verus checks each impl method against the trait's
// requires / ensures in prelude.rs).  What stays assumed is A-ITER for the stateful `map` (rollmodel.rs), not the drivers.
impl<V: TIter<T>, T> RollingDrivers<T> for V {
    fn rolling_apply<O: Vec1<OT>, OT, F: RollingFn<T, OT>>(&self, window: usize, f: &mut F, out: Option<&mut O::Buf>) -> (r: Option<O>) {
        rolling_apply::<V, T, O, OT, F>(self, window, f, out)
    }
    fn rolling2_apply<O: Vec1<OT>, OT, V2: Vec1View<T2>, T2, F: RollingFn<(T, T2), OT>>(&self, other: &V2, window: usize, f: &mut F, out: Option<&mut O::Buf>) -> (r: Option<O>) {
        rolling2_apply::<V, T, O, OT, V2, T2, F>(self, other, window, f, out)
    }
    fn rolling_apply_idx<O: Vec1<OT>, OT, F: RollingIdxFn<T, OT>>(&self, window: usize, f: &mut F, out: Option<&mut O::Buf>) -> (r: Option<O>) {
        rolling_apply_idx::<V, T, O, OT, F>(self, window, f, out)
    }
}

} // verus!
fn main() {}
