use vstd::prelude::*;
use vstd::std_specs::ops::*;
use vstd::std_specs::cmp::*;
verus! {
//@include prelude.rs
//@include assume_real.rs
//@include assume_std.rs
//@include dtype.rs
//@include iter.rs
//@include cutmodel.rs

// usize::abs_diff (vocabulary for rewrites of the label-count test)
pub assume_specification[ usize::abs_diff ](a: usize, b: usize) -> (r: usize)
    ensures r as int == (if a >= b { a - b } else { b - a });

pub type T = ${T};
pub type TI = ${TI};
pub type T2 = Option<i64>;       // label type (A-MONO): any IsNone + Clone type; `label.clone()` of a Copy value is the value (R12)

// itertools::Itertools::dedup (A-ITER): consecutive equal elements collapse; all the model promises is that a sequence without
// equal neighbours comes back unchanged and that nothing is added
pub open spec fn same_value(a: TI, b: TI) -> bool { !a.is_nanv() && !b.is_nanv() && a.rval() == b.rval() }
impl It<TI> {
    #[verifier::external_body]
    pub fn dedup(self) -> (r: It<TI>)
        requires self.forever().is_none(),
        ensures
            r.forever().is_none(), r.seq().len() <= self.seq().len(),
            (forall|i: int| 0 < i < self.seq().len() ==> !same_value(#[trigger] self.seq()[i - 1], self.seq()[i])) ==> r.seq() == self.seq(),
    { unimplemented!() }
}
pub open spec fn lt(a: TI, b: TI) -> bool { !a.is_nanv() && !b.is_nanv() && a.rval() < b.rval() }
pub open spec fn le(a: TI, b: TI) -> bool { !a.is_nanv() && !b.is_nanv() && a.rval() <= b.rval() }

// ---- closure level: the materialised edge vector `m` (MIN and MAX added when the outer bounds are open), window k = (m[k], m[k+1])
pub open spec fn in_window(v: TI, m: Seq<TI>, nl: int, k: int, right: bool, open_bounds: bool) -> bool {
    let above = (open_bounds && k == 0) || (if right { lt(m[k], v) } else { le(m[k], v) });
    let below = (open_bounds && k + 1 == nl) || (if right { le(v, m[k + 1]) } else { lt(v, m[k + 1]) });
    above && below
}
pub open spec fn n_windows(m: Seq<TI>, nl: int) -> int {
    let w = if m.len() >= 2 { m.len() - 1 } else { 0 };
    if w <= nl { w } else { nl }
}
// the scan of one element: the first window containing it gives the label; none: an error
pub open spec fn scan_ok(value: T, m: Seq<TI>, labels: Seq<T2>, right: bool, open_bounds: bool, o: TResult<T2>) -> bool {
    &&& value.opt().is_none() ==> (o matches Ok(l) && l.opt().is_none())
    &&& value.opt() matches Some(v) ==> {
        &&& forall|k: int| #![trigger in_window(v, m, labels.len() as int, k, right, open_bounds)]
                (0 <= k < n_windows(m, labels.len() as int) && in_window(v, m, labels.len() as int, k, right, open_bounds)
                && (forall|j: int| 0 <= j < k ==> !in_window(v, m, labels.len() as int, j, right, open_bounds))) ==> o == Ok::<T2, TError>(labels[k])
        &&& (forall|k: int| 0 <= k < n_windows(m, labels.len() as int) ==> !in_window(v, m, labels.len() as int, k, right, open_bounds)) ==> o.is_err()
    }
}
// the zipped, enumerated window sequence the scan walks over
pub open spec fn scan_seq(m: Seq<TI>, labels: Seq<T2>) -> Seq<(usize, ((TI, TI), T2))> {
    Seq::new(n_windows(m, labels.len() as int) as nat, |i: int| (i as usize, ((m[i], m[i + 1]), labels[i])))
}

// ---- property level: user edges e (ascending), interval k with open outer bounds meaning -inf / +inf
pub open spec fn ascending(e: Seq<TI>) -> bool {
    &&& forall|i: int| 0 <= i < e.len() ==> !(#[trigger] e[i]).is_nanv()
    &&& forall|i: int, j: int| 0 <= i < j < e.len() ==> (#[trigger] e[i]).rval() < (#[trigger] e[j]).rval()
}
pub open spec fn n_intervals(e: Seq<TI>, open_bounds: bool) -> int {
    if open_bounds { e.len() as int + 1 } else if e.len() >= 1 { e.len() as int - 1 } else { 0 }
}
pub open spec fn in_interval(v: TI, e: Seq<TI>, k: int, right: bool, open_bounds: bool) -> bool {
    let lo: Option<TI> = if open_bounds { if k == 0 { None } else { Some(e[k - 1]) } } else { Some(e[k]) };
    let hi: Option<TI> = if open_bounds { if k == e.len() { None } else { Some(e[k]) } } else { Some(e[k + 1]) };
    &&& !v.is_nanv()
    &&& (lo matches Some(x) ==> (if right { x.rval() < v.rval() } else { x.rval() <= v.rval() }))
    &&& (hi matches Some(x) ==> (if right { v.rval() <= x.rval() } else { v.rval() < x.rval() }))
}
pub open spec fn cut_elem_ok(value: T, e: Seq<TI>, labels: Seq<T2>, right: bool, open_bounds: bool, o: TResult<T2>) -> bool {
    &&& value.opt().is_none() ==> (o matches Ok(l) && l.opt().is_none())                                   // nulls get the null label
    &&& value.opt() matches Some(v) ==> {
        // the label of the interval that contains it (unique for ascending edges: lemma_interval_unique)
        &&& forall|k: int| #![trigger in_interval(v, e, k, right, open_bounds)]
                (0 <= k < n_intervals(e, open_bounds) && in_interval(v, e, k, right, open_bounds)) ==> o == Ok::<T2, TError>(labels[k])
        // outside all intervals: an error, never a label
        &&& (forall|k: int| 0 <= k < n_intervals(e, open_bounds) ==> !in_interval(v, e, k, right, open_bounds)) ==> o.is_err()
    }
}
pub proof fn lemma_interval_unique(v: TI, e: Seq<TI>, right: bool, open_bounds: bool, a: int, b: int)
    requires ascending(e), 0 <= a < b < n_intervals(e, open_bounds), in_interval(v, e, a, right, open_bounds),
    ensures !in_interval(v, e, b, right, open_bounds),
{
    // interval a ends at an edge that is <= the edge interval b starts at
    if open_bounds {
        assert(a < e.len());
        if a < b - 1 { assert(e[a].rval() < e[b - 1].rval()); }
    } else {
        if a + 1 < b { assert(e[a + 1].rval() < e[b].rval()); }
    }
}
// with open outer bounds every non-null value lies in some interval
pub proof fn lemma_open_bounds_total(v: TI, e: Seq<TI>, right: bool, k: int)
    requires ascending(e), !v.is_nanv(), 0 <= k <= e.len(),
        forall|j: int| 0 <= j < k ==> (if right { (#[trigger] e[j]).rval() < v.rval() } else { e[j].rval() <= v.rval() }),
    ensures exists|i: int| 0 <= i < n_intervals(e, true) && in_interval(v, e, i, right, true),
    decreases e.len() - k
{
    if k == e.len() {
        assert(in_interval(v, e, k, right, true)) by { if k > 0 { assert(if right { e[k - 1].rval() < v.rval() } else { e[k - 1].rval() <= v.rval() }); } }
    } else if (if right { e[k].rval() < v.rval() } else { e[k].rval() <= v.rval() }) {
        lemma_open_bounds_total(v, e, right, k + 1);
    } else {
        assert(in_interval(v, e, k, right, true)) by { if k > 0 { assert(if right { e[k - 1].rval() < v.rval() } else { e[k - 1].rval() <= v.rval() }); } }
    }
}
// materialised edges <-> user edges
pub open spec fn materialised(e: Seq<TI>, m: Seq<TI>, open_bounds: bool) -> bool {
    if open_bounds { m.len() == e.len() + 2 && (forall|i: int| 1 <= i <= e.len() ==> #[trigger] m[i] == e[i - 1]) && !m[0].is_nanv() && !m[m.len() - 1].is_nanv() }
    else { m == e }
}
pub proof fn lemma_scan_is_cut(value: T, e: Seq<TI>, m: Seq<TI>, labels: Seq<T2>, right: bool, open_bounds: bool, o: TResult<T2>)
    requires
        ascending(e), materialised(e, m, open_bounds), canon(value),
        if open_bounds { labels.len() == e.len() + 1 } else { labels.len() + 1 == e.len() },
        scan_ok(value, m, labels, right, open_bounds, o),
    ensures cut_elem_ok(value, e, labels, right, open_bounds, o),
{
    let nl = labels.len() as int;
    if value.opt().is_some() {
        let v = value.opt().unwrap();
        assert(n_windows(m, nl) == n_intervals(e, open_bounds));
        assert forall|k: int| 0 <= k < n_intervals(e, open_bounds) implies
            in_window(v, m, nl, k, right, open_bounds) == in_interval(v, e, k, right, open_bounds) by {
            if open_bounds {
                if k > 0 { assert(m[k] == e[k - 1]); }
                if k < e.len() { assert(m[k + 1] == e[k]); }
            }
        }
        assert forall|k: int| #![trigger in_interval(v, e, k, right, open_bounds)]
            (0 <= k < n_intervals(e, open_bounds) && in_interval(v, e, k, right, open_bounds)) implies o == Ok::<T2, TError>(labels[k]) by {
            assert forall|j: int| 0 <= j < k implies !in_window(v, m, nl, j, right, open_bounds) by {
                if in_interval(v, e, j, right, open_bounds) { lemma_interval_unique(v, e, right, open_bounds, j, k); }
            }
            assert(in_window(v, m, nl, k, right, open_bounds));
        }
        if forall|k: int| 0 <= k < n_intervals(e, open_bounds) ==> !in_interval(v, e, k, right, open_bounds) {
            assert forall|k: int| 0 <= k < n_windows(m, nl) implies !in_window(v, m, nl, k, right, open_bounds) by {
                assert(!in_interval(v, e, k, right, open_bounds));
            }
            assert(o.is_err());
        }
    }
}

//@fn name=vcut crate=tea-map ctx="pub trait MapValidBasic" props=C14,C09,C10 arith=C14
//@types T::Inner=TI
//@sig fn vcut<V2: TIter<T>, V3: TIter<T2>>(this: It<T>, bins: &V2, labels: &V3, right: bool, add_bounds: bool) -> (r: TResult<It<TResult<T2>>>)
//@strip_turbofish
//@replace .into_iter() => .into_it()
//@replace .chain(vec_from_array( => .chain_vec(vec_from_array(
//@replace .map(IsNone::unwrap) => .map_unwrap()
//@replace .collect() => .collect_vec()
//@replace Box::new( => boxed(
//@replace label.clone() => label
//@replace use itertools::Itertools; => ;
//@closure 1 mode=annotate params="value: T" ret="(o: TResult<T2>)"
//@closure 1 spec
            requires canon(value), labels.view().len() < usize::MAX
            ensures scan_ok(value, bins@, labels.view(), true, add_bounds, o)        // #C14 first_window_containing_the_value
//@closure 1.1 mode=annotate params="" ret="(e: TError)"
//@closure 2 mode=annotate params="value: T" ret="(o: TResult<T2>)"
//@closure 2 spec
            requires canon(value), labels.view().len() < usize::MAX
            ensures scan_ok(value, bins@, labels.view(), false, add_bounds, o)       // #C14 first_window_containing_the_value
//@closure 2.1 mode=annotate params="" ret="(e: TError)"
//@at closure 1 first
            broadcast use a_real_cmp;
//@at closure 2 first
            broadcast use a_real_cmp;
//@at loop 1 first
            broadcast use a_real_cmp;
            let ghost full = scan_seq(bins@, labels.view());
            let ghost c = full.len() - __for1.seq().len();
            proof {
                assert(full.len() <= labels.view().len());
                if __for1.seq().len() > 0 {
                    assert(__for1.seq()[0] == full[c]);
                    assert(full[c] == (c as usize, ((bins@[c], bins@[c + 1]), labels.view()[c])));
                    assert(__for1.seq().skip(1) =~= full.skip(c + 1));
                }
            }
//@loop 1
            invariant_except_break
                __for1.forever().is_none(), out.is_none(), !value.is_nanv(), labels.view().len() < usize::MAX,
                __for1.seq().len() <= scan_seq(bins@, labels.view()).len(),
                __for1.seq() == scan_seq(bins@, labels.view()).skip(scan_seq(bins@, labels.view()).len() - __for1.seq().len()),
                forall|j: int| 0 <= j < scan_seq(bins@, labels.view()).len() - __for1.seq().len() ==> !in_window(value, bins@, labels.view().len() as int, j, true, add_bounds),
            ensures
                out matches Some(l) ==> ({                      // #C14 stops_at_the_first_enclosing_window
                    let k = scan_seq(bins@, labels.view()).len() - __for1.seq().len() - 1;      // the window the scan stopped at
                    0 <= k < n_windows(bins@, labels.view().len() as int) && l == labels.view()[k]
                    && in_window(value, bins@, labels.view().len() as int, k, true, add_bounds)
                    && (forall|j: int| 0 <= j < k ==> !in_window(value, bins@, labels.view().len() as int, j, true, add_bounds))
                }),
                out.is_none() ==> forall|k: int| 0 <= k < n_windows(bins@, labels.view().len() as int) ==> !in_window(value, bins@, labels.view().len() as int, k, true, add_bounds),     // #C14 no_label_only_if_no_window_encloses
            decreases __for1.seq().len(),
//@at loop 2 first
            broadcast use a_real_cmp;
            let ghost full = scan_seq(bins@, labels.view());
            let ghost c = full.len() - __for2.seq().len();
            proof {
                assert(full.len() <= labels.view().len());
                if __for2.seq().len() > 0 {
                    assert(__for2.seq()[0] == full[c]);
                    assert(full[c] == (c as usize, ((bins@[c], bins@[c + 1]), labels.view()[c])));
                    assert(__for2.seq().skip(1) =~= full.skip(c + 1));
                }
            }
//@loop 2
            invariant_except_break
                __for2.forever().is_none(), out.is_none(), !value.is_nanv(), labels.view().len() < usize::MAX,
                __for2.seq().len() <= scan_seq(bins@, labels.view()).len(),
                __for2.seq() == scan_seq(bins@, labels.view()).skip(scan_seq(bins@, labels.view()).len() - __for2.seq().len()),
                forall|j: int| 0 <= j < scan_seq(bins@, labels.view()).len() - __for2.seq().len() ==> !in_window(value, bins@, labels.view().len() as int, j, false, add_bounds),
            ensures
                out matches Some(l) ==> ({                      // #C14 stops_at_the_first_enclosing_window
                    let k = scan_seq(bins@, labels.view()).len() - __for2.seq().len() - 1;      // the window the scan stopped at
                    0 <= k < n_windows(bins@, labels.view().len() as int) && l == labels.view()[k]
                    && in_window(value, bins@, labels.view().len() as int, k, false, add_bounds)
                    && (forall|j: int| 0 <= j < k ==> !in_window(value, bins@, labels.view().len() as int, j, false, add_bounds))
                }),
                out.is_none() ==> forall|k: int| 0 <= k < n_windows(bins@, labels.view().len() as int) ==> !in_window(value, bins@, labels.view().len() as int, k, false, add_bounds),     // #C14 no_label_only_if_no_window_encloses
            decreases __for2.seq().len(),
//@spec
    requires
        this.forever().is_none(), canon_seq(this.seq()),
        ascending(Seq::new(bins.view().len(), |i: int| bins.view()[i].opt().unwrap())),
        forall|i: int| 0 <= i < bins.view().len() ==> (#[trigger] bins.view()[i]).opt().is_some(),     // edges are values, not nulls
        bins.view().len() < usize::MAX, labels.view().len() < usize::MAX,
    ensures
        // a label count that does not match is an error of the whole call, and the only one
        r.is_err() == (if add_bounds { labels.view().len() != bins.view().len() + 1 } else { labels.view().len() + 1 != bins.view().len() }),   // #C14 label_count_mismatch_is_an_error
        r matches Ok(it) ==> {
            &&& it.seq().len() == this.seq().len()                                                                   // #C14,C09 one_result_per_element
            &&& forall|i: int| 0 <= i < this.seq().len() ==>
                    cut_elem_ok(this.seq()[i], Seq::new(bins.view().len(), |j: int| bins.view()[j].opt().unwrap()), labels.view(), right, add_bounds, #[trigger] it.seq()[i])   // #C14 label_of_the_enclosing_interval
            &&& add_bounds ==> forall|i: int| 0 <= i < this.seq().len() ==> (#[trigger] it.seq()[i]).is_ok()           // #C14 open_bounds_label_every_value
        },
//@at body first
    let ghost e0 = Seq::new(bins.view().len(), |j: int| bins.view()[j].opt().unwrap());
    let ghost bins0 = bins.view();
//@at body last
    proof {
        if __ret is Ok {
            let it = __ret->Ok_0;
            assert forall|i: int| 0 <= i < this.seq().len() implies cut_elem_ok(this.seq()[i], e0, labels.view(), right, add_bounds, #[trigger] it.seq()[i]) by {
                assert(canon(this.seq()[i]));
                lemma_scan_is_cut(this.seq()[i], e0, bins@, labels.view(), right, add_bounds, it.seq()[i]);
            }
            if add_bounds {
                assert forall|i: int| 0 <= i < this.seq().len() implies (#[trigger] it.seq()[i]).is_ok() by {
                    assert(cut_elem_ok(this.seq()[i], e0, labels.view(), right, add_bounds, it.seq()[i]));
                    assert(canon(this.seq()[i]));
                    if this.seq()[i].opt().is_some() {
                        lemma_open_bounds_total(this.seq()[i].opt().unwrap(), e0, right, 0);
                        let k = choose|k: int| 0 <= k < n_intervals(e0, true) && in_interval(this.seq()[i].opt().unwrap(), e0, k, right, true);
                        assert(in_interval(this.seq()[i].opt().unwrap(), e0, k, right, add_bounds));
                    }
                }
            }
        }
    }
//@end

} // verus!
fn main() {}
