use vstd::prelude::*;
use vstd::std_specs::ops::*;
use vstd::std_specs::cmp::*;
verus! {
//@include prelude.rs
//@include assume_real.rs
//@include assume_std.rs
//@include dtype.rs
//@include iter.rs
//@include cutmodel.rs
//@props C20

// ============================================================================================
// units/wins.rs — the composite analytics of C20 that are compositions of functions decided elsewhere (tevec/src/map.rs
// `winsorize`, tevec/src/agg.rs `vcorr`):
//   * winsorize = clip of the (cast) series to ONE interval whose bounds are the documented ones: the q and 1-q quantiles
//     (linear), median -/+ k MAD, mean -/+ k sigma of the valid data; nulls stay null (the clip contract);
//   * Spearman correlation = Pearson correlation of the average ranks of the two series.
// What the parts compute is the business of C12 (vquantile / vmedian / vrank: A-SORT), C11 (vmean_var, vcorr_pearson) and
// C13 (vclip): here they are ORACLES with exactly the interface the composition uses (uninterpreted values), so the
// contracts below pin which statistic of which data reaches which bound - not the statistics themselves.
// Instantiation: T = f64 (NaN-encoded nulls).
// ============================================================================================
pub type T = f64;

//@const crate=tea-core name=EPS

pub axiom fn ax_lits()
    ensures rv(1.0f64) == 1real, !nan(1.0f64), rv(3.0f64) == 3real, !nan(3.0f64),
        rv(0.01f64) * 100real == 1real, !nan(0.01f64), rv(1e-14f64) * 100000000000000real == 1real, !nan(1e-14f64), rv(EPS) == rv(1e-14f64), !nan(EPS);

#[derive(Clone, Copy)]
pub enum WinsorizeMethod { Quantile, Median, Sigma }
#[derive(Clone, Copy)]
pub enum QuantileMethod { Linear, Lower, Higher, MidPoint }

// ---- oracles (values decided by C11 / C12), functions of the VALUE VIEW of the data (None = null)
pub open spec fn rval1(v: f64) -> Option<real> { if nan(v) { None } else { Some(rv(v)) } }
pub open spec fn rvals(x: Seq<f64>) -> Seq<Option<real>> { Seq::new(x.len(), |i: int| rval1(x[i])) }
pub uninterp spec fn quant_of(x: Seq<Option<real>>, q: real, m: QuantileMethod) -> TResult<f64>;
pub uninterp spec fn median_of(x: Seq<Option<real>>) -> f64;
pub uninterp spec fn mean_of(x: Seq<Option<real>>, mp: usize) -> f64;
pub uninterp spec fn var_of(x: Seq<Option<real>>, mp: usize) -> f64;
pub uninterp spec fn rabs(x: real) -> real;
pub assume_specification[ f64::abs ](a: f64) -> (r: f64)
    ensures nan(r) == nan(a), rv(r) == rabs(rv(a));

pub trait WinsSource: TIter<f64> {
    // tea-agg vec_valid.rs vquantile / vmedian (unit quant)
    fn vquantile(&self, q: f64, method: QuantileMethod) -> (r: TResult<f64>)
        ensures !nan(q) ==> r == quant_of(rvals(self.view()), rv(q), method);
    fn vmedian(&self) -> (r: f64)
        ensures r == median_of(rvals(self.view()));
    // tea-core iter_cast::<f64>() on an f64 series: the elements themselves
    fn iter_cast(&self) -> (it: It<f64>)
        ensures it.seq() == self.view(), it.announced() == Some(self.view().len()), it.trusted(), it.forever().is_none();
}
// the median of the materialised deviations (a Vec<f64>)
pub trait VecMedian { fn vmedian(&self) -> (r: f64); }
impl VecMedian for Vec<f64> {
    #[verifier::external_body]
    fn vmedian(&self) -> (r: f64)
        ensures
            r == median_of(rvals(self@)),
            // the same fact for every extensionally equal value view (saves the caller an extensionality step)
            forall|t: Seq<Option<real>>| (t.len() == self@.len() && (forall|i: int| 0 <= i < t.len() ==> #[trigger] t[i] == rval1(self@[i]))) ==> r == #[trigger] median_of(t),
    { unimplemented!() }
}

// clip: nulls stay null; a non-null value below the (non-null) lower bound becomes the lower bound, above the upper bound the
// upper bound (the contract PROVED for tea-map vclip in unit `map`, clause clip_acts_on_each_element_alone; restated here)
pub open spec fn clip_elem(a: f64, lower: Option<real>, upper: Option<real>, o: f64) -> bool {
    if nan(a) { nan(o) }
    else if lower.is_some() && rv(a) < lower.unwrap() { !nan(o) && rv(o) == lower.unwrap() }
    else if upper.is_some() && rv(a) > upper.unwrap() { !nan(o) && rv(o) == upper.unwrap() }
    else { o == a }
}
pub open spec fn clipped(out: Seq<f64>, x: Seq<f64>, lo: Option<real>, hi: Option<real>) -> bool {
    &&& out.len() == x.len()
    &&& forall|i: int| 0 <= i < x.len() ==> clip_elem(x[i], lo, hi, #[trigger] out[i])
}
impl It<f64> {
    #[verifier::external_body]
    pub fn vclip(self, lower: f64, upper: f64) -> (r: It<f64>)
        requires self.forever().is_none(),
        ensures clipped(r.seq(), self.seq(), rval1(lower), rval1(upper)), r.forever().is_none(), r.announced() == self.announced(), r.trusted() == self.trusted(),
    { unimplemented!() }
    // tea-core agg.rs vmean_var (unit agg)
    #[verifier::external_body]
    pub fn vmean_var(self, min_periods: usize) -> (r: (f64, f64))
        ensures r.0 == mean_of(rvals(self.seq()), min_periods), r.1 == var_of(rvals(self.seq()), min_periods),
    { unimplemented!() }
}

// ---- the documented bounds
// absolute deviations from the median, element by element (nulls stay null)
pub open spec fn absdev(x: Seq<f64>, med: real) -> Seq<Option<real>> {
    Seq::new(x.len(), |i: int| if nan(x[i]) { None::<real> } else { Some(rabs(rv(x[i]) - med)) })
}
// centre -/+ k * scale; undefined (no bound on that side) when an ingredient is null
pub open spec fn bound(centre: f64, k: f64, scale: Option<real>, sign: real) -> Option<real> {
    if nan(centre) || nan(k) || scale.is_none() { None } else { Some(rv(centre) + sign * (rv(k) * scale.unwrap())) }
}
pub open spec fn wins_ok(method: WinsorizeMethod, p: Option<f64>, x: Seq<f64>, out: Seq<f64>) -> bool {
    match method {
        WinsorizeMethod::Quantile => {
            let q = match p { Some(q) => q, None => 0.01f64 };
            !nan(q) ==> {
                &&& quant_of(rvals(x), rv(q), QuantileMethod::Linear) is Ok
                &&& quant_of(rvals(x), 1real - rv(q), QuantileMethod::Linear) is Ok
                &&& clipped(out, x, rval1(quant_of(rvals(x), rv(q), QuantileMethod::Linear)->Ok_0),
                            rval1(quant_of(rvals(x), 1real - rv(q), QuantileMethod::Linear)->Ok_0))
            }
        },
        WinsorizeMethod::Median => {
            let k = match p { Some(k) => k, None => 3.0f64 };
            let med = median_of(rvals(x));
            if nan(med) { out =~= x } else {
                let mad = rval1(median_of(absdev(x, rv(med))));
                clipped(out, x, bound(med, k, mad, -1real), bound(med, k, mad, 1real))
            }
        },
        WinsorizeMethod::Sigma => {
            let k = match p { Some(k) => k, None => 3.0f64 };
            let (mean, var) = (mean_of(rvals(x), 2), var_of(rvals(x), 2));
            // no spread (or too few observations): nothing to clip
            if !nan(mean) && !nan(var) && rv(var) > rv(EPS) {
                clipped(out, x, bound(mean, k, Some(rsqrt(rv(var))), -1real), bound(mean, k, Some(rsqrt(rv(var))), 1real))
            } else { out =~= x }
        },
    }
}

//@fn name=winsorize crate=tevec ctx="pub trait MapValidFinal" props=C20 arith=C20
//@sig fn winsorize<V: WinsSource>(this: &V, method: WinsorizeMethod, method_params: Option<f64>) -> (r: TResult<Box<It<f64>>>)
//@strip_turbofish
//@replace use tea_agg::QuantileMethod; =>
//@replace this.map( => this.titer().map(
//@replace .collect_trusted_to_vec() => .collect_trusted_vec1()
//@replace v.cast() => v
//@closure 1 mode=annotate params="v: f64" ret="(o: f64)"
//@closure 1 spec
                            ensures nan(o) == (nan(v) || nan(median)), rv(o) == rabs(rv(v) - rv(median))
//@at closure 1 first
                            broadcast use a_real;
//@spec
    requires this.view().len() <= usize::MAX,
    ensures
        r matches Ok(b) ==> wins_ok(method, method_params, this.view(), b.seq()),          // #C20 clipped_to_the_documented_interval
        // the Quantile method fails exactly when a quantile fails; the other methods never fail
        (method is Median || method is Sigma) ==> r is Ok,                                       // #C20 only_the_quantile_method_can_fail
//@at body first
    broadcast use a_real;
    broadcast use a_real_cmp;
    proof { ax_lits(); }
//@end

// ---- Spearman = Pearson of the average ranks (tevec/src/agg.rs vcorr)
#[derive(Clone, Copy)]
pub enum CorrMethod { Pearson, Spearman }
pub uninterp spec fn pearson_of(a: Seq<f64>, b: Seq<f64>, mp: usize) -> f64;
pub uninterp spec fn ranks_of(x: Seq<f64>, pct: bool, rev: bool) -> Seq<f64>;
pub trait CorrSource: TIter<f64> {
    // tea-map vec_map.rs vrank: average ranks (C12)
    fn vrank(&self, pct: bool, rev: bool) -> (r: Vec<f64>)
        ensures r@ == ranks_of(self.view(), pct, rev);
}
impl It<f64> {
    // tea-core agg.rs vcorr_pearson (unit aggp)
    #[verifier::external_body]
    pub fn vcorr_pearson(self, other: It<f64>, min_periods: usize) -> (r: f64)
        ensures r == pearson_of(self.seq(), other.seq(), min_periods),
    { unimplemented!() }
}

//@fn name=vcorr crate=tevec ctx="pub trait AggValidFinal" props=C20 arith=C20
//@sig fn vcorr<V: CorrSource, V2: CorrSource>(this: &V, other: &V2, min_periods: Option<usize>, method: CorrMethod) -> (r: f64)
//@strip_turbofish
//@replace v1_rank.vcorr_pearson(v2_rank, min_periods) => v1_rank.titer().vcorr_pearson(v2_rank.titer(), min_periods)
//@spec
    ensures
        method is Spearman ==> r == pearson_of(ranks_of(this.view(), false, false), ranks_of(other.view(), false, false),
                                               match min_periods { Some(m) => m, None => (this.view().len() / 2) as usize }),     // #C20 spearman_is_pearson_of_average_ranks
        method is Pearson ==> r == pearson_of(this.view(), other.view(),
                                               match min_periods { Some(m) => m, None => (this.view().len() / 2) as usize }),     // #C20 pearson_of_the_series
//@end

} // verus!
fn main() {}
