use vstd::prelude::*;
use vstd::std_specs::ops::*;
use vstd::std_specs::cmp::*;
use core::cmp::Ordering;
verus! {
//@include prelude.rs
//@include assume_real.rs
//@include assume_std.rs
//@include dtype.rs
//@include lemmas/window.rs
//@include lemmas/idxwin.rs

// exact (integer) instantiation of the extrema family: T = Option<i64>, output Option<i64>
pub type T = Option<i64>;
pub type U = Option<i64>;

pub open spec fn le(a: T, b: T) -> bool { nl_cmp(a, b) != Ordering::Greater }
pub open spec fn lt(a: T, b: T) -> bool { nl_cmp(a, b) == Ordering::Less }
pub open spec fn ge_rev(a: T, b: T) -> bool { nl_cmp_rev(a, b) != Ordering::Greater }     // a is "not after" b in descending, nulls-last order
pub open spec fn gt_rev(a: T, b: T) -> bool { nl_cmp_rev(a, b) == Ordering::Less }

// ---- the property (C03): the rolling minimum equals the least non-null element of the window, exactly
pub open spec fn is_min_of(w: Seq<T>, o: Option<i64>) -> bool {
    &&& o matches Some(m) ==> (exists|j: int| 0 <= j < w.len() && w[j] == Some(m)) && (forall|j: int| 0 <= j < w.len() ==> (#[trigger] w[j] matches Some(y) ==> m <= y))
    &&& o.is_none() ==> forall|j: int| 0 <= j < w.len() ==> (#[trigger] w[j]).is_none()
}
pub open spec fn is_max_of(w: Seq<T>, o: Option<i64>) -> bool {
    &&& o matches Some(m) ==> (exists|j: int| 0 <= j < w.len() && w[j] == Some(m)) && (forall|j: int| 0 <= j < w.len() ==> (#[trigger] w[j] matches Some(y) ==> m >= y))
    &&& o.is_none() ==> forall|j: int| 0 <= j < w.len() ==> (#[trigger] w[j]).is_none()
}
pub open spec fn vmin_spec(w: Seq<T>, mp: int, o: U) -> bool {
    if cnt(vals(w)) >= mp { is_min_of(w, o) } else { o.is_none() }          // null below min_periods (C05)
}
pub open spec fn vmax_spec(w: Seq<T>, mp: int, o: U) -> bool {
    if cnt(vals(w)) >= mp { is_max_of(w, o) } else { o.is_none() }
}
// omitted min_periods in this family: half of the window clamped to the series length (DESIGN 5.3)
pub open spec fn mp_cmp(mp: Option<usize>, window: usize, len: nat) -> int {
    match mp { Some(m) => m as int, None => (if window <= len { window as int } else { len as int }) / 2 }
}

// cached-extreme representation invariant (DESIGN 6/C03), shared by min/argmin (ord = ascending) and max/argmax (descending)
pub open spec fn cache_ok(x: Seq<T>, s: int, e: int, idx: Option<usize>, cached: T, asc: bool) -> bool {
    &&& idx matches Some(j) && s <= j <= e && cached == x[j as int]
    &&& forall|i: int| s <= i <= e ==> (if asc { le(x[idx.unwrap() as int], #[trigger] x[i]) } else { ge_rev(x[idx.unwrap() as int], #[trigger] x[i]) })
    // ties: the most recent position holds the cache
    &&& forall|i: int| idx.unwrap() < i <= e ==> (if asc { lt(x[idx.unwrap() as int], #[trigger] x[i]) } else { gt_rev(x[idx.unwrap() as int], #[trigger] x[i]) })
}

pub proof fn lemma_cache_gives_min(x: Seq<T>, s: int, e: int, idx: Option<usize>, cached: T)
    requires 0 <= s <= e < x.len(), cache_ok(x, s, e, idx, cached, true),
    ensures is_min_of(x.subrange(s, e + 1), cached),
{
    let w = x.subrange(s, e + 1);
    let j = idx.unwrap() as int;
    assert(w[j - s] == x[j]);
    assert forall|t: int| 0 <= t < w.len() implies (match cached { Some(m) => (#[trigger] w[t] matches Some(y) ==> m <= y), None => w[t].is_none() }) by {
        assert(w[t] == x[s + t]);
        assert(le(x[j], x[s + t]));
    }
}
pub proof fn lemma_cache_gives_max(x: Seq<T>, s: int, e: int, idx: Option<usize>, cached: T)
    requires 0 <= s <= e < x.len(), cache_ok(x, s, e, idx, cached, false),
    ensures is_max_of(x.subrange(s, e + 1), cached),
{
    let w = x.subrange(s, e + 1);
    let j = idx.unwrap() as int;
    assert(w[j - s] == x[j]);
    assert forall|t: int| 0 <= t < w.len() implies (match cached { Some(m) => (#[trigger] w[t] matches Some(y) ==> m >= y), None => w[t].is_none() }) by {
        assert(w[t] == x[s + t]);
        assert(ge_rev(x[j], x[s + t]));
    }
}

//@fn name=ts_vmin_to crate=tea-rolling ctx="pub trait RollingValidCmp" props=C03,C05,C06,C07,C10 arith=C05
//@types T::Inner=i64
//@sig fn ts_vmin_to<V: RollingDrivers<T>, O: Vec1<U>>(this: &V, window: usize, min_periods: Option<usize>, out: Option<&mut O::Buf>) -> (r: Option<O>)
//@replace min(this.len(), window) => usize_min(this.len(), window)
//@spec
    requires
        out matches Some(o) ==> buf_fresh(o, this.view().len()),
        window >= 1,
    ensures
        delivered_each(r, match out { Some(o) => Some(final(o).written()), None => None }, this.view().len(),                    // #C05,C07 one_output_per_input
            |i: int, o: U| vmin_spec(wnd(this.view(), window, i), mp_cmp(min_periods, window, this.view().len()), o)),             // #C03,C05,C06 minimum_of_window
//@closure 1 name=CloVmin generics="<'a, V: RollingDrivers<T>>" generics_use="<'a, V>" trait="RollingIdxFn<T, U>" params="start: Option<usize>, end: usize, v: T" ret="(res: U)" push="CallIdx { start: start, end: end, v: v, out: __r }" callty="CallIdx<T, U>" caps="mut min: Option<i64>, mut min_idx: Option<usize>, mut n: usize, this: &'a V, min_periods: usize"
//@closure 1 extra
    open spec fn hist(&self) -> Seq<CallIdx<T, U>> { self.h@ }
    open spec fn series(&self) -> Seq<T> { self.this.view() }
//@closure 1 inv
        let h = self.h@;
        let x = self.this.view();
        &&& h.len() == 0 ==> self.min_idx.is_none() && self.min.is_none() && self.n == 0
        &&& h.len() > 0 ==> {
            let e = h.len() - 1;
            let s = ostart(h.last().start);
            &&& h.last().end == e && e < x.len() && 0 <= s <= e
            &&& cache_ok(x, s, e, self.min_idx, self.min, true)                                                        // #C03,C06 cached_minimum_describes_window
            &&& self.n as int == cntr(x, s + (if h.last().start.is_some() { 1int } else { 0int }), e + 1)              // #C03,C05 count_describes_window
        }
        &&& idx_outs_ok(h, x, |w: Seq<T>, o: U| vmin_spec(w, self.min_periods as int, o))
//@at closure 1 first
        let ghost x = self.this.view();
        let ghost h0 = self.h@;
        let ghost s_new = ostart(start);
        proof {
            // count of the previous window after its removal == count of [s_new, end)
            if h0.len() > 0 {
                assert(s_new == ostart(h0.last().start) + (if h0.last().start.is_some() { 1int } else { 0int }));
                lemma_cntr_bounds(x, s_new, end as int);
            } else {
                lemma_cntr_empty(x, 0);
            }
            lemma_cntr_push(x, s_new, end as int);
            lemma_cntr_bounds(x, s_new, end as int + 1);
            if start.is_some() { lemma_cntr_pop(x, s_new, end as int + 1); }
        }
//@loop 1
                        invariant
                            x == this.view(), start <= end, end < x.len(), x.len() <= usize::MAX,
                            i == start ==> min == x[start as int],
                            i > start ==> cache_ok(x, start as int, i - 1, min_idx, min, true),
//@at closure 1 last
        proof {
            assert(cache_ok(x, s_new, end as int, min_idx, min, true));                          // #C03,C06 cached_minimum_describes_window
            lemma_cache_gives_min(x, s_new, end as int, min_idx, min);
            let c = CallIdx { start: start, end: end, v: v, out: __r };
            assert(vmin_spec(x.subrange(s_new, end as int + 1), self.min_periods as int, __r));   // #C03,C05,C06 output_is_window_minimum
            lemma_idx_outs_step(h0, c, x, |w: Seq<T>, o: U| vmin_spec(w, self.min_periods as int, o));
        }
//@at body first
    let ghost mp0 = min_periods;
    let ghost out0 = out;
    let ghost window0 = window;
//@at body last
    proof {
        let h = __clo1.h@;
        let x = this.view();
        let s = outs_idx(h);
        if x.len() > 0 {
            let p = |i: int, o: U| vmin_spec(wnd(x, window0, i), mp_cmp(mp0, window0, x.len()), o);
            assert forall|i: int| 0 <= i < s.len() implies p(i, #[trigger] s[i]) by {
                lemma_idx_window_is_wnd(h, x, window, window0, i);
            }
            lemma_delivered_each(__ret, match out0 { Some(o) => Some(final(o).written()), None => None }, s, p);
        }
        // empty in, empty out (window clamps to 0: nothing called, nothing written)
    }
//@end

//@fn name=ts_vmax_to crate=tea-rolling ctx="pub trait RollingValidCmp" props=C03,C05,C06,C07,C10 arith=C05
//@types T::Inner=i64
//@sig fn ts_vmax_to<V: RollingDrivers<T>, O: Vec1<U>>(this: &V, window: usize, min_periods: Option<usize>, out: Option<&mut O::Buf>) -> (r: Option<O>)
//@replace min(this.len(), window) => usize_min(this.len(), window)
//@spec
    requires
        out matches Some(o) ==> buf_fresh(o, this.view().len()),
        window >= 1,
    ensures
        delivered_each(r, match out { Some(o) => Some(final(o).written()), None => None }, this.view().len(),                    // #C05,C07 one_output_per_input
            |i: int, o: U| vmax_spec(wnd(this.view(), window, i), mp_cmp(min_periods, window, this.view().len()), o)),             // #C03,C05,C06 maximum_of_window
//@closure 1 name=CloVmax generics="<'a, V: RollingDrivers<T>>" generics_use="<'a, V>" trait="RollingIdxFn<T, U>" params="start: Option<usize>, end: usize, v: T" ret="(res: U)" push="CallIdx { start: start, end: end, v: v, out: __r }" callty="CallIdx<T, U>" caps="mut max: Option<i64>, mut max_idx: Option<usize>, mut n: usize, this: &'a V, min_periods: usize"
//@closure 1 extra
    open spec fn hist(&self) -> Seq<CallIdx<T, U>> { self.h@ }
    open spec fn series(&self) -> Seq<T> { self.this.view() }
//@closure 1 inv
        let h = self.h@;
        let x = self.this.view();
        &&& h.len() == 0 ==> self.max_idx.is_none() && self.max.is_none() && self.n == 0
        &&& h.len() > 0 ==> {
            let e = h.len() - 1;
            let s = ostart(h.last().start);
            &&& h.last().end == e && e < x.len() && 0 <= s <= e
            &&& cache_ok(x, s, e, self.max_idx, self.max, false)                                                        // #C03,C06 cached_maximum_describes_window
            &&& self.n as int == cntr(x, s + (if h.last().start.is_some() { 1int } else { 0int }), e + 1)              // #C03,C05 count_describes_window
        }
        &&& idx_outs_ok(h, x, |w: Seq<T>, o: U| vmax_spec(w, self.min_periods as int, o))
//@at closure 1 first
        let ghost x = self.this.view();
        let ghost h0 = self.h@;
        let ghost s_new = ostart(start);
        proof {
            // count of the previous window after its removal == count of [s_new, end)
            if h0.len() > 0 {
                assert(s_new == ostart(h0.last().start) + (if h0.last().start.is_some() { 1int } else { 0int }));
                lemma_cntr_bounds(x, s_new, end as int);
            } else {
                lemma_cntr_empty(x, 0);
            }
            lemma_cntr_push(x, s_new, end as int);
            lemma_cntr_bounds(x, s_new, end as int + 1);
            if start.is_some() { lemma_cntr_pop(x, s_new, end as int + 1); }
        }
//@loop 1
                        invariant
                            x == this.view(), start <= end, end < x.len(), x.len() <= usize::MAX,
                            i == start ==> max == x[start as int],
                            i > start ==> cache_ok(x, start as int, i - 1, max_idx, max, false),
//@at closure 1 last
        proof {
            assert(cache_ok(x, s_new, end as int, max_idx, max, false));                          // #C03,C06 cached_maximum_describes_window
            lemma_cache_gives_max(x, s_new, end as int, max_idx, max);
            let c = CallIdx { start: start, end: end, v: v, out: __r };
            assert(vmax_spec(x.subrange(s_new, end as int + 1), self.min_periods as int, __r));   // #C03,C05,C06 output_is_window_maximum
            lemma_idx_outs_step(h0, c, x, |w: Seq<T>, o: U| vmax_spec(w, self.min_periods as int, o));
        }
//@at body first
    let ghost mp0 = min_periods;
    let ghost out0 = out;
    let ghost window0 = window;
//@at body last
    proof {
        let h = __clo1.h@;
        let x = this.view();
        let s = outs_idx(h);
        if x.len() > 0 {
            let p = |i: int, o: U| vmax_spec(wnd(x, window0, i), mp_cmp(mp0, window0, x.len()), o);
            assert forall|i: int| 0 <= i < s.len() implies p(i, #[trigger] s[i]) by {
                lemma_idx_window_is_wnd(h, x, window, window0, i);
            }
            lemma_delivered_each(__ret, match out0 { Some(o) => Some(final(o).written()), None => None }, s, p);
        }
        // empty in, empty out (window clamps to 0: nothing called, nothing written)
    }
//@end

// ---- arg-extrema (C03): 1-based offset from the window start of the MOST RECENT position holding the extreme
pub open spec fn is_argext(w: Seq<T>, j: int, asc: bool) -> bool {
    &&& 0 <= j < w.len() && w[j].is_some()
    &&& forall|t: int| 0 <= t < w.len() ==> (if asc { le(w[j], #[trigger] w[t]) } else { ge_rev(w[j], #[trigger] w[t]) })
    &&& forall|t: int| j < t < w.len() ==> (if asc { lt(w[j], #[trigger] w[t]) } else { gt_rev(w[j], #[trigger] w[t]) })
}
pub open spec fn varg_spec(w: Seq<T>, mp: int, o: f64, asc: bool) -> bool {
    if cnt(vals(w)) >= mp {
        // defined as soon as the window holds a non-null element; an all-null window with min_periods 0 is left unspecified
        cnt(vals(w)) > 0 ==> !nan(o) && exists|j: int| is_argext(w, j, asc) && rv(o) == (j + 1) as real
    } else { nan(o) }
}
pub proof fn lemma_cache_gives_arg(x: Seq<T>, s: int, e: int, idx: Option<usize>, cached: T, asc: bool)
    requires 0 <= s <= e < x.len(), cache_ok(x, s, e, idx, cached, asc), cntr(x, s, e + 1) > 0,
    ensures is_argext(x.subrange(s, e + 1), idx.unwrap() as int - s, asc),
{
    let w = x.subrange(s, e + 1);
    let j = idx.unwrap() as int;
    assert(w[j - s] == x[j]);
    // a non-null element exists, so the null-last extreme is non-null
    lemma_cnt_pos_has_some(vals(w));
    let t0 = choose|t: int| 0 <= t < w.len() && (#[trigger] vals(w)[t]).is_some();
    assert(w[t0] == x[s + t0]);
    assert(if asc { le(x[j], x[s + t0]) } else { ge_rev(x[j], x[s + t0]) });
    assert forall|t: int| 0 <= t < w.len() implies (if asc { le(w[j - s], #[trigger] w[t]) } else { ge_rev(w[j - s], #[trigger] w[t]) }) by { assert(w[t] == x[s + t]); }
    assert forall|t: int| j - s < t < w.len() implies (if asc { lt(w[j - s], #[trigger] w[t]) } else { gt_rev(w[j - s], #[trigger] w[t]) }) by { assert(w[t] == x[s + t]); }
}

//@fn name=ts_vargmin_to crate=tea-rolling ctx="pub trait RollingValidCmp" props=C03,C05,C06,C07,C10 arith=C05
//@types T::Inner=i64
//@sig fn ts_vargmin_to<V: RollingDrivers<T>, O: Vec1<f64>>(this: &V, window: usize, min_periods: Option<usize>, out: Option<&mut O::Buf>) -> (r: Option<O>)
//@replace min(this.len(), window) => usize_min(this.len(), window)
//@spec
    requires
        out matches Some(o) ==> buf_fresh(o, this.view().len()),
        window >= 1,
    ensures
        delivered_each(r, match out { Some(o) => Some(final(o).written()), None => None }, this.view().len(),                    // #C05,C07 one_output_per_input
            |i: int, o: f64| varg_spec(wnd(this.view(), window, i), mp_cmp(min_periods, window, this.view().len()), o, true)),             // #C03,C05,C06 minimum_of_window
//@closure 1 name=CloVargmin generics="<'a, V: RollingDrivers<T>>" generics_use="<'a, V>" trait="RollingIdxFn<T, f64>" params="start: Option<usize>, end: usize, v: T" ret="(res: f64)" push="CallIdx { start: start, end: end, v: v, out: __r }" callty="CallIdx<T, f64>" caps="mut min: Option<i64>, mut min_idx: Option<usize>, mut n: usize, this: &'a V, min_periods: usize"
//@closure 1 extra
    open spec fn hist(&self) -> Seq<CallIdx<T, f64>> { self.h@ }
    open spec fn series(&self) -> Seq<T> { self.this.view() }
//@closure 1 inv
        let h = self.h@;
        let x = self.this.view();
        &&& h.len() == 0 ==> self.min_idx.is_none() && self.min.is_none() && self.n == 0
        &&& h.len() > 0 ==> {
            let e = h.len() - 1;
            let s = ostart(h.last().start);
            &&& h.last().end == e && e < x.len() && 0 <= s <= e
            &&& cache_ok(x, s, e, self.min_idx, self.min, true)                                                        // #C03,C06 cached_minimum_describes_window
            &&& self.n as int == cntr(x, s + (if h.last().start.is_some() { 1int } else { 0int }), e + 1)              // #C03,C05 count_describes_window
        }
        &&& idx_outs_ok(h, x, |w: Seq<T>, o: f64| varg_spec(w, self.min_periods as int, o, true))
//@at closure 1 first
        let ghost x = self.this.view();
        let ghost h0 = self.h@;
        let ghost s_new = ostart(start);
        proof {
            // count of the previous window after its removal == count of [s_new, end)
            if h0.len() > 0 {
                assert(s_new == ostart(h0.last().start) + (if h0.last().start.is_some() { 1int } else { 0int }));
                lemma_cntr_bounds(x, s_new, end as int);
            } else {
                lemma_cntr_empty(x, 0);
            }
            lemma_cntr_push(x, s_new, end as int);
            lemma_cntr_bounds(x, s_new, end as int + 1);
            if start.is_some() { lemma_cntr_pop(x, s_new, end as int + 1); }
        }
//@loop 1
                        invariant
                            x == this.view(), start <= end, end < x.len(), x.len() <= usize::MAX,
                            i == start ==> min == x[start as int],
                            i > start ==> cache_ok(x, start as int, i - 1, min_idx, min, true),
//@at closure 1 last
        proof {
            assert(cache_ok(x, s_new, end as int, min_idx, min, true));                          // #C03,C06 cached_extreme_describes_window
            if cntr(x, s_new, end as int + 1) > 0 { lemma_cache_gives_arg(x, s_new, end as int, min_idx, min, true); }
            let c = CallIdx { start: start, end: end, v: v, out: __r };
            assert(varg_spec(x.subrange(s_new, end as int + 1), self.min_periods as int, __r, true));   // #C03,C05,C06 output_is_offset_of_most_recent_extreme
            lemma_idx_outs_step(h0, c, x, |w: Seq<T>, o: f64| varg_spec(w, self.min_periods as int, o, true));
        }
//@closure 1.1 mode=annotate params="min_idx: usize" ret="(q: f64)"
//@closure 1.1 spec
                                requires min_idx as int >= ostart(start), min_idx <= end,
                                ensures !nan(q), rv(q) == (min_idx as int - ostart(start) + 1) as real
//@at body first
    let ghost mp0 = min_periods;
    let ghost out0 = out;
    let ghost window0 = window;
//@at body last
    proof {
        let h = __clo1.h@;
        let x = this.view();
        let s = outs_idx(h);
        if x.len() > 0 {
            let p = |i: int, o: f64| varg_spec(wnd(x, window0, i), mp_cmp(mp0, window0, x.len()), o, true);
            assert forall|i: int| 0 <= i < s.len() implies p(i, #[trigger] s[i]) by {
                lemma_idx_window_is_wnd(h, x, window, window0, i);
            }
            lemma_delivered_each(__ret, match out0 { Some(o) => Some(final(o).written()), None => None }, s, p);
        }
        // empty in, empty out (window clamps to 0: nothing called, nothing written)
    }
//@end

//@fn name=ts_vargmax_to crate=tea-rolling ctx="pub trait RollingValidCmp" props=C03,C05,C06,C07,C10 arith=C05
//@types T::Inner=i64
//@sig fn ts_vargmax_to<V: RollingDrivers<T>, O: Vec1<f64>>(this: &V, window: usize, min_periods: Option<usize>, out: Option<&mut O::Buf>) -> (r: Option<O>)
//@replace min(this.len(), window) => usize_min(this.len(), window)
//@spec
    requires
        out matches Some(o) ==> buf_fresh(o, this.view().len()),
        window >= 1,
    ensures
        delivered_each(r, match out { Some(o) => Some(final(o).written()), None => None }, this.view().len(),                    // #C05,C07 one_output_per_input
            |i: int, o: f64| varg_spec(wnd(this.view(), window, i), mp_cmp(min_periods, window, this.view().len()), o, false)),             // #C03,C05,C06 maximum_of_window
//@closure 1 name=CloVargmax generics="<'a, V: RollingDrivers<T>>" generics_use="<'a, V>" trait="RollingIdxFn<T, f64>" params="start: Option<usize>, end: usize, v: T" ret="(res: f64)" push="CallIdx { start: start, end: end, v: v, out: __r }" callty="CallIdx<T, f64>" caps="mut max: Option<i64>, mut max_idx: Option<usize>, mut n: usize, this: &'a V, min_periods: usize"
//@closure 1 extra
    open spec fn hist(&self) -> Seq<CallIdx<T, f64>> { self.h@ }
    open spec fn series(&self) -> Seq<T> { self.this.view() }
//@closure 1 inv
        let h = self.h@;
        let x = self.this.view();
        &&& h.len() == 0 ==> self.max_idx.is_none() && self.max.is_none() && self.n == 0
        &&& h.len() > 0 ==> {
            let e = h.len() - 1;
            let s = ostart(h.last().start);
            &&& h.last().end == e && e < x.len() && 0 <= s <= e
            &&& cache_ok(x, s, e, self.max_idx, self.max, false)                                                        // #C03,C06 cached_maximum_describes_window
            &&& self.n as int == cntr(x, s + (if h.last().start.is_some() { 1int } else { 0int }), e + 1)              // #C03,C05 count_describes_window
        }
        &&& idx_outs_ok(h, x, |w: Seq<T>, o: f64| varg_spec(w, self.min_periods as int, o, false))
//@at closure 1 first
        let ghost x = self.this.view();
        let ghost h0 = self.h@;
        let ghost s_new = ostart(start);
        proof {
            // count of the previous window after its removal == count of [s_new, end)
            if h0.len() > 0 {
                assert(s_new == ostart(h0.last().start) + (if h0.last().start.is_some() { 1int } else { 0int }));
                lemma_cntr_bounds(x, s_new, end as int);
            } else {
                lemma_cntr_empty(x, 0);
            }
            lemma_cntr_push(x, s_new, end as int);
            lemma_cntr_bounds(x, s_new, end as int + 1);
            if start.is_some() { lemma_cntr_pop(x, s_new, end as int + 1); }
        }
//@loop 1
                        invariant
                            x == this.view(), start <= end, end < x.len(), x.len() <= usize::MAX,
                            i == start ==> max == x[start as int],
                            i > start ==> cache_ok(x, start as int, i - 1, max_idx, max, false),
//@at closure 1 last
        proof {
            assert(cache_ok(x, s_new, end as int, max_idx, max, false));                          // #C03,C06 cached_extreme_describes_window
            if cntr(x, s_new, end as int + 1) > 0 { lemma_cache_gives_arg(x, s_new, end as int, max_idx, max, false); }
            let c = CallIdx { start: start, end: end, v: v, out: __r };
            assert(varg_spec(x.subrange(s_new, end as int + 1), self.min_periods as int, __r, false));   // #C03,C05,C06 output_is_offset_of_most_recent_extreme
            lemma_idx_outs_step(h0, c, x, |w: Seq<T>, o: f64| varg_spec(w, self.min_periods as int, o, false));
        }
//@closure 1.1 mode=annotate params="max_idx: usize" ret="(q: f64)"
//@closure 1.1 spec
                                requires max_idx as int >= ostart(start), max_idx <= end,
                                ensures !nan(q), rv(q) == (max_idx as int - ostart(start) + 1) as real
//@at body first
    let ghost mp0 = min_periods;
    let ghost out0 = out;
    let ghost window0 = window;
//@at body last
    proof {
        let h = __clo1.h@;
        let x = this.view();
        let s = outs_idx(h);
        if x.len() > 0 {
            let p = |i: int, o: f64| varg_spec(wnd(x, window0, i), mp_cmp(mp0, window0, x.len()), o, false);
            assert forall|i: int| 0 <= i < s.len() implies p(i, #[trigger] s[i]) by {
                lemma_idx_window_is_wnd(h, x, window, window0, i);
            }
            lemma_delivered_each(__ret, match out0 { Some(o) => Some(final(o).written()), None => None }, s, p);
        }
        // empty in, empty out (window clamps to 0: nothing called, nothing written)
    }
//@end

} // verus!
fn main() {}
