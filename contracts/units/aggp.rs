use vstd::prelude::*;
use vstd::std_specs::ops::*;
use vstd::std_specs::cmp::*;
verus! {
//@include prelude.rs
//@include assume_real.rs
//@include assume_std.rs
//@include dtype.rs
//@include iter.rs
//@include lemmas/window.rs
//@include aggmodel.rs

// two-series aggregations over the pairwise-complete observations (C11, C08).  Instantiation: both series NaN-encoded f64
// (A-MONO); `T::Cast<f64>` is then f64: `res.into_cast::<T>()` is the identity and `T::Cast::<f64>::none()` is NaN (R12).
pub type T = f64;
pub type T2 = f64;
pub type P = (T, T2);

//@const crate=tea-core name=EPS
pub axiom fn ax_lits()
    ensures rv(0.0f64) == 0real, !nan(0.0f64), rv(1e-14f64) * 100000000000000real == 1real, !nan(1e-14f64), rv(EPS) == rv(1e-14f64), !nan(EPS);

pub open spec fn both(p: P) -> bool { val(p.0).is_some() && val(p.1).is_some() }
pub open spec fn ga(p: P) -> Option<real> { if both(p) { Some(val(p.0).unwrap()) } else { None } }
pub open spec fn gb(p: P) -> Option<real> { if both(p) { Some(val(p.1).unwrap()) } else { None } }
pub open spec fn gab(p: P) -> Option<real> { if both(p) { Some(val(p.0).unwrap() * val(p.1).unwrap()) } else { None } }
pub open spec fn gaa(p: P) -> Option<real> { if both(p) { Some(val(p.0).unwrap() * val(p.0).unwrap()) } else { None } }
pub open spec fn gbb(p: P) -> Option<real> { if both(p) { Some(val(p.1).unwrap() * val(p.1).unwrap()) } else { None } }
pub open spec fn npair(w: Seq<P>) -> int { cnt(mvals(w, |p: P| ga(p))) }
pub open spec fn sa(w: Seq<P>) -> real { ps(mvals(w, |p: P| ga(p)), 1) }
pub open spec fn sb(w: Seq<P>) -> real { ps(mvals(w, |p: P| gb(p)), 1) }
pub open spec fn sab(w: Seq<P>) -> real { ps(mvals(w, |p: P| gab(p)), 1) }
pub open spec fn saa(w: Seq<P>) -> real { ps(mvals(w, |p: P| gaa(p)), 1) }
pub open spec fn sbb(w: Seq<P>) -> real { ps(mvals(w, |p: P| gbb(p)), 1) }

// one more pair: every sum moves by that pair's contribution (nothing for an incomplete pair)
pub proof fn lemma_pair_push(w: Seq<P>, p: P)
    ensures
        npair(w.push(p)) == npair(w) + (if both(p) { 1int } else { 0int }),
        sa(w.push(p)) == sa(w) + pw(ga(p), 1), sb(w.push(p)) == sb(w) + pw(gb(p), 1), sab(w.push(p)) == sab(w) + pw(gab(p), 1),
        saa(w.push(p)) == saa(w) + pw(gaa(p), 1), sbb(w.push(p)) == sbb(w) + pw(gbb(p), 1),
        0 <= npair(w) <= w.len(),
{
    assert(mvals(w.push(p), |p: P| ga(p)) =~= mvals(w, |p: P| ga(p)).push(ga(p)));
    assert(mvals(w.push(p), |p: P| gb(p)) =~= mvals(w, |p: P| gb(p)).push(gb(p)));
    assert(mvals(w.push(p), |p: P| gab(p)) =~= mvals(w, |p: P| gab(p)).push(gab(p)));
    assert(mvals(w.push(p), |p: P| gaa(p)) =~= mvals(w, |p: P| gaa(p)).push(gaa(p)));
    assert(mvals(w.push(p), |p: P| gbb(p)) =~= mvals(w, |p: P| gbb(p)).push(gbb(p)));
    lemma_push(mvals(w, |p: P| ga(p)), ga(p));
    lemma_push(mvals(w, |p: P| gb(p)), gb(p));
    lemma_push(mvals(w, |p: P| gab(p)), gab(p));
    lemma_push(mvals(w, |p: P| gaa(p)), gaa(p));
    lemma_push(mvals(w, |p: P| gbb(p)), gbb(p));
    lemma_cnt_le_len(mvals(w, |p: P| ga(p)));
}
pub open spec fn pair_sums_ok(h: Seq<P>, n: usize, s_a: f64, s_b: f64, s_ab: f64, s_aa: f64, s_bb: f64, full: bool) -> bool {
    &&& n as int == npair(h) && h.len() <= 0x7fff_ffff
    &&& !nan(s_a) && rv(s_a) == sa(h) && !nan(s_b) && rv(s_b) == sb(h) && !nan(s_ab) && rv(s_ab) == sab(h)
    &&& full ==> !nan(s_aa) && rv(s_aa) == saa(h) && !nan(s_bb) && rv(s_bb) == sbb(h)
}
pub open spec fn zip2(a: Seq<T>, b: Seq<T2>) -> Seq<P> { Seq::new(min_nat(a.len(), b.len()), |i: int| (a[i], b[i])) }

// sample covariance of the pairwise-complete pairs: (Sab - Sa Sb / n) / (n - 1), null below max(min_periods, 2) pairs
pub open spec fn cov_ok(w: Seq<P>, mp: int, r: f64) -> bool {
    let n = npair(w);
    let m = if mp >= 2 { mp } else { 2 };
    &&& n < m ==> nan(r)
    &&& n >= m ==> !nan(r) && rv(r) == (sab(w) - sa(w) * sb(w) / (n as real)) / ((n - 1) as real)
}

//@fn name=vcov crate=tea-core ctx="pub trait AggValidBasic" props=C11,C08 arith=C11
//@types T::Inner=f64; T2::Inner=f64
//@sig fn vcov(this: It<T>, other: It<T2>, min_periods: usize) -> (r: f64)
//@strip_turbofish
//@replace min_periods.max_with(2) => usize_max_with(min_periods, 2)
//@replace .for_each( => .for_each_mut(
//@replace res.into_cast() => res
//@replace T::Cast::none() => f64_nan()
//@closure 1 name=CloCov trait="ApplyFn<P>" params="__p: P" ret="()" push="__p" caps="mut n: usize, mut sum_a: f64, mut sum_b: f64, mut sum_ab: f64" callty="P" writeback=1
//@closure 1 extra
    open spec fn hist(&self) -> Seq<P> { self.h@ }
    open spec fn arg_ok(v: P) -> bool { true }
//@closure 1 inv
        &&& pair_sums_ok(self.h@, self.n, self.sum_a, self.sum_b, self.sum_ab, self.sum_ab, self.sum_ab, false)        // #C11 sums_describe_the_complete_pairs_seen
//@at closure 1 first
        broadcast use a_real;
        proof { lemma_pair_push(self.h@, __p); }
//@spec
    requires this.forever().is_none(), other.forever().is_none(), this.seq().len() <= 0x7fff_ffff,
    ensures cov_ok(zip2(this.seq(), other.seq()), min_periods as int, r),           // #C11,C08 sample_covariance_of_complete_pairs
//@at body first
    broadcast use a_real, a_real_cmp;
    proof { ax_lits(); }
//@at closure 1 decl
    proof { assert(mvals(Seq::<P>::empty(), |p: P| ga(p)).len() == 0); assert(mvals(Seq::<P>::empty(), |p: P| gb(p)).len() == 0); assert(mvals(Seq::<P>::empty(), |p: P| gab(p)).len() == 0); }
//@at closure 1 after
    proof {
        let z = this.seq();
        assert(Seq::<P>::empty() + zip2(this.seq(), other.seq()) =~= zip2(this.seq(), other.seq()));
    }
//@end

// Pearson correlation of the pairwise-complete pairs: (Sab/n - Sa Sb/n^2) / sqrt(var_a var_b) with the biased variances; null when
// fewer than max(min_periods, 2) pairs or when either spread is (numerically) zero
pub open spec fn bvar(s2: real, s1: real, n: int) -> real { s2 / (n as real) - (s1 / (n as real)) * (s1 / (n as real)) }
pub open spec fn corr_ok(w: Seq<P>, mp: int, r: f64) -> bool {
    let n = npair(w);
    let m = if mp >= 2 { mp } else { 2 };
    let (va, vb) = (bvar(saa(w), sa(w), n), bvar(sbb(w), sb(w), n));
    &&& n < m ==> nan(r)
    &&& n >= m ==> (if va > rv(EPS) && vb > rv(EPS) {
            !nan(r) && rv(r) == (sab(w) / (n as real) - sa(w) * sb(w) / ((n as real) * (n as real))) / rsqrt(va * vb)
        } else { nan(r) })
}
pub fn band(a: bool, b: bool) -> (r: bool) ensures r == (a && b) { a && b }

//@fn name=vcorr_pearson crate=tea-core ctx="pub trait AggValidBasic" props=C11,C08 arith=C11
//@types T::Inner=f64; T2::Inner=f64; O=f64
//@sig fn vcorr_pearson(this: It<T>, other: It<T2>, min_periods: usize) -> (r: f64)
//@strip_turbofish
//@replace min_periods.max_with(2) => usize_max_with(min_periods, 2)
//@replace .for_each( => .for_each_mut(
//@replace (var_a > EPS) & (var_b > EPS) => band(var_a > EPS, var_b > EPS)
//@closure 1 name=CloCorr trait="ApplyFn<P>" params="__p: P" ret="()" push="__p" caps="mut n: usize, mut sum_a: f64, mut sum2_a: f64, mut sum_b: f64, mut sum2_b: f64, mut sum_ab: f64" callty="P" writeback=1
//@closure 1 extra
    open spec fn hist(&self) -> Seq<P> { self.h@ }
    open spec fn arg_ok(v: P) -> bool { true }
//@closure 1 inv
        &&& pair_sums_ok(self.h@, self.n, self.sum_a, self.sum_b, self.sum_ab, self.sum2_a, self.sum2_b, true)        // #C11 sums_describe_the_complete_pairs_seen
//@at closure 1 first
        broadcast use a_real;
        proof { lemma_pair_push(self.h@, __p); }
//@spec
    requires this.forever().is_none(), other.forever().is_none(), this.seq().len() <= 0x7fff_ffff,
    ensures corr_ok(zip2(this.seq(), other.seq()), min_periods as int, r),          // #C11,C08 pearson_correlation_of_complete_pairs
//@at body first
    broadcast use a_real, a_real_cmp;
    proof { ax_lits(); reveal_with_fuel(rpow, 3); }
//@at closure 1 decl
    proof {
        assert(mvals(Seq::<P>::empty(), |p: P| ga(p)).len() == 0); assert(mvals(Seq::<P>::empty(), |p: P| gb(p)).len() == 0);
        assert(mvals(Seq::<P>::empty(), |p: P| gab(p)).len() == 0); assert(mvals(Seq::<P>::empty(), |p: P| gaa(p)).len() == 0);
        assert(mvals(Seq::<P>::empty(), |p: P| gbb(p)).len() == 0);
    }
//@at closure 1 after
    proof {
        let w = zip2(this.seq(), other.seq());
        assert(Seq::<P>::empty() + w =~= w);
        let nn = npair(w);
        assert(__clo1.h@ =~= w);
        assert(n as int == nn);
        assert(rv(sum2_a) == saa(w) && rv(sum2_b) == sbb(w) && rv(sum_a) == sa(w) && rv(sum_b) == sb(w) && rv(sum_ab) == sab(w));
        if nn >= 2 {
            let (va, vb) = (bvar(saa(w), sa(w), nn), bvar(sbb(w), sb(w), nn));
            assert(rpow(sa(w) / (nn as real), 2) == (sa(w) / (nn as real)) * (sa(w) / (nn as real)));
            assert(rpow(sb(w) / (nn as real), 2) == (sb(w) / (nn as real)) * (sb(w) / (nn as real)));
            let nr = nn as real;
            assert(nr * nr > 0real) by(nonlinear_arith) requires nr >= 2real;
            if va > rv(EPS) && vb > rv(EPS) {
                assert(va * vb > 0real) by(nonlinear_arith) requires va > 0real, vb > 0real;
                ax_rsqrt(va * vb);
                let s = rsqrt(va * vb);
                assert(s != 0real) by(nonlinear_arith) requires s * s == va * vb, va * vb > 0real;
            }
        }
    }
//@end

pub fn usize_max_with(a: usize, b: usize) -> (r: usize) ensures r == (if b > a { b } else { a }) { if b > a { b } else { a } }

} // verus!
fn main() {}
