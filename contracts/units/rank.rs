use vstd::prelude::*;
use vstd::std_specs::ops::*;
use vstd::std_specs::cmp::*;
use core::cmp::Ordering;
verus! {
//@include prelude.rs
//@include assume_real.rs
//@include assume_std.rs
//@include dtype.rs
//@include iter.rs
//@include lemmas/window.rs

pub type T = Option<i64>;

pub open spec fn honest_out<A>(r: &It<A>) -> bool { r.trusted() && r.announced() == Some(r.seq().len()) && r.forever().is_none() }
pub open spec fn nvalid(s: Seq<T>) -> int { cnt(vals(s)) }

impl It<T> {
    // tea-core agg.rs count_valid (C11): number of non-null items.  ASSUMED here, proved in unit `agg`.
    #[verifier::external_body]
    pub fn count_valid(self) -> (n: usize)
        requires self.forever().is_none(),
        ensures n as int == nvalid(self.seq()),
    { unimplemented!() }
    // `.filter(IsNone::not_none)` (R12): the non-null items, in order; Filter is not TrustedLen
    #[verifier::external_body]
    pub fn filter_not_none(self) -> (r: It<T>)
        requires self.forever().is_none(),
        ensures
            !r.trusted(), r.forever().is_none(), r.seq().len() == nvalid(self.seq()),
            forall|i: int| 0 <= i < r.seq().len() ==> (#[trigger] r.seq()[i]).is_some(),
    { unimplemented!() }
}
// Vec1Create::range(None, n, None) for i32 (C19 contract, assumed here): 0, 1, .., n-1
#[verifier::external_body]
pub fn range_i32(n: i32) -> (r: Vec<i32>)
    requires n >= 0,
    ensures r@.len() == n, forall|i: int| 0 <= i < n ==> r@[i] == i,
{ unimplemented!() }

//@fn name=vpartition crate=tea-map ctx="pub trait MapValidVec" props=C12,C09,C10 arith=C12
//@sig fn vpartition<V: TIter<T>>(this: &V, kth: usize, sort: bool, rev: bool) -> (r: Box<It<T>>)
//@replace .filter(IsNone::not_none) => .filter_not_none()
//@replace std::iter::repeat => repeat
//@replace .into_iter() => .into_it()
//@replace if !rev { T::sort_cmp } else { T::sort_cmp_rev } => |a: &T, b: &T| -> (o: Ordering) { if !rev { a.sort_cmp(b) } else { a.sort_cmp_rev(b) } }
//@closure 1 mode=annotate params="a: &T, b: &T" ret="(o: Ordering)"
//@closure 2 mode=annotate params="a: &T, b: &T" ret="(o: Ordering)"
//@spec
    requires
        kth < usize::MAX,
    ensures
        r.seq().len() == kth + 1,            // #C12,C09 always_k_plus_one_entries
        honest_out(&*r),                     // #C09,C10 announces_what_it_yields
        // fewer valid elements than k+1: the valid ones (never a null) come first, padded with nulls
        (nvalid(this.view()) <= kth + 1 && !sort) ==> forall|i: int| 0 <= i < kth + 1 ==> ((#[trigger] r.seq()[i]).is_some() <==> i < nvalid(this.view())),   // #C12 valid_then_padding
//@at body first
    proof { lemma_cnt_le_len(vals(this.view())); }
//@end

//@fn name=varg_partition crate=tea-map ctx="pub trait MapValidVec" props=C12,C09,C10 arith=C12
//@sig fn varg_partition<V: TIter<T>>(this: &V, kth: usize, sort: bool, rev: bool) -> (r: Box<It<i32>>)
//@replace std::iter::repeat => repeat
//@replace .into_iter() => .into_it()
//@replace Vec1Create::range(None, this.len() as i32, None) => range_i32(this.len() as i32)
//@replace Vec1Create::range(None, slc.len() as i32, None) => range_i32(slc.len() as i32)
//@replace out_c.try_as_slice_mut().unwrap() => out_c.as_mut_slice()
//@closure 1 mode=annotate params="__p: (usize, T)" ret="(o: Option<i32>)"
//@closure 1 spec
                            ensures (o matches Some(i) ==> __p.1.is_some() && i == __p.0 as i32) && (o.is_none() ==> __p.1.is_none())
//@closure 2 mode=annotate key="sort_cmp(" params="a: &i32, b: &i32" ret="(o: Ordering)"
//@closure 2 spec
                            requires 0 <= *a < this.view().len() && 0 <= *b < this.view().len()        // #C10 comparator_indices_in_range
                            ensures o == nl_cmp(this.view()[*a as int], this.view()[*b as int])          // #C12 ascending_comparator_orders_by_value_nulls_last
//@closure 3 mode=annotate key="sort_cmp_rev(" params="a: &i32, b: &i32" ret="(o: Ordering)"
//@closure 3 spec
                            requires 0 <= *a < this.view().len() && 0 <= *b < this.view().len()        // #C10 comparator_indices_in_range
                            ensures o == nl_cmp_rev(this.view()[*a as int], this.view()[*b as int])      // #C12 descending_comparator_orders_by_value_nulls_last
//@closure 4 mode=annotate key="sort_cmp(" params="a: &i32, b: &i32" ret="(o: Ordering)"
//@closure 4 spec
                requires 0 <= *a < this.view().len() && 0 <= *b < this.view().len()                    // #C10 comparator_indices_in_range
                ensures o == nl_cmp(this.view()[*a as int], this.view()[*b as int])                      // #C12 ascending_comparator_orders_by_value_nulls_last
//@closure 5 mode=annotate key="sort_cmp_rev(" params="a: &i32, b: &i32" ret="(o: Ordering)"
//@closure 5 spec
                requires 0 <= *a < this.view().len() && 0 <= *b < this.view().len()                    // #C10 comparator_indices_in_range
                ensures o == nl_cmp_rev(this.view()[*a as int], this.view()[*b as int])                  // #C12 descending_comparator_orders_by_value_nulls_last
//@spec
    requires
        kth < usize::MAX,
        this.view().len() <= 0x7fff_ffff,        // A-LEN: positions are reported as i32
    ensures
        r.seq().len() == kth + 1,                // #C12,C09 always_k_plus_one_entries
        honest_out(&*r),                         // #C09,C10 announces_what_it_yields
//@at body first
    proof { lemma_cnt_le_len(vals(this.view())); }
//@end

} // verus!
fn main() {}
