use vstd::prelude::*;
use vstd::std_specs::ops::*;
use vstd::std_specs::cmp::*;
verus! {
//@include prelude.rs
//@include assume_real.rs
//@include assume_std.rs
//@include dtype.rs
//@include dtype_optcast.rs
//@include lemmas/window.rs
//@include lemmas/weighted.rs

pub type T = ${T};
pub type U = ${U};

pub axiom fn ax_lits()
    ensures rv(0.0f64) == 0real, !nan(0.0f64), rv(2.0f64) == 2real, !nan(2.0f64), rv(6.0f64) == 6real, !nan(6.0f64);

pub open spec fn isnull(o: U) -> bool { o.opt().is_none() }
pub open spec fn oval(o: U) -> real { o.opt().unwrap().rval() }
pub open spec fn mp_eff(mp: Option<usize>, window: usize, intrinsic: int) -> int {
    let m = match mp { Some(m) => m as int, None => (window / 2) as int };
    let m2 = if m <= window { m } else { window as int };
    if m2 >= intrinsic { m2 } else { intrinsic }
}

// ---- ordinary least squares of the window's non-null values x_1..x_n on t = 1..n (C04 time-trend family)
pub open spec fn st1(n: int) -> real { (n * (n + 1) / 2) as real }                                   // sum of t
pub open spec fn st2(n: int) -> real { ((n * n + n) as real) * ((2 * n + 1) as real) / 6real }      // sum of t^2 = n(n+1)(2n+1)/6
pub open spec fn ols_den(n: int) -> real { (n as real) * st2(n) - st1(n) * st1(n) }
pub open spec fn ols_slope(w: Seq<Option<real>>) -> real {
    let n = cnt(w);
    ((n as real) * wsum(w) - st1(n) * ps(w, 1)) / ols_den(n)
}
pub open spec fn ols_icpt(w: Seq<Option<real>>) -> real {
    let n = cnt(w);
    (ps(w, 1) - ols_slope(w) * st1(n)) / (n as real)
}
pub open spec fn trend_spec(w: Seq<Option<real>>, mp: int, o: U, which: int) -> bool {
    let n = cnt(w);
    &&& n < mp ==> isnull(o)
    &&& (n >= mp && n >= 2) ==> !isnull(o) && oval(o) == (
            if which == 0 { ols_icpt(w) + ols_slope(w) * (n as real) }              // fitted value at the last point
            else if which == 1 { ols_icpt(w) + ols_slope(w) * ((n + 1) as real) }   // one-step-ahead forecast
            else if which == 2 { ols_slope(w) }
            else { ols_icpt(w) })
}
pub proof fn lemma_even_prod(n: int)
    requires n >= 0,
    ensures (n * (n + 1)) % 2 == 0,
    decreases n
{
    if n > 0 {
        lemma_even_prod(n - 1);
        assert(n * (n + 1) == (n - 1) * n + 2 * n) by(nonlinear_arith);
    } else {
        assert(n * (n + 1) == 0) by(nonlinear_arith) requires n == 0;
    }
}
// n * sum(t^2) - (sum t)^2 = n^2 (n^2 - 1) / 12 > 0 for n >= 2: the slope is well defined
pub proof fn lemma_ols_den_pos(n: int)
    requires n >= 2,
    ensures ols_den(n) > 0real, (n * (n + 1)) % 2 == 0, n * (n + 1) / 2 >= 1,
{
    lemma_even_prod(n);
    assert(n * (n + 1) >= 6) by(nonlinear_arith) requires n >= 2;
    let h = n * (n + 1) / 2;
    assert(2 * h == n * (n + 1));
    assert(n * (n + 1) == n * n + n) by(nonlinear_arith);
    let nr = n as real;
    let pr = (n * n + n) as real;                 // p = n^2 + n
    assert(pr == nr * nr + nr) by(nonlinear_arith) requires pr == (n * n + n) as real, nr == n as real;
    let two = 2real * (h as real);               // 2 * sum t
    assert(two == pr);
    let s2 = pr * ((2 * n + 1) as real) / 6real;  // sum t^2
    let br = (2 * n + 1) as real;
    assert(br == 2real * nr + 1real);
    let six = pr * br;
    assert(s2 * 6real == six) by(nonlinear_arith) requires s2 == six / 6real;
    let den = nr * s2 - (h as real) * (h as real);
    let hh = (h as real) * (h as real);
    assert(4real * hh == two * two) by(nonlinear_arith) requires two == 2real * (h as real), hh == (h as real) * (h as real);
    let ns2 = nr * s2;
    assert(6real * ns2 == nr * six) by(nonlinear_arith) requires ns2 == nr * s2, s2 * 6real == six;
    // 12 den = 2 (6 n s2) - 3 (4 h^2) = 2 n six - 3 p^2
    let nsix = nr * six;
    let pp = pr * pr;
    assert(12real * den == 2real * nsix - 3real * pp);
    assert(nsix == nr * pr * br) by(nonlinear_arith) requires nsix == nr * six, six == pr * br;
    // 2 n p (2n+1) - 3 p^2 = p (n^2 - n)
    let q = nr * nr - nr;
    assert(2real * (nr * pr * br) - 3real * pp == pr * q) by(nonlinear_arith)
        requires br == 2real * nr + 1real, pr == nr * nr + nr, pp == pr * pr, q == nr * nr - nr;
    assert(pr > 0real) by(nonlinear_arith) requires pr == nr * nr + nr, nr >= 2real;
    assert(q > 0real) by(nonlinear_arith) requires q == nr * nr - nr, nr >= 2real;
    assert(pr * q > 0real) by(nonlinear_arith) requires pr > 0real, q > 0real;
    assert(st1(n) == h as real);
    assert(st2(n) == s2);
}

pub proof fn lemma_small_products(k: int)
    requires 0 <= k <= 0x7fff_ffff,
    ensures k * k <= 0x3fff_ffff_0000_0001, k * k + k <= 0x4000_0000_0000_0000, k * (k + 1) == k * k + k, 2 * k + 1 <= 0xffff_ffff,
{
    assert(k * k <= 0x3fff_ffff_0000_0001) by(nonlinear_arith) requires 0 <= k <= 0x7fff_ffff;
    assert(k * (k + 1) == k * k + k) by(nonlinear_arith);
}
// what the code's expressions are, in the shapes the property uses (for a window count k >= 2)
pub proof fn lemma_trend_shapes(k: int, sw: real, s1: real)
    requires k >= 2,
    ensures
        ols_den(k) > 0real,
        (k * k + k) / 2 == k * (k + 1) / 2,
        // divisor as the code associates it
        ((k as real) * ((k * k + k) as real)) * ((2 * k + 1) as real) / 6real - rpow(st1(k), 2) == ols_den(k),
        ({
            let slope = ((k as real) * sw - st1(k) * s1) / ols_den(k);
            &&& st1(k) * (-slope) + s1 == s1 - slope * st1(k)
        }),
{
    lemma_ols_den_pos(k);
    reveal_with_fuel(rpow, 3);
    assert(k * (k + 1) == k * k + k) by(nonlinear_arith);
    let nr = k as real; let a = (k * k + k) as real; let b = (2 * k + 1) as real;
    let ab = a * b;
    let q = ab / 6real;
    assert(q * 6real == ab) by(nonlinear_arith) requires q == ab / 6real;
    let lhs = ((nr * a) * b) / 6real;
    assert((nr * a) * b == nr * ab) by(nonlinear_arith) requires ab == a * b;
    assert(lhs * 6real == nr * ab) by(nonlinear_arith) requires lhs == ((nr * a) * b) / 6real, (nr * a) * b == nr * ab;
    assert((nr * q) * 6real == nr * ab) by(nonlinear_arith) requires q * 6real == ab;
    assert(lhs == nr * q);
    assert(rpow(st1(k), 2) == st1(k) * st1(k)) by(nonlinear_arith) requires rpow(st1(k), 2) == st1(k) * (st1(k) * 1real);
    let slope = (nr * sw - st1(k) * s1) / ols_den(k);
    assert(st1(k) * (-slope) + s1 == s1 - slope * st1(k)) by(nonlinear_arith);
}
//@fn name=ts_vreg_to crate=tea-rolling ctx="pub trait RollingValidReg" props=C04,C05,C06,C08 arith=C05
//@types T::Inner=${TI}
//@sig fn ts_vreg_to<V: RollingDrivers<T>, O: Vec1<U>>(this: &V, window: usize, min_periods: Option<usize>, out: Option<&mut O::Buf>) -> (r: Option<O>)
//@replace -slope => fneg(slope)
//@spec
    requires
        canon_seq(this.view()),
        out matches Some(o) ==> buf_fresh(o, this.view().len()),
        (window == 0 && out.is_none() && this.view().len() > 0) ==> panic_allowed(),
        this.view().len() <= 0x7fff_ffff,      // A-LEN
    ensures
        window >= 1 ==> delivered_each(r, match out { Some(o) => Some(final(o).written()), None => None }, this.view().len(),       // #C05 one_output_per_input
            |i: int, o: U| trend_spec(vals(wnd(this.view(), window, i)), mp_eff(min_periods, window, 0), o, 0)),                              // #C04,C05,C06 value_and_mask
//@closure 1 name=CloVreg trait="RollingFn<T, U>" params="v_rm: Option<T>, v: T" ret="(res: U)" push="Call { rm: v_rm, v: v, out: __r }" caps="mut sum: f64, mut sum_xt: f64, mut n: usize, min_periods: usize"
//@closure 1 extra
    open spec fn hist(&self) -> Seq<Call<T, U>> { self.h@ }
    open spec fn elem_ok(v: T) -> bool { canon(v) }
    open spec fn cap_len() -> nat { 0x7fff_ffff }
//@closure 1 inv
        &&& hist_wf(self.h@) && canon_seq(adds(self.h@))
        &&& self.n as int == cnt(vals(win(self.h@)))
        &&& rv(self.sum) == ps(vals(win(self.h@)), 1) && !nan(self.sum)                 // #C04 state_describes_window
        &&& rv(self.sum_xt) == wsum(vals(win(self.h@))) && !nan(self.sum_xt)            // #C04 weighted_state_describes_window
        &&& outs_ok(self.h@, |w: Seq<T>, o: U| trend_spec(vals(w), self.min_periods as int, o, 0))
//@at closure 1 first
        let ghost w0 = vals(win(self.h@));
        let ghost wp = w0.push(val(v));
        proof {
            broadcast use a_real, a_real_cmp;
            ax_lits();
            lemma_step_vals(self.h@, v_rm, v);
            lemma_small_products(self.n as int); lemma_small_products(self.n as int + 1);
            if cnt(w0) >= 2 { lemma_trend_shapes(cnt(w0), wsum(w0), ps(w0, 1)); }
            if cnt(wp) >= 2 { lemma_trend_shapes(cnt(wp), wsum(wp), ps(wp, 1)); }
            reveal_with_fuel(rpow, 3);
            lemma_wsum_push(w0, val(v));
            if v_rm.is_some() { lemma_wsum_drop_first(wp); }
            assert forall|a: usize| (#[trigger] (a >> 1usize)) == a / 2 by { assert((a >> 1usize) == a / 2) by(bit_vector); }
        }
//@at closure 1 last
        proof {
            let c = Call { rm: v_rm, v: v, out: __r };
            lemma_fifo_step(self.h@, c);
            if v_rm.is_some() { assert(v_rm.unwrap() == adds(self.h@).push(v)[nrm(self.h@) as int]); }
            assert(adds(self.h@.push(c)) =~= adds(self.h@).push(v));
            assert(trend_spec(vals(win(self.h@).push(v)), self.min_periods as int, __r, 0));       // #C04,C05 output_is_window_statistic
            assert(rv(sum_xt) == wsum(vals(win(self.h@.push(c)))) && rv(sum) == ps(vals(win(self.h@.push(c))), 1) && n as int == cnt(vals(win(self.h@.push(c)))));   // #C04 weighted_state_after_call
            lemma_outs_step(self.h@, c, |w: Seq<T>, o: U| trend_spec(vals(w), self.min_periods as int, o, 0));
        }
//@at body first
    let ghost mp0 = min_periods;
    let ghost out0 = out;
    proof { ax_lits(); }
//@at body last
    proof {
        let h = __clo1.h@;
        let s = outs(h);
        if window >= 1 {
            let p = |i: int, o: U| trend_spec(vals(wnd(this.view(), window, i)), mp_eff(mp0, window, 0), o, 0);
            assert forall|i: int| 0 <= i < s.len() implies p(i, #[trigger] s[i]) by {
                lemma_fifo_window_is_wnd(h, this.view(), window, i);
                assert(trend_spec(vals(fifo_window(h, i)), __clo1.min_periods as int, h[i].out, 0));
            }
            lemma_delivered_each(__ret, match out0 { Some(o) => Some(final(o).written()), None => None }, s, p);
        }
    }
//@end

//@fn name=ts_vtsf_to crate=tea-rolling ctx="pub trait RollingValidReg" props=C04,C05,C06,C08 arith=C05
//@types T::Inner=${TI}
//@sig fn ts_vtsf_to<V: RollingDrivers<T>, O: Vec1<U>>(this: &V, window: usize, min_periods: Option<usize>, out: Option<&mut O::Buf>) -> (r: Option<O>)
//@replace -slope => fneg(slope)
//@spec
    requires
        canon_seq(this.view()),
        out matches Some(o) ==> buf_fresh(o, this.view().len()),
        (window == 0 && out.is_none() && this.view().len() > 0) ==> panic_allowed(),
        this.view().len() <= 0x7fff_ffff,      // A-LEN
    ensures
        window >= 1 ==> delivered_each(r, match out { Some(o) => Some(final(o).written()), None => None }, this.view().len(),       // #C05 one_output_per_input
            |i: int, o: U| trend_spec(vals(wnd(this.view(), window, i)), mp_eff(min_periods, window, 0), o, 1)),                              // #C04,C05,C06 value_and_mask
//@closure 1 name=CloVtsf trait="RollingFn<T, U>" params="v_rm: Option<T>, v: T" ret="(res: U)" push="Call { rm: v_rm, v: v, out: __r }" caps="mut sum: f64, mut sum_xt: f64, mut n: usize, min_periods: usize"
//@closure 1 extra
    open spec fn hist(&self) -> Seq<Call<T, U>> { self.h@ }
    open spec fn elem_ok(v: T) -> bool { canon(v) }
    open spec fn cap_len() -> nat { 0x7fff_ffff }
//@closure 1 inv
        &&& hist_wf(self.h@) && canon_seq(adds(self.h@))
        &&& self.n as int == cnt(vals(win(self.h@)))
        &&& rv(self.sum) == ps(vals(win(self.h@)), 1) && !nan(self.sum)                 // #C04 state_describes_window
        &&& rv(self.sum_xt) == wsum(vals(win(self.h@))) && !nan(self.sum_xt)            // #C04 weighted_state_describes_window
        &&& outs_ok(self.h@, |w: Seq<T>, o: U| trend_spec(vals(w), self.min_periods as int, o, 1))
//@at closure 1 first
        let ghost w0 = vals(win(self.h@));
        let ghost wp = w0.push(val(v));
        proof {
            broadcast use a_real, a_real_cmp;
            ax_lits();
            lemma_step_vals(self.h@, v_rm, v);
            lemma_small_products(self.n as int); lemma_small_products(self.n as int + 1);
            if cnt(w0) >= 2 { lemma_trend_shapes(cnt(w0), wsum(w0), ps(w0, 1)); }
            if cnt(wp) >= 2 { lemma_trend_shapes(cnt(wp), wsum(wp), ps(wp, 1)); }
            reveal_with_fuel(rpow, 3);
            lemma_wsum_push(w0, val(v));
            if v_rm.is_some() { lemma_wsum_drop_first(wp); }
            assert forall|a: usize| (#[trigger] (a >> 1usize)) == a / 2 by { assert((a >> 1usize) == a / 2) by(bit_vector); }
        }
//@at closure 1 last
        proof {
            let c = Call { rm: v_rm, v: v, out: __r };
            lemma_fifo_step(self.h@, c);
            if v_rm.is_some() { assert(v_rm.unwrap() == adds(self.h@).push(v)[nrm(self.h@) as int]); }
            assert(adds(self.h@.push(c)) =~= adds(self.h@).push(v));
            assert(trend_spec(vals(win(self.h@).push(v)), self.min_periods as int, __r, 1));       // #C04,C05 output_is_window_statistic
            assert(rv(sum_xt) == wsum(vals(win(self.h@.push(c)))) && rv(sum) == ps(vals(win(self.h@.push(c))), 1) && n as int == cnt(vals(win(self.h@.push(c)))));   // #C04 weighted_state_after_call
            lemma_outs_step(self.h@, c, |w: Seq<T>, o: U| trend_spec(vals(w), self.min_periods as int, o, 1));
        }
//@at body first
    let ghost mp0 = min_periods;
    let ghost out0 = out;
    proof { ax_lits(); }
//@at body last
    proof {
        let h = __clo1.h@;
        let s = outs(h);
        if window >= 1 {
            let p = |i: int, o: U| trend_spec(vals(wnd(this.view(), window, i)), mp_eff(mp0, window, 0), o, 1);
            assert forall|i: int| 0 <= i < s.len() implies p(i, #[trigger] s[i]) by {
                lemma_fifo_window_is_wnd(h, this.view(), window, i);
                assert(trend_spec(vals(fifo_window(h, i)), __clo1.min_periods as int, h[i].out, 1));
            }
            lemma_delivered_each(__ret, match out0 { Some(o) => Some(final(o).written()), None => None }, s, p);
        }
    }
//@end

//@fn name=ts_vreg_slope_to crate=tea-rolling ctx="pub trait RollingValidReg" props=C04,C05,C06,C08 arith=C05
//@types T::Inner=${TI}
//@sig fn ts_vreg_slope_to<V: RollingDrivers<T>, O: Vec1<U>>(this: &V, window: usize, min_periods: Option<usize>, out: Option<&mut O::Buf>) -> (r: Option<O>)
//@replace -slope => fneg(slope)
//@spec
    requires
        canon_seq(this.view()),
        out matches Some(o) ==> buf_fresh(o, this.view().len()),
        (window == 0 && out.is_none() && this.view().len() > 0) ==> panic_allowed(),
        this.view().len() <= 0x7fff_ffff,      // A-LEN
    ensures
        window >= 1 ==> delivered_each(r, match out { Some(o) => Some(final(o).written()), None => None }, this.view().len(),       // #C05 one_output_per_input
            |i: int, o: U| trend_spec(vals(wnd(this.view(), window, i)), mp_eff(min_periods, window, 0), o, 2)),                              // #C04,C05,C06 value_and_mask
//@closure 1 name=CloVregSlope trait="RollingFn<T, U>" params="v_rm: Option<T>, v: T" ret="(res: U)" push="Call { rm: v_rm, v: v, out: __r }" caps="mut sum: f64, mut sum_xt: f64, mut n: usize, min_periods: usize"
//@closure 1 extra
    open spec fn hist(&self) -> Seq<Call<T, U>> { self.h@ }
    open spec fn elem_ok(v: T) -> bool { canon(v) }
    open spec fn cap_len() -> nat { 0x7fff_ffff }
//@closure 1 inv
        &&& hist_wf(self.h@) && canon_seq(adds(self.h@))
        &&& self.n as int == cnt(vals(win(self.h@)))
        &&& rv(self.sum) == ps(vals(win(self.h@)), 1) && !nan(self.sum)                 // #C04 state_describes_window
        &&& rv(self.sum_xt) == wsum(vals(win(self.h@))) && !nan(self.sum_xt)            // #C04 weighted_state_describes_window
        &&& outs_ok(self.h@, |w: Seq<T>, o: U| trend_spec(vals(w), self.min_periods as int, o, 2))
//@at closure 1 first
        let ghost w0 = vals(win(self.h@));
        let ghost wp = w0.push(val(v));
        proof {
            broadcast use a_real, a_real_cmp;
            ax_lits();
            lemma_step_vals(self.h@, v_rm, v);
            lemma_small_products(self.n as int); lemma_small_products(self.n as int + 1);
            if cnt(w0) >= 2 { lemma_trend_shapes(cnt(w0), wsum(w0), ps(w0, 1)); }
            if cnt(wp) >= 2 { lemma_trend_shapes(cnt(wp), wsum(wp), ps(wp, 1)); }
            reveal_with_fuel(rpow, 3);
            lemma_wsum_push(w0, val(v));
            if v_rm.is_some() { lemma_wsum_drop_first(wp); }
            assert forall|a: usize| (#[trigger] (a >> 1usize)) == a / 2 by { assert((a >> 1usize) == a / 2) by(bit_vector); }
        }
//@at closure 1 last
        proof {
            let c = Call { rm: v_rm, v: v, out: __r };
            lemma_fifo_step(self.h@, c);
            if v_rm.is_some() { assert(v_rm.unwrap() == adds(self.h@).push(v)[nrm(self.h@) as int]); }
            assert(adds(self.h@.push(c)) =~= adds(self.h@).push(v));
            assert(trend_spec(vals(win(self.h@).push(v)), self.min_periods as int, __r, 2));       // #C04,C05 output_is_window_statistic
            assert(rv(sum_xt) == wsum(vals(win(self.h@.push(c)))) && rv(sum) == ps(vals(win(self.h@.push(c))), 1) && n as int == cnt(vals(win(self.h@.push(c)))));   // #C04 weighted_state_after_call
            lemma_outs_step(self.h@, c, |w: Seq<T>, o: U| trend_spec(vals(w), self.min_periods as int, o, 2));
        }
//@at body first
    let ghost mp0 = min_periods;
    let ghost out0 = out;
    proof { ax_lits(); }
//@at body last
    proof {
        let h = __clo1.h@;
        let s = outs(h);
        if window >= 1 {
            let p = |i: int, o: U| trend_spec(vals(wnd(this.view(), window, i)), mp_eff(mp0, window, 0), o, 2);
            assert forall|i: int| 0 <= i < s.len() implies p(i, #[trigger] s[i]) by {
                lemma_fifo_window_is_wnd(h, this.view(), window, i);
                assert(trend_spec(vals(fifo_window(h, i)), __clo1.min_periods as int, h[i].out, 2));
            }
            lemma_delivered_each(__ret, match out0 { Some(o) => Some(final(o).written()), None => None }, s, p);
        }
    }
//@end

//@fn name=ts_vreg_intercept_to crate=tea-rolling ctx="pub trait RollingValidReg" props=C04,C05,C06,C08 arith=C05
//@types T::Inner=${TI}
//@sig fn ts_vreg_intercept_to<V: RollingDrivers<T>, O: Vec1<U>>(this: &V, window: usize, min_periods: Option<usize>, out: Option<&mut O::Buf>) -> (r: Option<O>)
//@replace -slope => fneg(slope)
//@spec
    requires
        canon_seq(this.view()),
        out matches Some(o) ==> buf_fresh(o, this.view().len()),
        (window == 0 && out.is_none() && this.view().len() > 0) ==> panic_allowed(),
        this.view().len() <= 0x7fff_ffff,      // A-LEN
    ensures
        window >= 1 ==> delivered_each(r, match out { Some(o) => Some(final(o).written()), None => None }, this.view().len(),       // #C05 one_output_per_input
            |i: int, o: U| trend_spec(vals(wnd(this.view(), window, i)), mp_eff(min_periods, window, 0), o, 3)),                              // #C04,C05,C06 value_and_mask
//@closure 1 name=CloVregIntercept trait="RollingFn<T, U>" params="v_rm: Option<T>, v: T" ret="(res: U)" push="Call { rm: v_rm, v: v, out: __r }" caps="mut sum: f64, mut sum_xt: f64, mut n: usize, min_periods: usize"
//@closure 1 extra
    open spec fn hist(&self) -> Seq<Call<T, U>> { self.h@ }
    open spec fn elem_ok(v: T) -> bool { canon(v) }
    open spec fn cap_len() -> nat { 0x7fff_ffff }
//@closure 1 inv
        &&& hist_wf(self.h@) && canon_seq(adds(self.h@))
        &&& self.n as int == cnt(vals(win(self.h@)))
        &&& rv(self.sum) == ps(vals(win(self.h@)), 1) && !nan(self.sum)                 // #C04 state_describes_window
        &&& rv(self.sum_xt) == wsum(vals(win(self.h@))) && !nan(self.sum_xt)            // #C04 weighted_state_describes_window
        &&& outs_ok(self.h@, |w: Seq<T>, o: U| trend_spec(vals(w), self.min_periods as int, o, 3))
//@at closure 1 first
        let ghost w0 = vals(win(self.h@));
        let ghost wp = w0.push(val(v));
        proof {
            broadcast use a_real, a_real_cmp;
            ax_lits();
            lemma_step_vals(self.h@, v_rm, v);
            lemma_small_products(self.n as int); lemma_small_products(self.n as int + 1);
            if cnt(w0) >= 2 { lemma_trend_shapes(cnt(w0), wsum(w0), ps(w0, 1)); }
            if cnt(wp) >= 2 { lemma_trend_shapes(cnt(wp), wsum(wp), ps(wp, 1)); }
            reveal_with_fuel(rpow, 3);
            lemma_wsum_push(w0, val(v));
            if v_rm.is_some() { lemma_wsum_drop_first(wp); }
            assert forall|a: usize| (#[trigger] (a >> 1usize)) == a / 2 by { assert((a >> 1usize) == a / 2) by(bit_vector); }
        }
//@at closure 1 last
        proof {
            let c = Call { rm: v_rm, v: v, out: __r };
            lemma_fifo_step(self.h@, c);
            if v_rm.is_some() { assert(v_rm.unwrap() == adds(self.h@).push(v)[nrm(self.h@) as int]); }
            assert(adds(self.h@.push(c)) =~= adds(self.h@).push(v));
            assert(trend_spec(vals(win(self.h@).push(v)), self.min_periods as int, __r, 3));       // #C04,C05 output_is_window_statistic
            assert(rv(sum_xt) == wsum(vals(win(self.h@.push(c)))) && rv(sum) == ps(vals(win(self.h@.push(c))), 1) && n as int == cnt(vals(win(self.h@.push(c)))));   // #C04 weighted_state_after_call
            lemma_outs_step(self.h@, c, |w: Seq<T>, o: U| trend_spec(vals(w), self.min_periods as int, o, 3));
        }
//@at body first
    let ghost mp0 = min_periods;
    let ghost out0 = out;
    proof { ax_lits(); }
//@at body last
    proof {
        let h = __clo1.h@;
        let s = outs(h);
        if window >= 1 {
            let p = |i: int, o: U| trend_spec(vals(wnd(this.view(), window, i)), mp_eff(mp0, window, 0), o, 3);
            assert forall|i: int| 0 <= i < s.len() implies p(i, #[trigger] s[i]) by {
                lemma_fifo_window_is_wnd(h, this.view(), window, i);
                assert(trend_spec(vals(fifo_window(h, i)), __clo1.min_periods as int, h[i].out, 3));
            }
            lemma_delivered_each(__ret, match out0 { Some(o) => Some(final(o).written()), None => None }, s, p);
        }
    }
//@end

} // verus!
fn main() {}
