use vstd::prelude::*;
use vstd::std_specs::ops::*;
use vstd::std_specs::cmp::*;
verus! {
//@include prelude.rs
//@include assume_real.rs
//@include assume_std.rs
//@include iter.rs

// the lagged autocorrelation is an ORACLE here: `vcorr_pearson(vshift(lag))` may return any f64, so the result
// holds for every autocorrelation function (values are C11/C13's business)
pub uninterp spec fn acorr<T>(x: Seq<T>, lag: int, mp: usize) -> f64;
impl<T> It<T> {
    #[verifier::external_body]
    pub fn vshift(self, n: i32, value: Option<T>) -> (r: It<T>)
        ensures r.seq().len() == self.seq().len(), shifted_by(r.seq(), self.seq()) == n as int,
    { unimplemented!() }
    #[verifier::external_body]
    pub fn vcorr_pearson(self, other: It<T>, min_periods: usize) -> (r: f64)
        ensures
            r == acorr(self.seq(), shifted_by(other.seq(), self.seq()), min_periods),
            // ASSUMED from C13 (a lag >= len leaves only nulls) + C11 (no valid pair => null): the only fact used about the oracle
            shifted_by(other.seq(), self.seq()) >= self.seq().len() ==> nan(r),
    { unimplemented!() }
}
pub uninterp spec fn shifted_by<T>(r: Seq<T>, x: Seq<T>) -> int;

proof fn lemma_pow2_mono(a: nat, b: nat)
    requires a <= b,
    ensures ipow(2, a) <= ipow(2, b), ipow(2, a) >= 1,
    decreases b
{
    if a == 0 && b == 0 {
    } else if a < b {
        lemma_pow2_mono(a, (b - 1) as nat);
    } else {
        lemma_pow2_mono((a - 1) as nat, (b - 1) as nat);
    }
}
proof fn lemma_pow2_62() ensures ipow(2, 62) == 0x4000_0000_0000_0000int
{
    reveal_with_fuel(ipow, 64);
}

//@fn name=half_life crate=tevec ctx="pub trait AggValidFinal" props=C20 arith=C20
//@sig fn half_life<V: TIter<T>, T>(this: &V, min_periods: Option<usize>) -> (res: usize)
//@spec
    requires
        this.view().len() <= 0x4000_0000,      // A-LEN: lags are passed to vshift as i32
    ensures
        this.view().len() < 2 ==> res == 0,                                  // #C20 short_series_zero
        this.view().len() >= 2 ==> 1 <= res <= this.view().len() - 1,        // #C20 lag_in_range
//@loop 1
    invariant_except_break
        len == this.view().len(), 1 <= len <= 0x4000_0000,
        i <= 32,
        (i == 0 && n == 0) || (i >= 1 && n == ipow(2, (i - 1) as nat) && n < len),
        last_n == n,
    ensures
        len == this.view().len(), 1 <= len <= 0x4000_0000,
        last_n <= n, n >= 1, last_n < len,
    decreases 64 - i
//@at loop 1 first
    proof {
        broadcast use a_real_cmp;
        reveal_with_fuel(ipow, 33);
        assert(ipow(2, 31) == 0x8000_0000);
        if i >= 32 { lemma_pow2_mono(31, (i - 1) as nat); }
        assert(ipow(2, 30) == 0x4000_0000);
        if i >= 31 { lemma_pow2_mono(30, (i - 1) as nat); }
        if i >= 1 { lemma_pow2_mono((i - 1) as nat, 30); }
        lemma_pow2_mono(0, i as nat);
        lemma_pow2_mono(i as nat, 31);
    }
//@loop 2
    invariant
        len == this.view().len(), 1 <= len <= 0x4000_0000,
        last_n <= n <= len - 1,
        len >= 2 ==> n >= 1,
    decreases n - last_n
//@at loop 2 first
    proof { broadcast use a_real_cmp; }
//@end

} // verus!
fn main() {}
