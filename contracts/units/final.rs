use vstd::prelude::*;
use vstd::std_specs::ops::*;
use vstd::std_specs::cmp::*;
verus! {
//@include prelude.rs
//@include assume_real.rs
//@include assume_std.rs
//@include iter.rs

// the lagged autocorrelation is an ORACLE here: `vcorr_pearson(vshift(lag))` may return any f64, so the result
// holds for every autocorrelation function (values are C11/C13's business)
pub uninterp spec fn acorr<T>(x: Seq<T>, lag: int, mp: usize) -> f64;
impl<T> It<T> {
    #[verifier::external_body]
    pub fn vshift(self, n: i32, value: Option<T>) -> (r: It<T>)
        ensures r.seq().len() == self.seq().len(), shifted_by(r.seq(), self.seq()) == n as int,
    { unimplemented!() }
    #[verifier::external_body]
    pub fn vcorr_pearson(self, other: It<T>, min_periods: usize) -> (r: f64)
        ensures
            r == acorr(self.seq(), shifted_by(other.seq(), self.seq()), min_periods),
    { unimplemented!() }
}
pub uninterp spec fn shifted_by<T>(r: Seq<T>, x: Seq<T>) -> int;
// ASSUMED from C13 (a lag >= len leaves only nulls) + C11 (no valid pair => null): the only fact used about the oracle
pub broadcast axiom fn ax_acorr_beyond<T>(x: Seq<T>, lag: int, mp: usize)
    requires lag >= x.len(),
    ensures nan(#[trigger] acorr(x, lag, mp));
// "the lagged autocorrelation is above 0.5" as the code tests it (an undefined correlation is not above)
pub open spec fn above<T>(x: Seq<T>, lag: int, mp: usize) -> bool { !nan(acorr(x, lag, mp)) && rv(acorr(x, lag, mp)) * 2real > 1real }
// the autocorrelation stays above 0.5 exactly up to lag L
pub open spec fn above_up_to<T>(x: Seq<T>, mp: usize, l: int) -> bool {
    l >= 0 && forall|lag: int| 1 <= lag ==> (#[trigger] above(x, lag, mp) <==> lag <= l)
}
pub open spec fn mp_hl(mp: Option<usize>, len: nat) -> usize { match mp { Some(m) => m, None => (len / 2) as usize } }
pub axiom fn ax_lits() ensures rv(0.5f64) * 2real == 1real, !nan(0.5f64);

proof fn lemma_pow2_mono(a: nat, b: nat)
    requires a <= b,
    ensures ipow(2, a) <= ipow(2, b), ipow(2, a) >= 1,
    decreases b
{
    if a == 0 && b == 0 {
    } else if a < b {
        lemma_pow2_mono(a, (b - 1) as nat);
    } else {
        lemma_pow2_mono((a - 1) as nat, (b - 1) as nat);
    }
}
proof fn lemma_pow2_62() ensures ipow(2, 62) == 0x4000_0000_0000_0000int
{
    reveal_with_fuel(ipow, 64);
}

//@fn name=half_life crate=tevec ctx="pub trait AggValidFinal" props=C20 arith=C20
//@sig fn half_life<V: TIter<T>, T>(this: &V, min_periods: Option<usize>, Ghost(__gl): Ghost<int>) -> (res: usize)
//@spec
    requires
        this.view().len() <= 0x4000_0000,      // A-LEN: lags are passed to vshift as i32
    ensures
        this.view().len() < 2 ==> res == 0,                                  // #C20 short_series_zero
        this.view().len() >= 2 ==> 1 <= res <= this.view().len() - 1,        // #C20 lag_in_range
        // for a series whose autocorrelation stays above 0.5 exactly up to lag L: the first lag at which it is not, capped at len-1
        (this.view().len() >= 2 && above_up_to(this.view(), mp_hl(min_periods, this.view().len()), __gl))
            ==> res as int == (if __gl + 1 <= this.view().len() - 1 { __gl + 1 } else { this.view().len() - 1 }),      // #C20 first_lag_not_above_half
//@at body first
    let ghost mono = above_up_to(this.view(), mp_hl(min_periods, this.view().len()), __gl);
    let ghost x = this.view();
    let ghost mpe = mp_hl(min_periods, this.view().len());
    proof { ax_lits(); broadcast use a_real_cmp, ax_acorr_beyond; if mono { assert(!above(x, x.len() as int, mpe)); } }
//@loop 1
    invariant_except_break
        len == this.view().len(), 1 <= len <= 0x4000_0000, x == this.view(), min_periods == mpe,
        i <= 32,
        (i == 0 && n == 0) || (i >= 1 && n == ipow(2, (i - 1) as nat) && n < len && above(x, n as int, mpe)),
        last_n == n,
    ensures
        len == this.view().len(), 1 <= len <= 0x4000_0000, x == this.view(), min_periods == mpe,
        last_n <= n, n >= 1, last_n < len,
        last_n == 0 || above(x, last_n as int, mpe),
        !above(x, n as int, mpe),
    decreases 64 - i
//@at loop 1 first
    proof {
        broadcast use a_real_cmp, ax_acorr_beyond;
        ax_lits();
        reveal_with_fuel(ipow, 33);
        assert(ipow(2, 31) == 0x8000_0000);
        if i >= 32 { lemma_pow2_mono(31, (i - 1) as nat); }
        assert(ipow(2, 30) == 0x4000_0000);
        if i >= 31 { lemma_pow2_mono(30, (i - 1) as nat); }
        if i >= 1 { lemma_pow2_mono((i - 1) as nat, 30); }
        lemma_pow2_mono(0, i as nat);
        lemma_pow2_mono(i as nat, 31);
    }
//@loop 2
    invariant
        len == this.view().len(), 1 <= len <= 0x4000_0000, x == this.view(), min_periods == mpe,
        last_n <= n <= len - 1,
        len >= 2 ==> n >= 1,
        last_n == 0 || above(x, last_n as int, mpe),
        !above(x, n as int, mpe) || n == len - 1,
    decreases n - last_n
//@at loop 2 first
    proof { broadcast use a_real_cmp, ax_acorr_beyond; ax_lits(); }
//@end

} // verus!
fn main() {}
