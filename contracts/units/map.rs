use vstd::prelude::*;
use vstd::std_specs::ops::*;
use vstd::std_specs::cmp::*;
verus! {
//@include prelude.rs
//@include assume_real.rs
//@include assume_std.rs
//@include dtype.rs
//@include iter.rs
//@include mapmodel.rs

pub type T = ${T};

pub axiom fn ax_lits()
    ensures rv(0.0f64) == 0real, !nan(0.0f64), rv(1.0f64) == 1real, !nan(1.0f64);

// ---- positional definitions (from the property statement C13)
// shifting by n moves every element n places (towards the end for n > 0) and fills the vacated places
pub open spec fn vacated(len: int, n: int, i: int) -> bool {
    if n > 0 { i < n } else if n < 0 { i >= len + n } else { false }
}
pub open spec fn shift_ok<A>(out: Seq<A>, x: Seq<A>, n: int, fill: spec_fn(A) -> bool) -> bool {
    &&& out.len() == x.len()                                                                   // as many elements as the input
    &&& forall|i: int| 0 <= i < x.len() && vacated(x.len() as int, n, i) ==> fill(#[trigger] out[i])
    &&& forall|i: int| 0 <= i < x.len() && !vacated(x.len() as int, n, i) ==> #[trigger] out[i] == x[i - n]
}
pub open spec fn honest_out<A>(r: &It<A>) -> bool { r.trusted() && r.announced() == Some(r.seq().len()) && r.forever().is_none() }

//@fn name=shift crate=tea-map ctx="pub trait MapBasic" props=C13,C09 arith=C09
//@sig fn shift<A>(this: It<A>, n: i32, value: A) -> (r: Box<It<A>>)
//@replace TrustIter::new => trust_iter_new
//@replace std::iter::repeat_n => repeat_n
//@spec
    requires
        honest_out(&this),
    ensures
        shift_ok(r.seq(), this.seq(), n as int, |v: A| v == value),      // #C13 shift_positional
        honest_out(&*r),                                                  // #C09 shift_preserves_length
//@end

//@fn name=vshift crate=tea-map ctx="pub trait MapValidBasic" props=C13,C09,C06 arith=C09
//@sig fn vshift(this: It<T>, n: i32, value: Option<T>) -> (r: Box<It<T>>)
//@replace std::iter::repeat_n => repeat_n
//@closure 1 mode=annotate params="" ret="(z: T)"
//@closure 1 spec
    ensures z.opt().is_none()
//@spec
    requires
        honest_out(&this),
    ensures
        shift_ok(r.seq(), this.seq(), n as int, |v: T| match value { Some(f) => v == f, None => v.opt().is_none() }),   // #C13 vshift_positional
        honest_out(&*r),                                                                                                    // #C09 vshift_preserves_length
//@end

// ---- difference / percentage change at lag n (C13): x[i]-x[i-n] resp. x[i]/x[i-n]-1 where both operands exist
pub open spec fn diff_ok(out: Seq<f64>, x: Seq<f64>, n: int, fill: spec_fn(f64) -> bool) -> bool {
    &&& out.len() == x.len()
    &&& forall|i: int| 0 <= i < x.len() && vacated(x.len() as int, n, i) ==> fill(#[trigger] out[i])
    &&& forall|i: int| 0 <= i < x.len() && !vacated(x.len() as int, n, i) && n != 0 ==> {
        &&& (!nan(x[i]) && !nan(x[i - n])) ==> !nan(#[trigger] out[i]) && rv(out[i]) == rv(x[i]) - rv(x[i - n])
        &&& (nan(x[i]) || nan(x[i - n])) ==> nan(out[i])
    }
    // lag 0 is the same formula (x[i] - x[i]): zero for a valid element, null for a null one
    &&& n == 0 ==> forall|i: int| 0 <= i < x.len() ==> (nan(x[i]) ==> nan(#[trigger] out[i])) && (!nan(x[i]) ==> !nan(out[i]) && rv(out[i]) == 0real)
}

//@fn name=vdiff crate=tea-map ctx="pub trait MapValidVec" props=C13,C09,C06 arith=C09
//@sig fn vdiff<V: TIter<f64>>(this: &V, n: i32, value: Option<f64>) -> (r: Box<It<f64>>)
//@types T=f64
//@replace std::iter::repeat_n => repeat_n
//@closure 1 mode=annotate params="" ret="(z: f64)"
//@closure 1 spec
    ensures nan(z)
//@closure 2 mode=annotate params="__p: (f64, f64)" ret="(d: f64)"
//@closure 2 spec
    ensures rv(d) == rv(__p.1) - rv(__p.0), nan(d) == (nan(__p.0) || nan(__p.1))
//@closure 3 mode=annotate params="__p: (f64, f64)" ret="(d: f64)"
//@closure 3 spec
    ensures rv(d) == rv(__p.1) - rv(__p.0), nan(d) == (nan(__p.0) || nan(__p.1))
//@closure 4 mode=annotate params="v: f64" ret="(d: f64)"
//@closure 4 spec
    ensures rv(d) == 0real, nan(d) == nan(v)
//@at body first
    broadcast use a_real;
//@spec
    ensures
        diff_ok(r.seq(), this.view(), n as int, |v: f64| match value { Some(f) => v == f, None => nan(v) }),   // #C13 vdiff_positional
        honest_out(&*r),                                                                                         // #C09 vdiff_preserves_length
//@end

pub open spec fn pct_ok(out: Seq<f64>, x: Seq<f64>, n: int) -> bool {
    &&& out.len() == x.len()
    &&& forall|i: int| 0 <= i < x.len() && vacated(x.len() as int, n, i) ==> nan(#[trigger] out[i])
    &&& forall|i: int| 0 <= i < x.len() && !vacated(x.len() as int, n, i) ==> {
        let ok = !nan(x[i]) && !nan(x[i - n]) && rv(x[i - n]) != 0real;
        &&& ok ==> !nan(#[trigger] out[i]) && rv(out[i]) == rv(x[i]) / rv(x[i - n]) - 1real
        &&& !ok ==> nan(out[i])          // null operand or zero base
    }
}
pub proof fn lemma_div_self(x: real) by(nonlinear_arith)
    requires x != 0real,
    ensures x / x == 1real,
{
}
pub open spec fn pct_pair(a: f64, b: f64, r: f64) -> bool {
    let ok = !nan(a) && !nan(b) && rv(a) != 0real;
    (ok ==> !nan(r) && rv(r) == rv(b) / rv(a) - 1real) && (!ok ==> nan(r))
}

//@fn name=vpct_change crate=tea-map ctx="pub trait MapValidVec" props=C13,C09,C06 arith=C09
//@sig fn vpct_change<V: TIter<f64>>(this: &V, n: i32) -> (r: Box<It<f64>>)
//@types T=f64
//@replace std::iter::repeat_n => repeat_n
//@closure 1 mode=annotate params="v: f64" ret="(c: f64)"
//@closure 1 spec
    ensures c == v
//@closure 2 mode=annotate params="__p: (f64, f64)" ret="(d: f64)"
//@closure 2 spec
    ensures pct_pair(__p.0, __p.1, d)
//@at closure 2 first
    proof { ax_lits(); } broadcast use a_real, a_real_cmp;
//@closure 3 mode=annotate params="__p: (f64, f64)" ret="(d: f64)"
//@closure 3 spec
    ensures pct_pair(__p.0, __p.1, d)
//@at closure 3 first
    proof { ax_lits(); } broadcast use a_real, a_real_cmp;
//@closure 4 mode=annotate params="v: f64" ret="(d: f64)"
//@closure 4 spec
    ensures pct_pair(v, v, d)
//@at closure 4 first
    proof { ax_lits(); if rv(v) != 0real { lemma_div_self(rv(v)); } } broadcast use a_real, a_real_cmp;
//@at body first
    broadcast use a_real;
//@spec
    ensures
        pct_ok(r.seq(), this.view(), n as int),        // #C13 vpct_change_positional
        honest_out(&*r),                               // #C09 vpct_change_preserves_length
//@end

// ---- fill / clip / abs act on each element alone (C13)
pub open spec fn elementwise<A>(out: Seq<A>, x: Seq<A>, p: spec_fn(A, A) -> bool) -> bool {
    &&& out.len() == x.len()                                                                   // as many elements as the input
    &&& forall|i: int| 0 <= i < x.len() ==> p(x[i], #[trigger] out[i])
}

//@fn name=fill_mask crate=tea-map ctx="pub trait MapValidBasic" props=C13,C09
//@sig fn fill_mask<F: Fn(&T) -> bool>(this: It<T>, mask_func: F, value: T) -> (r: It<T>)
//@replace value.clone() => value
//@closure 1 mode=annotate params="v: T" ret="(o: T)"
//@closure 1 spec
            requires mask_func.requires((&v,))
            ensures (mask_func.ensures((&v,), true) && o == value) || (mask_func.ensures((&v,), false) && o == v)
//@spec
    requires
        honest_out(&this), forall|v: &T| #[trigger] mask_func.requires((v,)),
    ensures
        elementwise(r.seq(), this.seq(), |a: T, o: T| (mask_func.ensures((&a,), true) && o == value) || (mask_func.ensures((&a,), false) && o == a)),   // #C13 fill_touches_only_masked_elements
        honest_out(&r),                                                   // #C09 fill_preserves_length
//@end

// IsNone::is_none as the mask (R12: `T::is_none` -> `is_none_fn`): fill touches only nulls
pub fn is_none_fn(v: &T) -> (r: bool) ensures r == v.opt().is_none() { v.is_none() }

//@fn name=fill crate=tea-map ctx="pub trait MapValidBasic" props=C13,C09
//@sig fn fill(this: It<T>, value: T) -> (r: It<T>)
//@replace this.fill_mask(T::is_none, value) => fill_mask(this, is_none_fn, value)
//@spec
    requires honest_out(&this),
    ensures
        elementwise(r.seq(), this.seq(), |a: T, o: T| if a.opt().is_none() { o == value } else { o == a }),     // #C13 fill_touches_only_nulls
        honest_out(&r),                                                   // #C09 fill_preserves_length
//@end

// ---- abs: each element alone, nulls stay null (the scalar clause - |x| of the inner value, null -> null - is C15's, decided by Kani
// on every listed type; here it is the interface `vabs_spec` of the element type)
pub trait VAbs: IsNone {
    spec fn vabs_spec(self) -> Self;
    fn vabs(self) -> (r: Self)
        ensures r == self.vabs_spec(), r.opt().is_none() == self.opt().is_none();
}
impl VAbs for T {
    uninterp spec fn vabs_spec(self) -> T;
    #[verifier::external_body]
    fn vabs(self) -> (r: T) { unimplemented!() }
}

//@fn name=vabs crate=tea-map ctx="pub trait MapValidBasic" props=C13,C09
//@sig fn vabs(this: It<T>) -> (r: It<T>)
//@closure 1 mode=annotate params="v: T" ret="(o: T)"
//@closure 1 spec
            ensures o == v.vabs_spec(), o.opt().is_none() == v.opt().is_none()
//@spec
    requires honest_out(&this),
    ensures
        elementwise(r.seq(), this.seq(), |a: T, o: T| o == a.vabs_spec() && o.opt().is_none() == a.opt().is_none()),      // #C13 abs_acts_on_each_element_alone
        honest_out(&r),                                                                                                   // #C09 abs_preserves_length
//@end

// clip: nulls stay null; a non-null value below the (non-null) lower bound becomes the lower bound, above the upper bound the upper bound
pub open spec fn clip_elem(a: T, lower: T, upper: T, o: T) -> bool {
    if a.opt().is_none() { o == a }
    else if lower.opt().is_some() && a.opt().unwrap().rval() < lower.opt().unwrap().rval() { o == lower }
    else if upper.opt().is_some() && a.opt().unwrap().rval() > upper.opt().unwrap().rval() { o == upper }
    else { o == a }
}

//@fn name=vclip crate=tea-map ctx="pub trait MapValidBasic" props=C13,C09
//@sig fn vclip(this: It<T>, lower: T, upper: T) -> (r: Box<It<T>>)
//@replace lower.clone() => lower
//@replace upper.clone() => upper
//@replace v.clone() => v
//@closure 1 mode=annotate params="v: T" ret="(o: T)"
//@closure 1 spec
                    requires canon(v)
                    ensures clip_elem(v, lower, upper, o)
//@closure 2 mode=annotate params="v: T" ret="(o: T)"
//@closure 2 spec
                    requires canon(v)
                    ensures clip_elem(v, lower, upper, o)
//@closure 3 mode=annotate params="v: T" ret="(o: T)"
//@closure 3 spec
                    requires canon(v)
                    ensures clip_elem(v, lower, upper, o)
//@at closure 1 first
                    broadcast use a_real_cmp;
//@at closure 2 first
                    broadcast use a_real_cmp;
//@at closure 3 first
                    broadcast use a_real_cmp;
//@spec
    requires honest_out(&this), canon_seq(this.seq()), canon(lower), canon(upper),
    ensures
        elementwise(r.seq(), this.seq(), |a: T, o: T| clip_elem(a, lower, upper, o)),      // #C13 clip_acts_on_each_element_alone
        honest_out(&*r),                                                                    // #C09 clip_preserves_length
//@end

// with lower <= upper every non-null result lies inside the bounds, and clipping again changes nothing
pub proof fn lemma_clip_idempotent(a: T, lower: T, upper: T, o: T, o2: T)       // #C13
    requires
        canon(a), canon(lower), canon(upper), clip_elem(a, lower, upper, o), clip_elem(o, lower, upper, o2),
        (lower.opt().is_some() && upper.opt().is_some()) ==> lower.opt().unwrap().rval() <= upper.opt().unwrap().rval(),
    ensures
        o2 == o,
        a.opt().is_none() == o.opt().is_none(),
        (o.opt().is_some() && lower.opt().is_some()) ==> o.opt().unwrap().rval() >= lower.opt().unwrap().rval(),
        (o.opt().is_some() && upper.opt().is_some()) ==> o.opt().unwrap().rval() <= upper.opt().unwrap().rval(),
{
}

// ---- forward fill (C13): each null is replaced by the nearest earlier non-null element, else the supplied default, else stays null
pub open spec fn args<A, B>(h: Seq<(A, B)>) -> Seq<A> { Seq::new(h.len(), |i: int| h[i].0) }
// the last non-null element among x[0..i)
pub open spec fn lastv(x: Seq<T>, i: int) -> Option<T>
    decreases i
{
    if i <= 0 { None } else if x[i - 1].opt().is_some() { Some(x[i - 1]) } else { lastv(x, i - 1) }
}
pub open spec fn ffill_elem(x: Seq<T>, value: Option<T>, i: int, o: T) -> bool {
    if x[i].opt().is_some() { o == x[i] }
    else { match lastv(x, i) { Some(l) => o == l, None => match value { Some(f) => o == f, None => o.opt().is_none() } } }
}
pub open spec fn ffill_ok(out: Seq<T>, x: Seq<T>, value: Option<T>) -> bool {
    &&& out.len() == x.len()
    &&& forall|i: int| 0 <= i < x.len() ==> ffill_elem(x, value, i, #[trigger] out[i])
}
// the mask handed to ffill_mask / bfill_mask is the null test (what ffill / bfill pass)
pub open spec fn mask_is_null_test<F: Fn(&T) -> bool>(m: F) -> bool {
    &&& forall|v: &T| #[trigger] m.requires((v,))
    &&& forall|v: &T, b: bool| #[trigger] m.ensures((v,), b) ==> b == v.opt().is_none()
}
pub proof fn lemma_lastv_push(x: Seq<T>, v: T, i: int)
    requires 0 <= i <= x.len(),
    ensures lastv(x.push(v), i) == lastv(x, i),
    decreases i
{
    if i > 0 { lemma_lastv_push(x, v, i - 1); assert(x.push(v)[i - 1] == x[i - 1]); }
}

//@fn name=ffill_mask crate=tea-map ctx="pub trait MapValidBasic" props=C13,C09
//@sig fn ffill_mask<F: Fn(&T) -> bool>(this: It<T>, mask_func: F, value: Option<T>) -> (r: It<T>)
//@replace this.map(f) => this.map_mut(f)
//@replace lv.clone() => *lv
//@replace value.clone() => *value
//@replace v.clone() => v
//@closure 1 name=CloFfill trait="MapFn<T, T>" params="v: T" ret="(o: T)" push="(v, __r)" caps="ref mask_func: F, value: Option<T>, mut last_valid: Option<T>" callty="(T, T)" generics="<F: Fn(&T) -> bool>" generics_use="<F>"
//@closure 1 extra
    open spec fn hist(&self) -> Seq<(T, T)> { self.h@ }
    open spec fn arg_ok(v: T) -> bool { true }
//@closure 1 inv
        &&& mask_is_null_test(self.mask_func)
        &&& self.last_valid == lastv(args(self.h@), self.h@.len() as int)                                  // #C13 state_is_the_last_non_null_element
        &&& forall|j: int| 0 <= j < self.h@.len() ==> ffill_elem(args(self.h@), self.value, j, (#[trigger] self.h@[j]).1)    // #C13 outputs_so_far_are_forward_filled
//@at closure 1 first
        let ghost h0 = self.h@;
//@at closure 1 last
        proof {
            let h1 = h0.push((v, __r));
            assert(args(h1) =~= args(h0).push(v));
            lemma_lastv_push(args(h0), v, h0.len() as int);
            assert forall|j: int| 0 <= j < h1.len() implies ffill_elem(args(h1), self.value, j, (#[trigger] h1[j]).1) by {
                if j < h0.len() {
                    lemma_lastv_push(args(h0), v, j);
                    assert(args(h1)[j] == args(h0)[j]);
                    assert(h1[j] == h0[j]);
                }
            }
        }
//@spec
    requires honest_out(&this), mask_is_null_test(mask_func),
    ensures
        ffill_ok(r.seq(), this.seq(), value),          // #C13 forward_fill_positional
        honest_out(&r),                                // #C09 ffill_preserves_length
//@at body last
    proof {
        let h = __clo1.h@;
        assert(args(h) =~= this.seq());
        assert forall|i: int| 0 <= i < this.seq().len() implies ffill_elem(this.seq(), value, i, #[trigger] __ret.seq()[i]) by {
            assert(ffill_elem(args(h), value, i, h[i].1));
        }
    }
//@end

//@fn name=ffill crate=tea-map ctx="pub trait MapValidBasic" props=C13,C09
//@sig fn ffill(this: It<T>, value: Option<T>) -> (r: It<T>)
//@replace this.ffill_mask(T::is_none, value) => ffill_mask(this, is_none_fn, value)
//@spec
    requires honest_out(&this),
    ensures
        ffill_ok(r.seq(), this.seq(), value),          // #C13 forward_fill_positional
        honest_out(&r),                                // #C09 ffill_preserves_length
//@end

// ---- backward fill: forward fill of the reversed series, reversed
pub open spec fn nextv(x: Seq<T>, j: int) -> Option<T>
    decreases x.len() - j
{
    if j < 0 || j >= x.len() { None } else if x[j].opt().is_some() { Some(x[j]) } else { nextv(x, j + 1) }
}
pub open spec fn bfill_elem(x: Seq<T>, value: Option<T>, i: int, o: T) -> bool {
    if x[i].opt().is_some() { o == x[i] }
    else { match nextv(x, i + 1) { Some(l) => o == l, None => match value { Some(f) => o == f, None => o.opt().is_none() } } }
}
pub open spec fn bfill_ok(out: Seq<T>, x: Seq<T>, value: Option<T>) -> bool {
    &&& out.len() == x.len()
    &&& forall|i: int| 0 <= i < x.len() ==> bfill_elem(x, value, i, #[trigger] out[i])
}
pub proof fn lemma_lastv_reverse(x: Seq<T>, i: int)
    requires 0 <= i <= x.len(),
    ensures lastv(x.reverse(), i) == nextv(x, x.len() - i),
    decreases i
{
    if i > 0 {
        lemma_lastv_reverse(x, i - 1);
        assert(x.reverse()[i - 1] == x[x.len() - i]);
    }
}

//@fn name=bfill_mask crate=tea-map ctx="pub trait MapValidBasic" props=C13,C09
//@sig fn bfill_mask<F: Fn(&T) -> bool>(this: It<T>, mask_func: F, value: Option<T>) -> (r: It<T>)
//@replace .map(f) => .map_mut(f)
//@replace .collect_trusted_to_vec() => .collect_trusted_vec1()
//@replace .into_iter() => .into_it()
//@replace lv.clone() => *lv
//@replace value.clone() => *value
//@replace v.clone() => v
//@closure 1 name=CloBfill trait="MapFn<T, T>" params="v: T" ret="(o: T)" push="(v, __r)" caps="ref mask_func: F, value: Option<T>, mut last_valid: Option<T>" callty="(T, T)" generics="<F: Fn(&T) -> bool>" generics_use="<F>"
//@closure 1 extra
    open spec fn hist(&self) -> Seq<(T, T)> { self.h@ }
    open spec fn arg_ok(v: T) -> bool { true }
//@closure 1 inv
        &&& mask_is_null_test(self.mask_func)
        &&& self.last_valid == lastv(args(self.h@), self.h@.len() as int)                                  // #C13 state_is_the_last_non_null_element
        &&& forall|j: int| 0 <= j < self.h@.len() ==> ffill_elem(args(self.h@), self.value, j, (#[trigger] self.h@[j]).1)    // #C13 outputs_so_far_are_forward_filled
//@at closure 1 first
        let ghost h0 = self.h@;
//@at closure 1 last
        proof {
            let h1 = h0.push((v, __r));
            assert(args(h1) =~= args(h0).push(v));
            lemma_lastv_push(args(h0), v, h0.len() as int);
            assert forall|j: int| 0 <= j < h1.len() implies ffill_elem(args(h1), self.value, j, (#[trigger] h1[j]).1) by {
                if j < h0.len() {
                    lemma_lastv_push(args(h0), v, j);
                    assert(args(h1)[j] == args(h0)[j]);
                    assert(h1[j] == h0[j]);
                }
            }
        }
//@spec
    requires honest_out(&this), mask_is_null_test(mask_func),
    ensures
        bfill_ok(r.seq(), this.seq(), value),          // #C13 backward_fill_positional
        r.seq().len() == this.seq().len() && r.forever().is_none(),       // #C09 bfill_preserves_length
//@at body last
    proof {
        let x = this.seq();
        let xr = x.reverse();
        let h = __clo1.h@;
        assert(args(h) =~= xr);
        let y = Seq::new(h.len(), |i: int| h[i].1);
        assert forall|i: int| 0 <= i < x.len() implies bfill_elem(x, value, i, #[trigger] __ret.seq()[i]) by {
            let k = x.len() - 1 - i;
            assert(ffill_elem(args(h), value, k, h[k].1));
            lemma_lastv_reverse(x, k);
            assert(xr[k] == x[i]);
        }
    }
//@end

//@fn name=bfill crate=tea-map ctx="pub trait MapValidBasic" props=C13,C09
//@sig fn bfill(this: It<T>, value: Option<T>) -> (r: It<T>)
//@replace this.bfill_mask(T::is_none, value) => bfill_mask(this, is_none_fn, value)
//@spec
    requires honest_out(&this),
    ensures
        bfill_ok(r.seq(), this.seq(), value),          // #C13 backward_fill_positional
        r.seq().len() == this.seq().len() && r.forever().is_none(),       // #C09 bfill_preserves_length
//@end

} // verus!
fn main() {}
