use vstd::prelude::*;
use vstd::std_specs::ops::*;
use vstd::std_specs::cmp::*;
verus! {
//@include prelude.rs
//@include assume_real.rs
//@include assume_std.rs
//@include dtype.rs
//@include iter.rs

pub type T = ${T};

pub axiom fn ax_lits()
    ensures rv(0.0f64) == 0real, !nan(0.0f64), rv(1.0f64) == 1real, !nan(1.0f64);

// ---- positional definitions (from the property statement C13)
// shifting by n moves every element n places (towards the end for n > 0) and fills the vacated places
pub open spec fn vacated(len: int, n: int, i: int) -> bool {
    if n > 0 { i < n } else if n < 0 { i >= len + n } else { false }
}
pub open spec fn shift_ok<A>(out: Seq<A>, x: Seq<A>, n: int, fill: spec_fn(A) -> bool) -> bool {
    &&& out.len() == x.len()                                                                   // as many elements as the input
    &&& forall|i: int| 0 <= i < x.len() && vacated(x.len() as int, n, i) ==> fill(#[trigger] out[i])
    &&& forall|i: int| 0 <= i < x.len() && !vacated(x.len() as int, n, i) ==> #[trigger] out[i] == x[i - n]
}
pub open spec fn honest_out<A>(r: &It<A>) -> bool { r.trusted() && r.announced() == Some(r.seq().len()) && r.forever().is_none() }

//@fn name=shift crate=tea-map ctx="pub trait MapBasic" props=C13,C09 arith=C09
//@sig fn shift<A>(this: It<A>, n: i32, value: A) -> (r: Box<It<A>>)
//@replace TrustIter::new => trust_iter_new
//@replace std::iter::repeat_n => repeat_n
//@spec
    requires
        honest_out(&this),
    ensures
        shift_ok(r.seq(), this.seq(), n as int, |v: A| v == value),      // #C13 shift_positional
        honest_out(&*r),                                                  // #C09 shift_preserves_length
//@end

//@fn name=vshift crate=tea-map ctx="pub trait MapValidBasic" props=C13,C09,C06 arith=C09
//@sig fn vshift(this: It<T>, n: i32, value: Option<T>) -> (r: Box<It<T>>)
//@replace std::iter::repeat_n => repeat_n
//@closure 1 mode=annotate params="" ret="(z: T)"
//@closure 1 spec
    ensures z.opt().is_none()
//@spec
    requires
        honest_out(&this),
    ensures
        shift_ok(r.seq(), this.seq(), n as int, |v: T| match value { Some(f) => v == f, None => v.opt().is_none() }),   // #C13 vshift_positional
        honest_out(&*r),                                                                                                    // #C09 vshift_preserves_length
//@end

// ---- difference / percentage change at lag n (C13): x[i]-x[i-n] resp. x[i]/x[i-n]-1 where both operands exist
pub open spec fn diff_ok(out: Seq<f64>, x: Seq<f64>, n: int, fill: spec_fn(f64) -> bool) -> bool {
    &&& out.len() == x.len()
    &&& forall|i: int| 0 <= i < x.len() && vacated(x.len() as int, n, i) ==> fill(#[trigger] out[i])
    &&& forall|i: int| 0 <= i < x.len() && !vacated(x.len() as int, n, i) && n != 0 ==> {
        &&& (!nan(x[i]) && !nan(x[i - n])) ==> !nan(#[trigger] out[i]) && rv(out[i]) == rv(x[i]) - rv(x[i - n])
        &&& (nan(x[i]) || nan(x[i - n])) ==> nan(out[i])
    }
    // lag 0 is the same formula (x[i] - x[i]): zero for a valid element, null for a null one
    &&& n == 0 ==> forall|i: int| 0 <= i < x.len() ==> (nan(x[i]) ==> nan(#[trigger] out[i])) && (!nan(x[i]) ==> !nan(out[i]) && rv(out[i]) == 0real)
}

//@fn name=vdiff crate=tea-map ctx="pub trait MapValidVec" props=C13,C09,C06 arith=C09
//@sig fn vdiff<V: TIter<f64>>(this: &V, n: i32, value: Option<f64>) -> (r: Box<It<f64>>)
//@types T=f64
//@replace std::iter::repeat_n => repeat_n
//@closure 1 mode=annotate params="" ret="(z: f64)"
//@closure 1 spec
    ensures nan(z)
//@closure 2 mode=annotate params="__p: (f64, f64)" ret="(d: f64)"
//@closure 2 spec
    ensures rv(d) == rv(__p.1) - rv(__p.0), nan(d) == (nan(__p.0) || nan(__p.1))
//@closure 3 mode=annotate params="__p: (f64, f64)" ret="(d: f64)"
//@closure 3 spec
    ensures rv(d) == rv(__p.1) - rv(__p.0), nan(d) == (nan(__p.0) || nan(__p.1))
//@closure 4 mode=annotate params="v: f64" ret="(d: f64)"
//@closure 4 spec
    ensures rv(d) == 0real, nan(d) == nan(v)
//@at body first
    broadcast use a_real;
//@spec
    ensures
        diff_ok(r.seq(), this.view(), n as int, |v: f64| match value { Some(f) => v == f, None => nan(v) }),   // #C13 vdiff_positional
        honest_out(&*r),                                                                                         // #C09 vdiff_preserves_length
//@end

pub open spec fn pct_ok(out: Seq<f64>, x: Seq<f64>, n: int) -> bool {
    &&& out.len() == x.len()
    &&& forall|i: int| 0 <= i < x.len() && vacated(x.len() as int, n, i) ==> nan(#[trigger] out[i])
    &&& forall|i: int| 0 <= i < x.len() && !vacated(x.len() as int, n, i) ==> {
        let ok = !nan(x[i]) && !nan(x[i - n]) && rv(x[i - n]) != 0real;
        &&& ok ==> !nan(#[trigger] out[i]) && rv(out[i]) == rv(x[i]) / rv(x[i - n]) - 1real
        &&& !ok ==> nan(out[i])          // null operand or zero base
    }
}
pub proof fn lemma_div_self(x: real) by(nonlinear_arith)
    requires x != 0real,
    ensures x / x == 1real,
{
}
pub open spec fn pct_pair(a: f64, b: f64, r: f64) -> bool {
    let ok = !nan(a) && !nan(b) && rv(a) != 0real;
    (ok ==> !nan(r) && rv(r) == rv(b) / rv(a) - 1real) && (!ok ==> nan(r))
}

//@fn name=vpct_change crate=tea-map ctx="pub trait MapValidVec" props=C13,C09,C06 arith=C09
//@sig fn vpct_change<V: TIter<f64>>(this: &V, n: i32) -> (r: Box<It<f64>>)
//@types T=f64
//@replace std::iter::repeat_n => repeat_n
//@closure 1 mode=annotate params="v: f64" ret="(c: f64)"
//@closure 1 spec
    ensures c == v
//@closure 2 mode=annotate params="__p: (f64, f64)" ret="(d: f64)"
//@closure 2 spec
    ensures pct_pair(__p.0, __p.1, d)
//@at closure 2 first
    proof { ax_lits(); } broadcast use a_real, a_real_cmp;
//@closure 3 mode=annotate params="__p: (f64, f64)" ret="(d: f64)"
//@closure 3 spec
    ensures pct_pair(__p.0, __p.1, d)
//@at closure 3 first
    proof { ax_lits(); } broadcast use a_real, a_real_cmp;
//@closure 4 mode=annotate params="v: f64" ret="(d: f64)"
//@closure 4 spec
    ensures pct_pair(v, v, d)
//@at closure 4 first
    proof { ax_lits(); if rv(v) != 0real { lemma_div_self(rv(v)); } } broadcast use a_real, a_real_cmp;
//@at body first
    broadcast use a_real;
//@spec
    ensures
        pct_ok(r.seq(), this.view(), n as int),        // #C13 vpct_change_positional
        honest_out(&*r),                               // #C09 vpct_change_preserves_length
//@end

} // verus!
fn main() {}
