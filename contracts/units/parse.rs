use vstd::prelude::*;
verus! {
//@include prelude.rs
//@include strmodel.rs

// chrono::Duration as far as the parser needs it (A-CHRONO): range-checked constructors never panic
#[verifier::external_body]
pub struct Duration { _p: u8 }
impl Duration {
    pub uninterp spec fn ns(&self) -> int;
    #[verifier::external_body]
    pub fn try_seconds(secs: i64) -> (r: Option<Duration>)
        ensures r matches Some(d) ==> d.ns() == secs * 1_000_000_000,
    { unimplemented!() }
    #[verifier::external_body]
    pub fn nanoseconds(n: i64) -> (r: Duration)
        ensures r.ns() == n,
    { unimplemented!() }
    #[verifier::external_body]
    pub fn checked_add(&self, o: &Duration) -> (r: Option<Duration>)
        ensures r matches Some(d) ==> d.ns() == self.ns() + o.ns(),
    { unimplemented!() }
    // chrono TimeDelta::new(secs, nanos): None when nanos >= 1e9 or out of range
    #[verifier::external_body]
    pub fn new(secs: i64, nanos: u32) -> (r: Option<Duration>)
        ensures r matches Some(d) ==> nanos < 1_000_000_000 && d.ns() == secs * 1_000_000_000 + nanos,
    { unimplemented!() }
}
pub assume_specification[ i64::rem_euclid ](x: i64, d: i64) -> (r: i64)
    requires d != 0, !(x == i64::MIN && d == -1),
    ensures d > 0 ==> r as int == (x as int) % (d as int);       // Verus' int % is Euclidean
pub assume_specification[ i64::div_euclid ](x: i64, d: i64) -> (r: i64)
    requires d != 0, !(x == i64::MIN && d == -1),
    ensures d > 0 ==> r as int == (x as int) / (d as int);
pub struct TimeDelta { pub months: i32, pub inner: Duration }

//@const crate=tea-time name=NANOS_PER_SEC
//@const crate=tea-time name=NANOS_PER_MICRO
//@const crate=tea-time name=NANOS_PER_MILLI
//@const crate=tea-time name=SECS_PER_MINUTE
//@const crate=tea-time name=SECS_PER_HOUR
//@const crate=tea-time name=SECS_PER_DAY
//@const crate=tea-time name=SECS_PER_WEEK

//@fn name=add_term crate=tea-time ctx="" props=C18 arith=C18
//@sig fn add_term(acc: i64, n: i64, scale: i64) -> (r: TResult<i64>)
//@closure 1 mode=annotate params="v: i64" ret="(o: Option<i64>)"
//@closure 1 spec
    ensures o matches Some(x) ==> x == acc + v
//@spec
    ensures r matches Ok(x) ==> x == acc + n * scale      // #C18 term_added_exactly
//@end

//@fn name=add_months crate=tea-time ctx="" props=C18 arith=C18
//@sig fn add_months(acc: i32, n: i64, scale: i64) -> (r: TResult<i32>)
//@closure 1 mode=annotate params="v: i64" ret="(o: Option<i32>)"
//@closure 1 spec
    ensures o matches Some(x) ==> x == v
//@closure 2 mode=annotate params="v: i32" ret="(o: Option<i32>)"
//@closure 2 spec
    ensures o matches Some(x) ==> x == acc + v
//@spec
    ensures r matches Ok(x) ==> x == acc + n * scale      // #C18 term_added_exactly
//@end

//@fn name=parse crate=tea-time ctx="impl TimeDelta" props=C18 arith=C18
//@sig pub fn parse(duration: &Str) -> (res: TResult<TimeDelta>)
//@replace duration[start..i] => duration.slice(start, i)
//@replace .parse::<i64>() => .parse_i64()
//@replace String::with_capacity => UnitBuf::with_capacity
//@closure 1 mode=annotate key="checked_add" params="d: Duration" ret="(o: Option<Duration>)"
//@closure 1 spec
            ensures o matches Some(x) ==> x.ns() == d.ns() + nsecs
//@at let duration after
    // the fixed part of the result is the accumulated seconds plus the accumulated sub-second terms (the last step of "parses
    // to the sum of its terms"; the accumulation itself is add_term / add_months, proved exact above)
    assert(duration.ns() == secs * 1_000_000_000 + nsecs);            // #C18 fixed_part_is_seconds_plus_sub_second_terms
//@spec
    requires
        duration.wf(),            // the type invariant of &str (valid UTF-8 = well-formed char offsets)
    // totality (C18): no precondition on the TEXT; every panic site (slice bounds / char boundaries, unwrap, arithmetic,
    // Duration constructors) is an obligation discharged below, and both loops terminate
//@at body first
    proof { if duration.chars().len() > 0 { assert(duration.offs()[0] == 0); } }
//@at loop 1 first
            let ghost p0 = iter.pos();
//@loop 1
            invariant
                iter.src() == *duration, duration.wf(), 0 <= iter.pos() <= iter.count(),
                0 <= start <= duration.blen(), duration.boundary(start as int),
                iter.pos() < iter.count() ==> start <= iter.off(iter.pos()),
            decreases iter.count() - iter.pos()
//@loop 2
                    invariant
                        iter.src() == *duration, duration.wf(), 0 <= iter.pos() <= iter.count(),
                        0 <= start <= duration.blen(), duration.boundary(start as int),
                        iter.pos() < iter.count() ==> start <= iter.off(iter.pos()),
                        iter.pos() > p0,
                    decreases iter.count() - iter.pos()
//@end

} // verus!
fn main() {}
