use vstd::prelude::*;
use vstd::std_specs::ops::*;
use vstd::std_specs::cmp::*;
verus! {
//@include prelude.rs
//@include assume_real.rs
//@include dtype.rs
//@include dtype_optcast.rs
//@include lemmas/window.rs

pub type T = f64;   // plain family: T: Number, every element counts
pub type U = ${U};

//@const crate=tea-core name=EPS

// float literals appearing in the extracted bodies (A-REAL)
pub axiom fn ax_lits()
    ensures rv(0.0f64) == 0real, !nan(0.0f64), rv(1.0f64) == 1real, !nan(1.0f64), rv(2.0f64) == 2real, !nan(2.0f64),
        rv(3.0f64) == 3real, !nan(3.0f64), rv(4.0f64) == 4real, !nan(4.0f64), rv(6.0f64) == 6real, !nan(6.0f64),
        rv(1e-14f64) * 100000000000000real == 1real, !nan(1e-14f64), rv(EPS) == rv(1e-14f64), !nan(EPS);

// effective min_periods as the PROPERTY defines it (C05): min(mp or floor(w/2), w) raised to the intrinsic minimum
pub open spec fn mp_eff(mp: Option<usize>, window: usize, intrinsic: int) -> int {
    let m = match mp { Some(m) => m as int, None => (window / 2) as int };
    let m2 = if m <= window { m } else { window as int };
    if m2 >= intrinsic { m2 } else { intrinsic }
}

// ---- statistic specs over the value view of one window (from the property statement)
pub open spec fn isnull(o: U) -> bool { o.opt().is_none() }
pub open spec fn oval(o: U) -> real { o.opt().unwrap().rval() }

// the incrementally maintained state describes the window it claims to describe (C01), up to power K
pub open spec fn sums_ok(w: Seq<Option<real>>, n: usize, s1: f64, s2: f64, s3: f64, s4: f64, k: int) -> bool {
    &&& n as int == cnt(w)
    &&& k >= 1 ==> rv(s1) == ps(w, 1) && !nan(s1)
    &&& k >= 2 ==> rv(s2) == ps(w, 2) && !nan(s2)
    &&& k >= 3 ==> rv(s3) == ps(w, 3) && !nan(s3)
    &&& k >= 4 ==> rv(s4) == ps(w, 4) && !nan(s4)
}
// plain family: every element counts and none is NaN ("finite numeric series")
pub open spec fn all_some(w: Seq<Option<real>>) -> bool { forall|i: int| 0 <= i < w.len() ==> (#[trigger] w[i]).is_some() }

pub open spec fn mean_spec(w: Seq<Option<real>>, mp: int, o: U) -> bool {
    let n = cnt(w);
    &&& n < mp ==> isnull(o)
    &&& (n >= mp && n > 0) ==> !isnull(o) && oval(o) == ps(w, 1) / (n as real)
}
// sample variance with the declared floor: a window whose biased variance is <= EPS reports 0 (rounding guard of the code)
pub open spec fn biased_var(w: Seq<Option<real>>) -> real {
    let n = cnt(w) as real;
    ps(w, 2) / n - (ps(w, 1) / n) * (ps(w, 1) / n)
}
// textbook: sum of squared deviations from the mean
pub open spec fn ssd(w: Seq<Option<real>>) -> real {
    ps(w, 2) - ps(w, 1) * ps(w, 1) / (cnt(w) as real)
}
pub open spec fn var_spec(w: Seq<Option<real>>, mp: int, o: U) -> bool {
    let n = cnt(w);
    &&& n < mp ==> isnull(o)
    &&& (n >= mp && n >= 2) ==> !isnull(o) && (if biased_var(w) > rv(EPS) { oval(o) == ssd(w) / ((n - 1) as real) } else { oval(o) == 0real })
}
pub open spec fn std_spec(w: Seq<Option<real>>, mp: int, o: U) -> bool {
    let n = cnt(w);
    &&& n < mp ==> isnull(o)
    &&& (n >= mp && n >= 2) ==> !isnull(o) && oval(o) >= 0real
            && (if biased_var(w) > rv(EPS) { oval(o) * oval(o) == ssd(w) / ((n - 1) as real) } else { oval(o) == 0real })
}
// (S2/n - (S1/n)^2) * n / (n-1) == (S2 - S1^2/n) / (n-1): the code's form equals the textbook sample variance
pub proof fn lemma_var_forms(s1: real, s2: real, n: real)
    requires n >= 2real,
    ensures (s2 / n - (s1 / n) * (s1 / n)) * n / (n - 1real) == (s2 - s1 * s1 / n) / (n - 1real),
{
    let a = s2 / n;
    let b = s1 / n;
    assert(a * n == s2) by(nonlinear_arith) requires a == s2 / n, n >= 2real;
    assert(b * n == s1) by(nonlinear_arith) requires b == s1 / n, n >= 2real;
    assert((a - b * b) * n == s2 - s1 * s1 / n) by(nonlinear_arith) requires a * n == s2, b * n == s1, n >= 2real;
}

pub proof fn lemma_scaled_pos(a: real, n: real)
    requires a > 0real, n >= 2real,
    ensures a * n / (n - 1real) > 0real,
{
    assert(a * n > 0real) by(nonlinear_arith) requires a > 0real, n >= 2real;
    let b = a * n;
    assert(b / (n - 1real) > 0real) by(nonlinear_arith) requires b > 0real, n >= 2real;
}

pub open spec fn sum_spec(w: Seq<Option<real>>, mp: int, o: U) -> bool {
    if cnt(w) >= mp { !isnull(o) && oval(o) == ps(w, 1) } else { isnull(o) }
}


//@fn name=ts_sum_to crate=tea-rolling ctx="pub trait RollingFeature" props=C01,C05,C06,C08 arith=C05
//@types T::Inner=${TI}
//@sig fn ts_sum_to<V: RollingDrivers<T>, O: Vec1<U>>(this: &V, window: usize, min_periods: Option<usize>, out: Option<&mut O::Buf>) -> (r: Option<O>)
//@spec
    requires
        forall|i: int| 0 <= i < this.view().len() ==> !nan(#[trigger] this.view()[i]),
        out matches Some(o) ==> buf_fresh(o, this.view().len()),
        (window == 0 && out.is_none() && this.view().len() > 0) ==> panic_allowed(),
        this.view().len() <= 0x7fff_ffff,      // A-LEN
    ensures
        window >= 1 ==> delivered_each(r, match out { Some(o) => Some(final(o).written()), None => None }, this.view().len(),       // #C05 one_output_per_input
            |i: int, o: U| sum_spec(vals(wnd(this.view(), window, i)), mp_eff(min_periods, window, 0), o)),                              // #C01,C05,C06 value_and_mask
//@closure 1 name=CloSum trait="RollingFn<T, U>" params="v_rm: Option<T>, v: T" ret="(res: U)" push="Call { rm: v_rm, v: v, out: __r }" caps="mut n: usize, mut sum: f64, min_periods: usize"
//@closure 1 extra
    open spec fn hist(&self) -> Seq<Call<T, U>> { self.h@ }
    open spec fn elem_ok(v: T) -> bool { !nan(v) }
//@closure 1 inv
        &&& hist_wf(self.h@) && canon_seq(adds(self.h@)) && all_some(vals(adds(self.h@)))
        &&& sums_ok(vals(win(self.h@)), self.n, self.sum, self.sum, self.sum, self.sum, 1)         // #C01 state_describes_window
        &&& self.min_periods >= 0
        &&& outs_ok(self.h@, |w: Seq<T>, o: U| sum_spec(vals(w), self.min_periods as int, o))
//@at closure 1 first
        let ghost w0 = vals(win(self.h@));
        let ghost wp = w0.push(val(v));
        proof {
            broadcast use a_real, a_real_cmp;
            ax_lits();
            reveal_with_fuel(rpow, 4);
            lemma_step_vals(self.h@, v_rm, v);
            assert(val(v).is_some());
            if v_rm.is_some() {
                let k = nrm(self.h@) as int;
                if k < self.h@.len() { assert(vals(adds(self.h@))[k].is_some()); assert(adds(self.h@).push(v)[k] == adds(self.h@)[k]); }
                assert(val(v_rm.unwrap()).is_some());
            }
        }
//@at closure 1 last
        proof {
            let c = Call { rm: v_rm, v: v, out: __r };
            lemma_fifo_step(self.h@, c);
            if v_rm.is_some() { assert(v_rm.unwrap() == adds(self.h@).push(v)[nrm(self.h@) as int]); }
            assert(adds(self.h@.push(c)) =~= adds(self.h@).push(v));
            assert(vals(adds(self.h@.push(c))) =~= vals(adds(self.h@)).push(val(v)));
            assert(sum_spec(vals(win(self.h@).push(v)), self.min_periods as int, __r));       // #C01,C05 output_is_window_statistic
            lemma_outs_step(self.h@, c, |w: Seq<T>, o: U| sum_spec(vals(w), self.min_periods as int, o));
            assert(sums_ok(vals(win(self.h@.push(c))), n, sum, sum, sum, sum, 1));              // #C01 state_describes_window
        }
//@at body first
    let ghost mp0 = min_periods;
    let ghost out0 = out;
    proof { ax_lits(); }
//@at body last
    proof {
        let h = __clo1.h@;
        let s = outs(h);
        if window >= 1 {
            let p = |i: int, o: U| sum_spec(vals(wnd(this.view(), window, i)), mp_eff(mp0, window, 0), o);
            assert forall|i: int| 0 <= i < s.len() implies p(i, #[trigger] s[i]) by {
                lemma_fifo_window_is_wnd(h, this.view(), window, i);
                assert(sum_spec(vals(fifo_window(h, i)), __clo1.min_periods as int, h[i].out));
            }
            lemma_delivered_each(__ret, match out0 { Some(o) => Some(final(o).written()), None => None }, s, p);
        }
    }
//@end

//@fn name=ts_mean_to crate=tea-rolling ctx="pub trait RollingFeature" props=C01,C05,C06,C08 arith=C05
//@types T::Inner=${TI}
//@sig fn ts_mean_to<V: RollingDrivers<T>, O: Vec1<U>>(this: &V, window: usize, min_periods: Option<usize>, out: Option<&mut O::Buf>) -> (r: Option<O>)
//@spec
    requires
        forall|i: int| 0 <= i < this.view().len() ==> !nan(#[trigger] this.view()[i]),
        out matches Some(o) ==> buf_fresh(o, this.view().len()),
        (window == 0 && out.is_none() && this.view().len() > 0) ==> panic_allowed(),
        this.view().len() <= 0x7fff_ffff,      // A-LEN
    ensures
        window >= 1 ==> delivered_each(r, match out { Some(o) => Some(final(o).written()), None => None }, this.view().len(),       // #C05 one_output_per_input
            |i: int, o: U| mean_spec(vals(wnd(this.view(), window, i)), mp_eff(min_periods, window, 0), o)),                              // #C01,C05,C06 value_and_mask
//@closure 1 name=CloMean trait="RollingFn<T, U>" params="v_rm: Option<T>, v: T" ret="(res: U)" push="Call { rm: v_rm, v: v, out: __r }" caps="mut n: usize, mut sum: f64, min_periods: usize"
//@closure 1 extra
    open spec fn hist(&self) -> Seq<Call<T, U>> { self.h@ }
    open spec fn elem_ok(v: T) -> bool { !nan(v) }
//@closure 1 inv
        &&& hist_wf(self.h@) && canon_seq(adds(self.h@)) && all_some(vals(adds(self.h@)))
        &&& sums_ok(vals(win(self.h@)), self.n, self.sum, self.sum, self.sum, self.sum, 1)         // #C01 state_describes_window
        &&& self.min_periods >= 0
        &&& outs_ok(self.h@, |w: Seq<T>, o: U| mean_spec(vals(w), self.min_periods as int, o))
//@at closure 1 first
        let ghost w0 = vals(win(self.h@));
        let ghost wp = w0.push(val(v));
        proof {
            broadcast use a_real, a_real_cmp;
            ax_lits();
            reveal_with_fuel(rpow, 4);
            lemma_step_vals(self.h@, v_rm, v);
            assert(val(v).is_some());
            if v_rm.is_some() {
                let k = nrm(self.h@) as int;
                if k < self.h@.len() { assert(vals(adds(self.h@))[k].is_some()); assert(adds(self.h@).push(v)[k] == adds(self.h@)[k]); }
                assert(val(v_rm.unwrap()).is_some());
            }
        }
//@at closure 1 last
        proof {
            let c = Call { rm: v_rm, v: v, out: __r };
            lemma_fifo_step(self.h@, c);
            if v_rm.is_some() { assert(v_rm.unwrap() == adds(self.h@).push(v)[nrm(self.h@) as int]); }
            assert(adds(self.h@.push(c)) =~= adds(self.h@).push(v));
            assert(vals(adds(self.h@.push(c))) =~= vals(adds(self.h@)).push(val(v)));
            assert(mean_spec(vals(win(self.h@).push(v)), self.min_periods as int, __r));       // #C01,C05 output_is_window_statistic
            lemma_outs_step(self.h@, c, |w: Seq<T>, o: U| mean_spec(vals(w), self.min_periods as int, o));
            assert(sums_ok(vals(win(self.h@.push(c))), n, sum, sum, sum, sum, 1));              // #C01 state_describes_window
        }
//@at body first
    let ghost mp0 = min_periods;
    let ghost out0 = out;
    proof { ax_lits(); }
//@at body last
    proof {
        let h = __clo1.h@;
        let s = outs(h);
        if window >= 1 {
            let p = |i: int, o: U| mean_spec(vals(wnd(this.view(), window, i)), mp_eff(mp0, window, 0), o);
            assert forall|i: int| 0 <= i < s.len() implies p(i, #[trigger] s[i]) by {
                lemma_fifo_window_is_wnd(h, this.view(), window, i);
                assert(mean_spec(vals(fifo_window(h, i)), __clo1.min_periods as int, h[i].out));
            }
            lemma_delivered_each(__ret, match out0 { Some(o) => Some(final(o).written()), None => None }, s, p);
        }
    }
//@end

//@fn name=ts_var_to crate=tea-rolling ctx="pub trait RollingFeature" props=C01,C05,C06,C08 arith=C05
//@types T::Inner=${TI}
//@sig fn ts_var_to<V: RollingDrivers<T>, O: Vec1<U>>(this: &V, window: usize, min_periods: Option<usize>, out: Option<&mut O::Buf>) -> (r: Option<O>)
//@spec
    requires
        forall|i: int| 0 <= i < this.view().len() ==> !nan(#[trigger] this.view()[i]),
        out matches Some(o) ==> buf_fresh(o, this.view().len()),
        (window == 0 && out.is_none() && this.view().len() > 0) ==> panic_allowed(),
        this.view().len() <= 0x7fff_ffff,      // A-LEN
    ensures
        window >= 1 ==> delivered_each(r, match out { Some(o) => Some(final(o).written()), None => None }, this.view().len(),       // #C05 one_output_per_input
            |i: int, o: U| var_spec(vals(wnd(this.view(), window, i)), mp_eff(min_periods, window, 2), o)),                              // #C01,C05,C06 value_and_mask
//@closure 1 name=CloVar trait="RollingFn<T, U>" params="v_rm: Option<T>, v: T" ret="(res: U)" push="Call { rm: v_rm, v: v, out: __r }" caps="mut n: usize, mut sum: f64, mut sum2: f64, min_periods: usize"
//@closure 1 extra
    open spec fn hist(&self) -> Seq<Call<T, U>> { self.h@ }
    open spec fn elem_ok(v: T) -> bool { !nan(v) }
//@closure 1 inv
        &&& hist_wf(self.h@) && canon_seq(adds(self.h@)) && all_some(vals(adds(self.h@)))
        &&& sums_ok(vals(win(self.h@)), self.n, self.sum, self.sum2, self.sum, self.sum, 2)         // #C01 state_describes_window
        &&& self.min_periods >= 2
        &&& outs_ok(self.h@, |w: Seq<T>, o: U| var_spec(vals(w), self.min_periods as int, o))
//@at closure 1 first
        let ghost w0 = vals(win(self.h@));
        let ghost wp = w0.push(val(v));
        proof {
            broadcast use a_real, a_real_cmp;
            ax_lits();
            reveal_with_fuel(rpow, 4);
            lemma_step_vals(self.h@, v_rm, v);
            assert(val(v).is_some());
            if v_rm.is_some() {
                let k = nrm(self.h@) as int;
                if k < self.h@.len() { assert(vals(adds(self.h@))[k].is_some()); assert(adds(self.h@).push(v)[k] == adds(self.h@)[k]); }
                assert(val(v_rm.unwrap()).is_some());
            }
        }
//@at closure 1 last
        proof {
            let c = Call { rm: v_rm, v: v, out: __r };
            lemma_fifo_step(self.h@, c);
            if v_rm.is_some() { assert(v_rm.unwrap() == adds(self.h@).push(v)[nrm(self.h@) as int]); }
            assert(adds(self.h@.push(c)) =~= adds(self.h@).push(v));
            assert(vals(adds(self.h@.push(c))) =~= vals(adds(self.h@)).push(val(v)));
            if cnt(wp) >= 2 { lemma_var_forms(ps(wp, 1), ps(wp, 2), cnt(wp) as real); }
            assert(var_spec(vals(win(self.h@).push(v)), self.min_periods as int, __r));       // #C01,C05 output_is_window_statistic
            lemma_outs_step(self.h@, c, |w: Seq<T>, o: U| var_spec(vals(w), self.min_periods as int, o));
            assert(sums_ok(vals(win(self.h@.push(c))), n, sum, sum2, sum, sum, 2));              // #C01 state_describes_window
        }
//@at body first
    let ghost mp0 = min_periods;
    let ghost out0 = out;
    proof { ax_lits(); }
//@at body last
    proof {
        let h = __clo1.h@;
        let s = outs(h);
        if window >= 1 {
            let p = |i: int, o: U| var_spec(vals(wnd(this.view(), window, i)), mp_eff(mp0, window, 2), o);
            assert forall|i: int| 0 <= i < s.len() implies p(i, #[trigger] s[i]) by {
                lemma_fifo_window_is_wnd(h, this.view(), window, i);
                assert(var_spec(vals(fifo_window(h, i)), __clo1.min_periods as int, h[i].out));
            }
            lemma_delivered_each(__ret, match out0 { Some(o) => Some(final(o).written()), None => None }, s, p);
        }
    }
//@end

//@fn name=ts_std_to crate=tea-rolling ctx="pub trait RollingFeature" props=C01,C05,C06,C08 arith=C05
//@types T::Inner=${TI}
//@sig fn ts_std_to<V: RollingDrivers<T>, O: Vec1<U>>(this: &V, window: usize, min_periods: Option<usize>, out: Option<&mut O::Buf>) -> (r: Option<O>)
//@spec
    requires
        forall|i: int| 0 <= i < this.view().len() ==> !nan(#[trigger] this.view()[i]),
        out matches Some(o) ==> buf_fresh(o, this.view().len()),
        (window == 0 && out.is_none() && this.view().len() > 0) ==> panic_allowed(),
        this.view().len() <= 0x7fff_ffff,      // A-LEN
    ensures
        window >= 1 ==> delivered_each(r, match out { Some(o) => Some(final(o).written()), None => None }, this.view().len(),       // #C05 one_output_per_input
            |i: int, o: U| std_spec(vals(wnd(this.view(), window, i)), mp_eff(min_periods, window, 2), o)),                              // #C01,C05,C06 value_and_mask
//@closure 1 name=CloStd trait="RollingFn<T, U>" params="v_rm: Option<T>, v: T" ret="(res: U)" push="Call { rm: v_rm, v: v, out: __r }" caps="mut n: usize, mut sum: f64, mut sum2: f64, min_periods: usize"
//@closure 1 extra
    open spec fn hist(&self) -> Seq<Call<T, U>> { self.h@ }
    open spec fn elem_ok(v: T) -> bool { !nan(v) }
//@closure 1 inv
        &&& hist_wf(self.h@) && canon_seq(adds(self.h@)) && all_some(vals(adds(self.h@)))
        &&& sums_ok(vals(win(self.h@)), self.n, self.sum, self.sum2, self.sum, self.sum, 2)         // #C01 state_describes_window
        &&& self.min_periods >= 2
        &&& outs_ok(self.h@, |w: Seq<T>, o: U| std_spec(vals(w), self.min_periods as int, o))
//@at closure 1 first
        let ghost w0 = vals(win(self.h@));
        let ghost wp = w0.push(val(v));
        proof {
            broadcast use a_real, a_real_cmp;
            ax_lits();
            reveal_with_fuel(rpow, 4);
            lemma_step_vals(self.h@, v_rm, v);
            assert(val(v).is_some());
            if v_rm.is_some() {
                let k = nrm(self.h@) as int;
                if k < self.h@.len() { assert(vals(adds(self.h@))[k].is_some()); assert(adds(self.h@).push(v)[k] == adds(self.h@)[k]); }
                assert(val(v_rm.unwrap()).is_some());
            }
        }
//@at closure 1 last
        proof {
            let c = Call { rm: v_rm, v: v, out: __r };
            lemma_fifo_step(self.h@, c);
            if v_rm.is_some() { assert(v_rm.unwrap() == adds(self.h@).push(v)[nrm(self.h@) as int]); }
            assert(adds(self.h@.push(c)) =~= adds(self.h@).push(v));
            assert(vals(adds(self.h@.push(c))) =~= vals(adds(self.h@)).push(val(v)));
            if cnt(wp) >= 2 {
                lemma_var_forms(ps(wp, 1), ps(wp, 2), cnt(wp) as real);
                if biased_var(wp) > 0real { lemma_scaled_pos(biased_var(wp), cnt(wp) as real); }
            }
            assert(std_spec(vals(win(self.h@).push(v)), self.min_periods as int, __r));       // #C01,C05 output_is_window_statistic
            lemma_outs_step(self.h@, c, |w: Seq<T>, o: U| std_spec(vals(w), self.min_periods as int, o));
            assert(sums_ok(vals(win(self.h@.push(c))), n, sum, sum2, sum, sum, 2));              // #C01 state_describes_window
        }
//@at body first
    let ghost mp0 = min_periods;
    let ghost out0 = out;
    proof { ax_lits(); }
//@at body last
    proof {
        let h = __clo1.h@;
        let s = outs(h);
        if window >= 1 {
            let p = |i: int, o: U| std_spec(vals(wnd(this.view(), window, i)), mp_eff(mp0, window, 2), o);
            assert forall|i: int| 0 <= i < s.len() implies p(i, #[trigger] s[i]) by {
                lemma_fifo_window_is_wnd(h, this.view(), window, i);
                assert(std_spec(vals(fifo_window(h, i)), __clo1.min_periods as int, h[i].out));
            }
            lemma_delivered_each(__ret, match out0 { Some(o) => Some(final(o).written()), None => None }, s, p);
        }
    }
//@end


} // verus!
fn main() {}
