use vstd::prelude::*;
use vstd::string::*;
use vstd::std_specs::ops::*;
use vstd::std_specs::cmp::*;
verus! {
//@include prelude.rs
//@include assume_real.rs
//@include assume_std.rs
//@include dtype.rs
//@include iter.rs
//@include cutmodel.rs
//@props C18

// ============================================================================================
// units/fmt.rs — the date-time text clause of C18 (tea-time datetime.rs): `DateTime::strftime` and `DateTime::parse`.
// Both delegate to chrono (A-CHRONO: `format` / `parse_from_str` are oracles over the text).  What the contracts pin down:
//   * strftime never panics on a valid (calendar-representable) date-time, prints "NaT" for NaT, and formats with the caller's
//     format or with the DEFAULT format, which is one of the formats the parser tries (entry 1 of TIME_RULE_VEC);
//   * parse is total (value or error for any text), with a format it answers what chrono answers for that format (date-time
//     first, then date), without one it answers what the FIRST format of TIME_RULE_VEC that chrono accepts gives;
//   * lemma: formatting with the default format and parsing back returns the same calendar value PROVIDED chrono parses what it
//     printed with that format and rejects that text under the earlier format of the table (two stated chrono hypotheses).
// The extracted constant table and the string literals are the real ones (Verus knows a literal by its content).
// ============================================================================================
//@const crate=tea-time name=TIME_RULE_VEC

pub struct Cr { _p: u8 }                 // a chrono calendar date-time (value; equality is chrono's)
pub struct Naive { _p: u8 }              // chrono::NaiveDateTime
pub struct NaiveD { _p: u8 }             // chrono::NaiveDate
pub struct ParseErr { _p: u8 }
pub uninterp spec fn cr_format(c: Cr, fmt: Seq<char>) -> Seq<char>;
pub uninterp spec fn ndt_parse(s: Seq<char>, fmt: Seq<char>) -> Option<Naive>;
pub uninterp spec fn nd_parse(s: Seq<char>, fmt: Seq<char>) -> Option<NaiveD>;
pub uninterp spec fn naive_cr(n: Naive) -> Cr;         // NaiveDateTime -> DateTime<Utc>
pub uninterp spec fn date_cr(d: NaiveD) -> Cr;         // NaiveDate at midnight -> DateTime<Utc>

pub struct Formatted { _p: u8 }
impl Formatted {
    pub uninterp spec fn text(&self) -> Seq<char>;
    #[verifier::external_body]
    pub fn to_string(&self) -> (r: String)
        ensures r@ == self.text(),
    { unimplemented!() }
}
impl Cr {
    #[verifier::external_body]
    pub fn format(&self, fmt: &str) -> (r: Formatted)
        ensures r.text() == cr_format(*self, fmt@),
    { unimplemented!() }
}
#[verifier::external_body]
pub fn ndt_parse_from_str(s: &str, fmt: &str) -> (r: Result<Naive, ParseErr>)
    ensures (r matches Ok(v) ==> ndt_parse(s@, fmt@) == Some(v)), r is Err ==> ndt_parse(s@, fmt@).is_none(),
{ unimplemented!() }
#[verifier::external_body]
pub fn nd_parse_from_str(s: &str, fmt: &str) -> (r: Result<NaiveD, ParseErr>)
    ensures (r matches Ok(v) ==> nd_parse(s@, fmt@) == Some(v)), r is Err ==> nd_parse(s@, fmt@).is_none(),
{ unimplemented!() }

// the date-time itself: an abstract value with its NaT flag and (when representable) its calendar value
pub struct DateTime { _p: u8 }
impl DateTime {
    pub uninterp spec fn nat_spec(&self) -> bool;
    pub uninterp spec fn cr_spec(&self) -> Option<Cr>;       // None: NaT or outside chrono's range
    pub uninterp spec fn of_cr(c: Cr) -> DateTime;
    #[verifier::external_body]
    pub fn is_nat(&self) -> (r: bool) ensures r == self.nat_spec() { unimplemented!() }
    #[verifier::external_body]
    pub fn as_cr(&self) -> (r: Option<Cr>) ensures r == self.cr_spec(), self.nat_spec() ==> r.is_none() { unimplemented!() }
    #[verifier::external_body]
    pub fn from_naive(n: Naive) -> (r: DateTime) ensures r == DateTime::of_cr(naive_cr(n)) { unimplemented!() }
    #[verifier::external_body]
    pub fn from_date(d: NaiveD) -> (r: DateTime) ensures r == DateTime::of_cr(date_cr(d)) { unimplemented!() }

//@fn name=strftime crate=tea-time ctx="impl<U: TimeUnitTrait> DateTime<U>" nth=1 props=C18
//@sig pub fn strftime(&self, fmt: Option<&str>) -> (r: String)
//@spec
    requires
        !self.nat_spec() ==> self.cr_spec().is_some(),      // "a valid date-time": representable in the calendar library
    ensures
        self.nat_spec() ==> r@ == "NaT"@,
        !self.nat_spec() ==> r@ == cr_format(self.cr_spec().unwrap(), match fmt { Some(f) => f@, None => TIME_RULE_VEC[1]@ }),   // #C18 default_format_is_one_the_parser_tries
//@end
}

// what `parse` answers for one format: chrono's date-time parse first, then its date parse
pub open spec fn parse_with(s: Seq<char>, f: Seq<char>) -> Option<DateTime> {
    match ndt_parse(s, f) {
        Some(n) => Some(DateTime::of_cr(naive_cr(n))),
        None => match nd_parse(s, f) { Some(d) => Some(DateTime::of_cr(date_cr(d))), None => None },
    }
}
// the first format of the table, from position k on, that chrono accepts
pub open spec fn parse_from(s: Seq<char>, k: int) -> Option<DateTime>
    decreases 11 - k
{
    if k < 0 || k >= 11 { None } else { match parse_with(s, TIME_RULE_VEC[k]@) { Some(d) => Some(d), None => parse_from(s, k + 1) } }
}
#[verifier::external_body]
pub fn rule_iter() -> (it: It<&'static str>)
    ensures it.seq() == Seq::new(11, |i: int| TIME_RULE_VEC[i]), it.forever().is_none(),
{ unimplemented!() }

//@fn name=parse crate=tea-time ctx="impl<U: TimeUnitTrait> DateTime<U>" nth=1 as=dt_parse props=C18
//@sig pub fn dt_parse(s: &str, fmt: Option<&str>) -> (r: TResult<DateTime>)
//@replace NaiveDateTime::parse_from_str( => ndt_parse_from_str(
//@replace NaiveDate::parse_from_str( => nd_parse_from_str(
//@replace cr_dt.into() => DateTime::from_naive(cr_dt)
//@replace cr_date.into() => DateTime::from_date(cr_date)
//@replace TIME_RULE_VEC.iter() => rule_iter()
//@spec
    // totality (C18): no precondition - any text gives a value or an error
    ensures
        fmt matches Some(f) ==> (match parse_with(s@, f@) { Some(d) => r == Ok::<DateTime, TError>(d), None => r is Err }),     // #C18 explicit_format_is_chronos_answer
        fmt is None ==> (match parse_from(s@, 0) { Some(d) => r == Ok::<DateTime, TError>(d), None => r is Err }),          // #C18 first_accepted_format_of_the_table
//@loop 1
    invariant
        fmt is None,
        __for1.forever().is_none(), __for1.seq().len() <= 11,
        __for1.seq() =~= Seq::new(11, |i: int| TIME_RULE_VEC[i]).skip(11 - __for1.seq().len()),
        parse_from(s@, 0) == parse_from(s@, 11 - __for1.seq().len()),
    ensures parse_from(s@, 0).is_none(),
    decreases __for1.seq().len(),
//@end

// formatting with the default format and parsing back (no format given) returns the same calendar value, GIVEN that chrono parses
// what it printed with that format and does not accept that text under the earlier entry of the table (A-CHRONO hypotheses)
pub proof fn lemma_default_round_trip(c: Cr, n: Naive)      // #C18
    requires
        ndt_parse(cr_format(c, TIME_RULE_VEC[1]@), TIME_RULE_VEC[1]@) == Some(n), naive_cr(n) == c,
        ndt_parse(cr_format(c, TIME_RULE_VEC[1]@), TIME_RULE_VEC[0]@).is_none(), nd_parse(cr_format(c, TIME_RULE_VEC[1]@), TIME_RULE_VEC[0]@).is_none(),
    ensures parse_from(cr_format(c, TIME_RULE_VEC[1]@), 0) == Some(DateTime::of_cr(c)),
{
    reveal_with_fuel(parse_from, 3);
}

// ---- Time::parse (tea-time time.rs): chrono's NaiveTime parse (with the caller's format, or chrono's FromStr), then nanoseconds
// since midnight; total, and the value is seconds * 1e9 + sub-second nanoseconds of what chrono parsed
//@const crate=tea-time name=NANOS_PER_SEC
pub struct NaiveTime { _p: u8 }
impl NaiveTime {
    pub uninterp spec fn secs(&self) -> u32;
    pub uninterp spec fn nanos(&self) -> u32;
    #[verifier::external_body]
    pub fn num_seconds_from_midnight(&self) -> (r: u32) ensures r == self.secs(), r < 86_400 { unimplemented!() }
    #[verifier::external_body]
    pub fn nanosecond(&self) -> (r: u32) ensures r == self.nanos(), r < 2_000_000_000 { unimplemented!() }     // < 2e9: leap-second representation
}
pub uninterp spec fn nt_parse(s: Seq<char>, fmt: Option<Seq<char>>) -> Option<NaiveTime>;
#[verifier::external_body]
pub fn nt_parse_from_str(s: &str, fmt: &str) -> (r: Result<NaiveTime, ParseErr>)
    ensures (r matches Ok(v) ==> nt_parse(s@, Some(fmt@)) == Some(v)), r is Err ==> nt_parse(s@, Some(fmt@)).is_none(),
{ unimplemented!() }
#[verifier::external_body]
pub fn nt_from_str(s: &str) -> (r: Result<NaiveTime, ParseErr>)
    ensures (r matches Ok(v) ==> nt_parse(s@, None) == Some(v)), r is Err ==> nt_parse(s@, None).is_none(),
{ unimplemented!() }
// `.map_err(|e| TError::ParseError(e.to_string().into()))` (R12): the value passes, an error stays an error
pub trait ToParseError { fn to_parse_error_m(self) -> (o: Result<NaiveTime, TError>); }
impl ToParseError for Result<NaiveTime, ParseErr> {
    #[verifier::external_body]
    fn to_parse_error_m(self) -> (o: Result<NaiveTime, TError>)
        ensures (self matches Ok(v) ==> o == Ok::<NaiveTime, TError>(v)), self is Err ==> o is Err,
    { unimplemented!() }
}
pub struct Time(pub i64);

//@fn name=parse crate=tea-time ctx="impl Time" props=C18 arith=C18 as=time_parse
//@sig pub fn time_parse(s: &str, fmt: Option<&str>) -> (r: TResult<Time>)
//@replace NaiveTime::parse_from_str(s, fmt) => nt_parse_from_str(s, fmt)
//@replace s.parse() => nt_from_str(s)
//@replace .map_err(|e| TError::ParseError(e.to_string().into())) => .to_parse_error_m()
//@spec
    // totality (C18): no precondition - any text gives a value or an error; the multiplication cannot overflow
    ensures
        match nt_parse(s@, match fmt { Some(f) => Some(f@), None => None }) {
            Some(t) => r matches Ok(v) && v.0 == t.secs() as int * 1_000_000_000 + t.nanos() as int,     // #C18 nanoseconds_since_midnight_of_what_chrono_parsed
            None => r is Err,
        },
//@end

} // verus!
fn main() {}
