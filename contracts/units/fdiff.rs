use vstd::prelude::*;
use vstd::std_specs::ops::*;
use vstd::std_specs::cmp::*;
verus! {
//@include prelude.rs
//@include assume_real.rs
//@include assume_std.rs
//@include dtype.rs
//@include dtype_optcast.rs
//@include iter.rs
//@include foldmodel.rs
//@include cutmodel.rs
//@include mapmodel.rs
//@include rollmodel.rs
//@props C01

// ============================================================================================
// units/fdiff.rs — fractional differencing of the plain family (tevec/src/rolling.rs, feature `fdiff`): the coefficient table
// `fdiff_coef` and `ts_fdiff_to`, whose callback is handed window slices by `rolling_custom`.
//   C01: element i is  sum_k  (-1)^k C(d, k) * x[i-k]  over the window max(0, i-w+1)..=i  (k = 0 is the most recent element).
// A-FFI: `ffi::binom` is a foreign function (C special-function library); its value is the uninterpreted `binom_r`.
// ============================================================================================
pub type T = f64;   // plain family: every element counts ("finite numeric series": no NaN)
pub type U = ${U};

pub axiom fn ax_lits()
    ensures rv(0.0f64) == 0real, !nan(0.0f64), rv(1.0f64) == 1real, !nan(1.0f64);

pub uninterp spec fn binom_r(d: real, k: real) -> real;
#[verifier::external_body]
pub fn ffi_binom(n: f64, k: f64) -> (r: f64)
    ensures (!nan(n) && !nan(k)) ==> !nan(r) && rv(r) == binom_r(rv(n), rv(k)),
{ unimplemented!() }

pub open spec fn pm(k: int) -> real { if k % 2 == 0 { 1real } else { -1real } }
// the weight of the k-th most recent element (from the property statement)
pub open spec fn fd_w(d: real, k: int) -> real { binom_r(d, k as real) * pm(k) }

// sum of products of two equally long sequences, accumulated front to back (what a left fold computes)
pub open spec fn dot(x: Seq<real>, c: Seq<real>) -> real
    decreases x.len()
{
    if x.len() == 0 || c.len() != x.len() { 0real } else { dot(x.drop_last(), c.drop_last()) + x.last() * c.last() }
}
pub open spec fn rvs(s: Seq<f64>) -> Seq<real> { Seq::new(s.len(), |i: int| rv(s[i])) }
pub open spec fn no_nan(s: Seq<f64>) -> bool { forall|i: int| 0 <= i < s.len() ==> !nan(#[trigger] s[i]) }
// the statistic evaluated from scratch on one window (oldest element first): element j has lag m-1-j
pub open spec fn fd_weights(d: real, m: nat) -> Seq<real> { Seq::new(m, |j: int| fd_w(d, m - 1 - j)) }
pub open spec fn fd_stat(w: Seq<f64>, d: real) -> real { dot(rvs(w), fd_weights(d, w.len())) }

// the window of position i: x[max(0, i-w+1) ..= i]
pub open spec fn wnd<T>(x: Seq<T>, window: usize, i: int) -> Seq<T> { x.subrange(wstart(window as int, i), i + 1) }

pub open spec fn isnull(o: U) -> bool { o.opt().is_none() }
pub open spec fn oval(o: U) -> real { o.opt().unwrap().rval() }

// the coefficient table for window `w`: entry j is the weight of lag w-1-j (entry w-1 belongs to the most recent element)
pub open spec fn coef_ok(c: Seq<f64>, d: real, w: nat) -> bool {
    &&& c.len() == w
    &&& forall|j: int| 0 <= j < w ==> !nan(#[trigger] c[j]) && rv(c[j]) == fd_w(d, w - 1 - j)
}

pub proof fn lemma_pm_step(k: int)
    ensures pm(k + 1) == -pm(k), pm(k) * pm(k) == 1real,
{
    assert(pm(k) * pm(k) == 1real) by(nonlinear_arith) requires pm(k) == 1real || pm(k) == -1real;
}
pub proof fn lemma_pm_sum(a: int, b: int)
    ensures pm(a) * pm(b) == pm(a + b),
{
    let x = pm(a); let y = pm(b);
    if a % 2 == 0 {
        assert((a + b) % 2 == b % 2);
        assert(x * y == y) by(nonlinear_arith) requires x == 1real;
    } else {
        assert((a + b) % 2 == (if b % 2 == 0 { 1int } else { 0int })) by {
            if b % 2 == 0 { assert((a + b) % 2 != 0); } else { assert((a + b) % 2 == 0); }
        }
        assert(x * y == -y) by(nonlinear_arith) requires x == -1real;
    }
}

// ---- fold of `acc + v * c` over zipped (value, coefficient) pairs
pub open spec fn p_mac(a: f64, vc: (f64, f64), o: f64) -> bool {
    rv(o) == rv(a) + rv(vc.0) * rv(vc.1) && nan(o) == (nan(a) || nan(vc.0) || nan(vc.1))
}
pub open spec fn lefts(z: Seq<(f64, f64)>) -> Seq<f64> { Seq::new(z.len(), |i: int| z[i].0) }
pub open spec fn rights(z: Seq<(f64, f64)>) -> Seq<f64> { Seq::new(z.len(), |i: int| z[i].1) }
pub proof fn lemma_chain_dot(acc: Seq<f64>, z: Seq<(f64, f64)>, p: spec_fn(f64, (f64, f64), f64) -> bool, k: int)
    requires
        acc.len() == z.len() + 1, 0 <= k <= z.len(),
        forall|i: int| 0 <= i < z.len() ==> p(#[trigger] acc[i], z[i], acc[i + 1]),
        forall|a: f64, x: (f64, f64), o: f64| #[trigger] p(a, x, o) && !nan(x.0) ==> p_mac(a, x, o),
        no_nan(lefts(z)), no_nan(rights(z)),
    ensures rv(acc[k]) == rv(acc[0]) + dot(rvs(lefts(z.take(k))), rvs(rights(z.take(k)))), nan(acc[k]) == nan(acc[0]),
    decreases k
{
    if k > 0 {
        lemma_chain_dot(acc, z, p, k - 1);
        assert(p(acc[k - 1], z[k - 1], acc[k]));
        assert(!nan(lefts(z)[k - 1]) && !nan(rights(z)[k - 1]));
        let l = rvs(lefts(z.take(k))); let r = rvs(rights(z.take(k)));
        assert(l.drop_last() =~= rvs(lefts(z.take(k - 1))));
        assert(r.drop_last() =~= rvs(rights(z.take(k - 1))));
        assert(l.last() == rv(z[k - 1].0) && r.last() == rv(z[k - 1].1));
    } else {
        assert(rvs(lefts(z.take(0))).len() == 0);
    }
}
pub proof fn lemma_fold_dot(z: Seq<(f64, f64)>, init: f64, r: f64, p: spec_fn(f64, (f64, f64), f64) -> bool)
    requires
        fold_relp(z, init, r, p),
        forall|a: f64, x: (f64, f64), o: f64| #[trigger] p(a, x, o) && !nan(x.0) ==> p_mac(a, x, o),
        no_nan(lefts(z)), no_nan(rights(z)),
    ensures rv(r) == rv(init) + dot(rvs(lefts(z)), rvs(rights(z))), nan(r) == nan(init),
{
    let acc = choose|acc: Seq<f64>| #[trigger] fold_chain(acc, z, init, r, p);
    lemma_chain_dot(acc, z, p, z.len() as int);
    assert(z.take(z.len() as int) =~= z);
}

// ---- fdiff_coef: entry j of the table is the weight of lag window-1-j
//@fn name=fdiff_coef crate=tevec ctx="" props=C01 arith=C01
//@sig fn fdiff_coef(d: f64, window: usize) -> (r: Vec<f64>)
//@replace (0..window).rev() => range_it(0, window).rev()
//@replace .rev().map( => .rev().map_mut(
//@replace ffi::binom( => ffi_binom(
//@replace -sign => fneg(sign)
//@replace { -1. } => { fneg(1.) }
//@replace .collect_trusted_to_vec() => .collect_trusted_vec1()
//@closure 1 name=CloCoef trait="MapFn<usize, f64>" params="v: usize" ret="(o: f64)" push="(v, __r)" caps="d: f64, mut sign: f64" callty="(usize, f64)" ghost_fields="pub h: Ghost<Seq<(usize, f64)>>, pub s0: Ghost<real>," ghost_init="h: Ghost(Seq::empty()), s0: Ghost(rv(sign))" cfg_extra="s0: Ghost<real>"
//@closure 1 extra
    open spec fn hist(&self) -> Seq<(usize, f64)> { self.h@ }
    open spec fn arg_ok(v: usize) -> bool { true }
//@closure 1 inv
        &&& !nan(self.d) && !nan(self.sign) && (self.s0@ == 1real || self.s0@ == -1real)
        &&& rv(self.sign) == self.s0@ * pm(self.h@.len() as int)                                  // #C01 sign_alternates_per_item
        &&& forall|j: int| 0 <= j < self.h@.len() ==> !nan((#[trigger] self.h@[j]).1)
                && rv(self.h@[j].1) == binom_r(rv(self.d), self.h@[j].0 as real) * (self.s0@ * pm(j + 1))
//@at closure 1 first
        broadcast use a_real;
        let ghost h0 = self.h@;
        proof { lemma_pm_step(h0.len() as int); }
//@at closure 1 last
        proof {
            let s0 = self.s0@; let q = pm(h0.len() as int);
            assert(s0 * (-q) == -(s0 * q)) by(nonlinear_arith);
        }
//@spec
    requires !nan(d),
    ensures coef_ok(r@, rv(d), window as nat),                 // #C01 coefficient_j_is_the_weight_of_lag_w_minus_1_minus_j
//@at body first
    broadcast use a_real;
    proof { ax_lits(); }
//@at body last
    proof {
        let h = __clo1.h@;
        let s0 = __clo1.s0@;
        assert(s0 == pm(window as int));
        assert forall|j: int| 0 <= j < window implies !nan(#[trigger] __ret@[j]) && rv(__ret@[j]) == fd_w(rv(d), window - 1 - j) by {
            assert(h[j].0 == (window - 1 - j) as usize);
            lemma_pm_sum(window as int, j + 1);
            // window + j + 1 and window - 1 - j have the same parity
            assert(pm(window + j + 1) == pm(window - 1 - j)) by {
                assert((window + j + 1) % 2 == (window - 1 - j) % 2) by(nonlinear_arith) requires 0 <= j < window;
            }
        }
    }
//@end

// what the callback returns for one slice: the coefficients are aligned at the END of the table (most recent element <-> lag 0)
pub open spec fn slice_out_ok(c: Seq<f64>, s: Seq<T>, o: U) -> bool {
    (s.len() <= c.len() && no_nan(s) && no_nan(c)) ==>
        !isnull(o) && oval(o) == dot(rvs(s), rvs(c.subrange(c.len() - s.len(), c.len() as int)))
}
pub open spec fn fd_out(w: Seq<T>, d: real, o: U) -> bool { !isnull(o) && oval(o) == fd_stat(w, d) }

//@fn name=ts_fdiff_to crate=tevec ctx="pub trait RollingFinal" props=C01,C05,C06,C07 arith=C10
//@sig fn ts_fdiff_to<V: SliceDriver<T>, O: Vec1<U>>(this: &V, d: f64, window: usize, out: Option<&mut O::Buf>) -> (r: Option<O>) where V::Slice: TIter<T>
//@replace v.cast() => Cast::<f64>::cast(v)
//@closure 1 name=CloFdiff trait="SliceFn<S, T, U>" params="arr: S" ret="(o: U)" push="CallSlice { s: arr.view(), out: __r }" caps="ref coef: Vec<f64>" callty="CallSlice<T, U>" generics="<S: TIter<T>>" struct_generics="" generics_use=""
//@closure 1 extra
    open spec fn hist(&self) -> Seq<CallSlice<T, U>> { self.h@ }
    open spec fn sview(s: &S) -> Seq<T> { s.view() }
//@closure 1 inv
        &&& forall|j: int| 0 <= j < self.h@.len() ==> slice_out_ok(self.coef@, (#[trigger] self.h@[j]).s, self.h@[j].out)   // #C01 weights_aligned_with_the_most_recent_element
//@at closure 1 last
        proof {
            assert(slice_out_ok(cv, sv, __r));          // #C01 weights_aligned_with_the_most_recent_element
        }
//@closure 1.1 mode=annotate params="acc: f64, vc: (T, f64)" ret="(o: f64)"
//@closure 1.1 spec
            ensures p_mac(acc, vc, o)
//@at closure 1.1 first
            broadcast use a_real;
//@at closure 1 first
        broadcast use a_real;
        proof { ax_lits(); }
        let ghost sv = arr.view();
        let ghost cv = self.coef@;
//@at closure 1 tail
        proof {
            if sv.len() <= cv.len() && no_nan(sv) && no_nan(cv) {
                let k = cv.len() - sv.len();
                let z = Seq::new(sv.len(), |i: int| (sv[i], cv.skip(k)[i]));
                let pl = |a: f64, x: (f64, f64), o: f64| p_mac(a, x, o);
                // the value the fold returned, before the final cast
                let fr = choose|fr: f64| __r == #[trigger] Cast::<U>::cast_spec(fr) && folds_as(z, 0.0f64, fr, acc_func);
                assert(fold_relp(z, 0.0f64, fr, pl));
                assert(lefts(z) =~= sv);
                assert(rights(z) =~= cv.subrange(k, cv.len() as int));
                lemma_fold_dot(z, 0.0f64, fr, pl);
            }
        }
//@spec
    requires
        !nan(d), no_nan(this.view()), window >= 1,
        this.supports_slice(),
        forall|s: &V::Slice| #[trigger] V::slice_view(s) == s.view(),
        out matches Some(o) ==> buf_fresh(o, this.view().len()),
    ensures
        delivered_each(r, match out { Some(o) => Some(final(o).written()), None => None }, this.view().len(),
            |i: int, o: U| fd_out(wnd(this.view(), window, i), rv(d), o)),     // #C01,C05,C06,C07 fractional_difference_of_the_window
//@at body first
    let ghost out0 = out;
//@at body last
    proof {
        let h = __clo1.h@;
        let x = this.view();
        let w = wclamp(window, x.len());
        let p = |i: int, o: U| fd_out(wnd(x, window, i), rv(d), o);
        assert forall|i: int| 0 <= i < x.len() implies p(i, #[trigger] outs_slice(h)[i]) by {
            let s = h[i].s;
            assert(s =~= x.subrange(wstart(w as int, i), i + 1));
            assert(s =~= wnd(x, window, i));
            assert(slice_out_ok(__clo1.coef@, s, h[i].out));
            assert(no_nan(s));
            let m = s.len();
            let cf = __clo1.coef@;
            assert(rvs(cf.subrange(cf.len() - m, cf.len() as int)) =~= fd_weights(rv(d), m));
        }
        lemma_delivered_each(__ret, match out0 { Some(o) => Some(final(o).written()), None => None }, outs_slice(h), p);
    }
//@end

// ---- the null-aware variant: the statistic of the NON-NULL elements of the window (the k-th most recent non-null element gets the
// weight of lag k), null below min_periods
pub open spec fn p_vmac(a: f64, vc: (f64, f64), o: f64) -> bool { if nan(vc.0) { o == a } else { p_mac(a, vc, o) } }
impl It<T> {
    // tea-core agg.rs count_valid (contract proved in unit agg: counts_the_valid_elements)
    #[verifier::external_body]
    pub fn count_valid(self) -> (n: usize)
        requires self.forever().is_none(), self.seq().len() <= usize::MAX,
        ensures n == vseq(self.seq()).len(),
    { unimplemented!() }
    // Iterator::filter(IsNone::not_none) (R12): the non-null items, in order
    #[verifier::external_body]
    pub fn filter_not_none(self) -> (r: It<T>)
        requires self.forever().is_none(),
        ensures r.seq() == vseq(self.seq()), r.forever().is_none(),
    { unimplemented!() }
}
// a container's length is a usize (type invariant of every backend; what `len()` returns)
pub axiom fn ax_view_len<S: TIter<T>>(s: &S)
    ensures s.view().len() <= usize::MAX;
pub proof fn lemma_vseq_facts(s: Seq<T>)
    ensures vseq(s).len() <= s.len(), no_nan(vseq(s)), (vseq(s).len() == s.len() ==> vseq(s) =~= s), (no_nan(s) ==> vseq(s) =~= s),
    decreases s.len()
{
    if s.len() > 0 {
        lemma_vseq_facts(s.drop_last());
        if vseq(s).len() == s.len() { assert(s.last().opt().is_some()); assert(vseq(s.drop_last()) =~= s.drop_last()); assert(s.drop_last().push(s.last()) =~= s); }
        if no_nan(s) { assert(no_nan(s.drop_last())); assert(s.drop_last().push(s.last()) =~= s); }
    }
}
pub open spec fn vslice_out_ok(d: f64, window: usize, mp: usize, s: Seq<T>, o: U) -> bool {
    s.len() <= window ==> {
        let vs = vseq(s);
        if vs.len() >= mp || vs.len() == window { !isnull(o) && oval(o) == fd_stat(vs, rv(d)) } else { isnull(o) }
    }
}
pub open spec fn vfd_out(w: Seq<T>, d: real, mp: int, o: U) -> bool {
    let vs = vseq(w);
    if vs.len() >= mp { !isnull(o) && oval(o) == fd_stat(vs, d) } else { isnull(o) }
}

//@fn name=ts_vfdiff_to crate=tevec ctx="pub trait RollingValidFinal" props=C01,C05,C06,C07,C08 arith=C10
//@sig fn ts_vfdiff_to<V: SliceDriver<T>, O: Vec1<U>>(this: &V, d: f64, window: usize, min_periods: Option<usize>, out: Option<&mut O::Buf>) -> (r: Option<O>) where V::Slice: TIter<T>
//@replace v.unwrap().f64() => v
//@replace .filter(IsNone::not_none) => .filter_not_none()
//@closure 1 name=CloVfdiff trait="SliceFn<S, T, U>" params="arr: S" ret="(o: U)" push="CallSlice { s: arr.view(), out: __r }" caps="ref coef: Vec<f64>, d: f64, window: usize, min_periods: usize" callty="CallSlice<T, U>" generics="<S: TIter<T>>" struct_generics="" generics_use=""
//@closure 1 extra
    open spec fn hist(&self) -> Seq<CallSlice<T, U>> { self.h@ }
    open spec fn sview(s: &S) -> Seq<T> { s.view() }
//@closure 1 inv
        &&& !nan(self.d) && coef_ok(self.coef@, rv(self.d), self.window as nat) && self.min_periods <= self.window
        &&& forall|j: int| 0 <= j < self.h@.len() ==> vslice_out_ok(self.d, self.window, self.min_periods, (#[trigger] self.h@[j]).s, self.h@[j].out)   // #C01,C08 weights_on_the_non_null_elements_most_recent_first
//@closure 1.1 mode=annotate params="acc: f64, vc: (T, f64)" ret="(o: f64)"
//@closure 1.1 spec
            ensures p_vmac(acc, vc, o)
//@at closure 1.1 first
            broadcast use a_real;
//@at closure 1 first
        broadcast use a_real;
        proof { ax_lits(); }
        let ghost sv = arr.view();
        let ghost cv = self.coef@;
        proof { lemma_vseq_facts(sv); ax_view_len(&arr); }
//@at closure 1 tail
        proof {
            let vs = vseq(sv);
            let pl = |a: f64, x: (f64, f64), o: f64| p_vmac(a, x, o);
            if sv.len() <= window {
                if n == window {
                    // the window is full and holds no null: the table itself is aligned
                    assert(vs =~= sv);
                    let z = Seq::new(sv.len(), |i: int| (sv[i], cv[i]));
                    assert(fold_relp(z, 0.0f64, res, pl));
                    assert(lefts(z) =~= sv);
                    assert(rights(z) =~= cv);
                    lemma_fold_dot(z, 0.0f64, res, pl);
                    assert(rvs(cv) =~= fd_weights(rv(d), vs.len()));
                } else if n >= min_periods {
                    // a fresh table for exactly the non-null elements
                    let c2 = choose|c2: Seq<f64>| coef_ok(c2, rv(d), n as nat) && fold_relp(Seq::new(vs.len(), |i: int| (vs[i], c2[i])), 0.0f64, res, pl);
                    let z = Seq::new(vs.len(), |i: int| (vs[i], c2[i]));
                    assert(lefts(z) =~= vs);
                    assert(rights(z) =~= c2);
                    lemma_fold_dot(z, 0.0f64, res, pl);
                    assert(rvs(c2) =~= fd_weights(rv(d), vs.len()));
                }
            }
        }
//@at closure 1 last
        proof {
            assert(vslice_out_ok(self.d, self.window, self.min_periods, sv, __r));          // #C01,C08 weights_on_the_non_null_elements_most_recent_first
        }
//@spec
    requires
        !nan(d), window >= 1,
        this.supports_slice(),
        forall|s: &V::Slice| #[trigger] V::slice_view(s) == s.view(),
        out matches Some(o) ==> buf_fresh(o, this.view().len()),
    ensures
        delivered_each(r, match out { Some(o) => Some(final(o).written()), None => None }, this.view().len(),
            |i: int, o: U| vfd_out(wnd(this.view(), window, i), rv(d), mp_v(min_periods, window), o)),     // #C01,C05,C06,C07,C08 fractional_difference_of_the_non_null_window
//@at body first
    let ghost out0 = out;
    let ghost mp0 = min_periods;
//@at body last
    proof {
        let h = __clo1.h@;
        let x = this.view();
        let w = wclamp(window, x.len());
        let p = |i: int, o: U| vfd_out(wnd(x, window, i), rv(d), mp_v(mp0, window), o);
        assert forall|i: int| 0 <= i < x.len() implies p(i, #[trigger] outs_slice(h)[i]) by {
            let s = h[i].s;
            assert(s =~= x.subrange(wstart(w as int, i), i + 1));
            assert(s =~= wnd(x, window, i));
            assert(vslice_out_ok(d, window, __clo1.min_periods, s, h[i].out));
            lemma_vseq_facts(s);
        }
        lemma_delivered_each(__ret, match out0 { Some(o) => Some(final(o).written()), None => None }, outs_slice(h), p);
    }
//@end
// effective min_periods of ts_vfdiff: min(mp or floor(w/2), w)
pub open spec fn mp_v(mp: Option<usize>, window: usize) -> int {
    let m = match mp { Some(m) => m as int, None => (window / 2) as int };
    if m <= window { m } else { window as int }
}

} // verus!
fn main() {}
