use vstd::prelude::*;
verus! {
//@include prelude.rs
//@include iter.rs
//@include dtype_bool.rs
//@include foldmodel.rs

pub type T = ${T};

//@fn name=bool_ crate=tea-dtype ctx="impl BoolType for bool" props=C11
//@sig fn bool_of_bool(this: bool) -> (r: bool)
//@spec
    ensures r == this
//@end
impl BoolType for bool {
    open spec fn bool_spec(self) -> bool { self }
    fn bool_(self) -> (r: bool) { bool_of_bool(self) }
}

// textbook: any = some valid element is true; all = every valid element is true (vacuously true without valid elements)
pub open spec fn any_spec(s: Seq<T>) -> bool { exists|i: int| 0 <= i < s.len() && #[trigger] s[i].opt() == Some(true) }
pub open spec fn all_spec(s: Seq<T>) -> bool { forall|i: int| 0 <= i < s.len() ==> #[trigger] s[i].opt() != Some(false) }

pub open spec fn p_or(a: bool, x: T, o: bool) -> bool { o == (a || x.opt() == Some(true)) }
pub open spec fn p_and(a: bool, x: T, o: bool) -> bool { o == (a && x.opt() != Some(false)) }

pub proof fn lemma_chain_or(acc: Seq<bool>, s: Seq<T>, p: spec_fn(bool, T, bool) -> bool, k: int)
    requires
        acc.len() == s.len() + 1, 0 <= k <= s.len(), !acc[0],
        forall|i: int| 0 <= i < s.len() ==> p(#[trigger] acc[i], s[i], acc[i + 1]),
        forall|a: bool, x: T, o: bool| #[trigger] p(a, x, o) ==> p_or(a, x, o),
    ensures acc[k] == any_spec(s.take(k)),
    decreases k
{
    if k > 0 {
        lemma_chain_or(acc, s, p, k - 1);
        assert(p(acc[k - 1], s[k - 1], acc[k]));
        let a = s.take(k - 1);
        let b = s.take(k);
        assert forall|i: int| 0 <= i < a.len() implies a[i] == b[i] by {}
        if any_spec(a) {
            let i = choose|i: int| 0 <= i < a.len() && #[trigger] a[i].opt() == Some(true);
            assert(b[i].opt() == Some(true));
        }
        if s[k - 1].opt() == Some(true) { assert(b[k - 1].opt() == Some(true)); }
        if any_spec(b) {
            let i = choose|i: int| 0 <= i < b.len() && #[trigger] b[i].opt() == Some(true);
            if i < k - 1 { assert(a[i].opt() == Some(true)); }
        }
    }
}
pub proof fn lemma_chain_and(acc: Seq<bool>, s: Seq<T>, p: spec_fn(bool, T, bool) -> bool, k: int)
    requires
        acc.len() == s.len() + 1, 0 <= k <= s.len(), acc[0],
        forall|i: int| 0 <= i < s.len() ==> p(#[trigger] acc[i], s[i], acc[i + 1]),
        forall|a: bool, x: T, o: bool| #[trigger] p(a, x, o) ==> p_and(a, x, o),
    ensures acc[k] == all_spec(s.take(k)),
    decreases k
{
    if k > 0 {
        lemma_chain_and(acc, s, p, k - 1);
        assert(p(acc[k - 1], s[k - 1], acc[k]));
        let a = s.take(k - 1);
        let b = s.take(k);
        assert forall|i: int| 0 <= i < a.len() implies a[i] == b[i] by {}
        if all_spec(b) {
            assert forall|i: int| 0 <= i < a.len() implies #[trigger] a[i].opt() != Some(false) by { assert(b[i].opt() != Some(false)); }
            assert(b[k - 1].opt() != Some(false));
        }
        if all_spec(a) && s[k - 1].opt() != Some(false) {
            assert forall|i: int| 0 <= i < b.len() implies #[trigger] b[i].opt() != Some(false) by { if i < k - 1 { assert(a[i].opt() != Some(false)); } }
        }
    }
}
// the valid subsequence has a true (false) element exactly when the series has a valid true (false) element
pub proof fn lemma_vseq_bool(s: Seq<T>)
    ensures any_spec(vseq(s)) == any_spec(s), all_spec(vseq(s)) == all_spec(s),
    decreases s.len()
{
    if s.len() > 0 {
        let sd = s.drop_last();
        lemma_vseq_bool(sd);
        let v = vseq(s);
        let vd = vseq(sd);
        assert forall|i: int| 0 <= i < sd.len() implies sd[i] == s[i] by {}
        assert forall|i: int| 0 <= i < vd.len() implies vd[i] == v[i] by {}
        // any
        if any_spec(s) {
            let i = choose|i: int| 0 <= i < s.len() && #[trigger] s[i].opt() == Some(true);
            if i < s.len() - 1 {
                assert(sd[i].opt() == Some(true));
                let j = choose|j: int| 0 <= j < vd.len() && #[trigger] vd[j].opt() == Some(true);
                assert(v[j].opt() == Some(true));
            } else { assert(v[v.len() - 1].opt() == Some(true)); }
        }
        if any_spec(v) {
            let j = choose|j: int| 0 <= j < v.len() && #[trigger] v[j].opt() == Some(true);
            if j < vd.len() {
                assert(vd[j].opt() == Some(true));
                let i = choose|i: int| 0 <= i < sd.len() && #[trigger] sd[i].opt() == Some(true);
                assert(s[i].opt() == Some(true));
            } else { assert(s[s.len() - 1].opt() == Some(true)); }
        }
        // all
        if all_spec(s) {
            assert forall|i: int| 0 <= i < sd.len() implies #[trigger] sd[i].opt() != Some(false) by { assert(s[i].opt() != Some(false)); }
            assert forall|j: int| 0 <= j < v.len() implies #[trigger] v[j].opt() != Some(false) by {
                if j < vd.len() { assert(vd[j].opt() != Some(false)); } else { assert(s[s.len() - 1].opt() != Some(false)); }
            }
        }
        if all_spec(v) {
            assert forall|j: int| 0 <= j < vd.len() implies #[trigger] vd[j].opt() != Some(false) by { assert(v[j].opt() != Some(false)); }
            assert forall|i: int| 0 <= i < s.len() implies #[trigger] s[i].opt() != Some(false) by {
                if i < s.len() - 1 { assert(sd[i].opt() != Some(false)); }
                else if s[i].opt().is_some() { assert(v[v.len() - 1].opt() != Some(false)); }
            }
        }
    }
}

//@fn name=vany crate=tea-core ctx="pub trait AggValidBasic" props=C11,C08
//@sig fn vany(this: It<T>) -> (r: bool)
//@closure 1 mode=annotate params="acc: bool, x: T" ret="(o: bool)"
//@closure 1 spec
            requires x.opt().is_some()
            ensures p_or(acc, x, o)
//@spec
    requires this.forever().is_none(),
    ensures r == any_spec(this.seq()),                       // #C11,C08 true_iff_some_valid_element_is_true
//@at body last
    proof {
        let v = vseq(this.seq());
        let pl = |a: bool, x: T, o: bool| p_or(a, x, o);
        assert(fold_relp(v, false, __ret, pl));
        let acc = choose|acc: Seq<bool>| #[trigger] fold_chain(acc, v, false, __ret, pl);
        lemma_chain_or(acc, v, pl, v.len() as int);
        assert(v.take(v.len() as int) =~= v);
        lemma_vseq_bool(this.seq());
    }
//@end

//@fn name=vall crate=tea-core ctx="pub trait AggValidBasic" props=C11,C08
//@sig fn vall(this: It<T>) -> (r: bool)
//@closure 1 mode=annotate params="acc: bool, x: T" ret="(o: bool)"
//@closure 1 spec
            requires x.opt().is_some()
            ensures p_and(acc, x, o)
//@spec
    requires this.forever().is_none(),
    ensures r == all_spec(this.seq()),                       // #C11,C08 true_iff_no_valid_element_is_false
//@at body last
    proof {
        let v = vseq(this.seq());
        let pl = |a: bool, x: T, o: bool| p_and(a, x, o);
        assert(fold_relp(v, true, __ret, pl));
        let acc = choose|acc: Seq<bool>| #[trigger] fold_chain(acc, v, true, __ret, pl);
        lemma_chain_and(acc, v, pl, v.len() as int);
        assert(v.take(v.len() as int) =~= v);
        lemma_vseq_bool(this.seq());
    }
//@end

} // verus!
fn main() {}
