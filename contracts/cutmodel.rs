// ============================================================================================
// cutmodel.rs — the iterator vocabulary vcut uses beyond iter.rs (A-ITER): next, tuple_windows (itertools), chain with a Vec,
// Vec::titer, collect into a Vec, `vec![..]` (R21: vec_from_array), `.map(IsNone::unwrap)` (R12: map_unwrap)
// ============================================================================================
pub open spec fn windows2<A>(s: Seq<A>) -> Seq<(A, A)> {
    Seq::new(if s.len() >= 2 { (s.len() - 1) as nat } else { 0nat }, |i: int| (s[i], s[i + 1]))
}
impl<A> It<A> {
    // Iterator::next on a finite iterator: the head, and the tail stays
    #[verifier::external_body]
    pub fn next(&mut self) -> (r: Option<A>)
        requires old(self).forever().is_none(),
        ensures
            final(self).forever().is_none(),
            old(self).seq().len() == 0 ==> r.is_none() && final(self).seq() == old(self).seq(),
            old(self).seq().len() > 0 ==> r == Some(old(self).seq()[0]) && final(self).seq() == old(self).seq().skip(1),
    { unimplemented!() }
    // DoubleEndedIterator::next_back on a finite iterator: the last item, and the front part stays
    #[verifier::external_body]
    pub fn next_back(&mut self) -> (r: Option<A>)
        requires old(self).forever().is_none(),
        ensures
            final(self).forever().is_none(),
            old(self).seq().len() == 0 ==> r.is_none() && final(self).seq() == old(self).seq(),
            old(self).seq().len() > 0 ==> r == Some(old(self).seq().last()) && final(self).seq() == old(self).seq().drop_last(),
    { unimplemented!() }
    // Iterator::size_hint: the upper bound is what the iterator announces (it may be loose for Filter-like adaptors)
    #[verifier::external_body]
    pub fn size_hint(&self) -> (r: (usize, Option<usize>))
        ensures r.1 == (match self.announced() { Some(a) => Some(a as usize), None => None::<usize> }),
    { unimplemented!() }
    // itertools::Itertools::tuple_windows::<(A, A)>: consecutive pairs
    #[verifier::external_body]
    pub fn tuple_windows(self) -> (r: It<(A, A)>)
        requires self.forever().is_none(),
        ensures r.seq() == windows2(self.seq()), r.forever().is_none(),
    { unimplemented!() }
    // Iterator::chain with a Vec argument (IntoIterator)
    #[verifier::external_body]
    pub fn chain_vec(self, o: Vec<A>) -> (r: It<A>)
        requires self.forever().is_none(),
        ensures r.seq() == self.seq() + o@, r.forever().is_none(),
    { unimplemented!() }
    // Iterator::collect::<Vec<_>>()
    #[verifier::external_body]
    pub fn collect_vec(self) -> (r: Vec<A>)
        requires self.forever().is_none(),
        ensures r@ == self.seq(),
    { unimplemented!() }
}
impl<T: IsNone> It<T> {
    // `.map(IsNone::unwrap)`: every element is unwrapped, so every element must be non-null
    #[verifier::external_body]
    pub fn map_unwrap(self) -> (r: It<T::Inner>)
        requires forall|i: int| 0 <= i < self.seq().len() ==> (#[trigger] self.seq()[i]).opt().is_some(),      // unwrap_of_null
        ensures
            r.seq() == Seq::new(self.seq().len(), |i: int| self.seq()[i].opt().unwrap()),
            r.forever().is_none() == self.forever().is_none(), r.announced() == self.announced(), r.trusted() == self.trusted(),
            self.forever().is_none() ==> r.forever().is_none(),
    { unimplemented!() }
}
pub trait VecTIter<A> {
    fn titer(&self) -> (it: It<A>);
}
impl<A: Copy> VecTIter<A> for Vec<A> {
    #[verifier::external_body]
    fn titer(&self) -> (it: It<A>)
        ensures it.seq() == self@, it.announced() == Some(self@.len()), it.trusted(), it.forever().is_none(),
    { unimplemented!() }
}
#[verifier::external_body]
pub fn vec_from_array<A, const N: usize>(a: [A; N]) -> (v: Vec<A>)
    ensures v@ == a@,
{ unimplemented!() }
// Box::new(iterator) as Box<dyn TrustedLen>: the same iterator (R12: `Box::new(` -> `boxed(`)
pub fn boxed<A>(it: It<A>) -> (r: It<A>) ensures r == it { it }
