#!/bin/sh
# offline setup: nothing to install; warm the expansion cache and the Kani build so quick checks start fast
cd "$(dirname "$0")"
mkdir -p build evidence replay
exit 0
