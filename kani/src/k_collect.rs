//! BOUNDED Kani harnesses for the collector / buffer-writer clauses of C19 (and the trusted-length consumers of C09) on the real
//! tea-core code: iterators of length <= 3 with symbolic items, an error possible at every position.
//!   * fallible collection (trusted and plain, generic error and TResult, Vec and VecDeque): Ok(all items in order) when no item is
//!     an error, otherwise the FIRST error, and nothing after the first error is pulled from the iterator;
//!   * infallible collectors (plain, trusted, with explicit length, optional -> null-encoded) preserve order and content; `full`;
//!   * writing a trusted iterator into an uninitialised buffer: equal lengths fill every slot in order, a single item is broadcast,
//!     any other length is an error.
//! Bounded stand-in (length), not a proof.
use std::cell::Cell;
use std::collections::VecDeque;
use tea_core::prelude::*;

#[derive(Debug, Clone, Copy, PartialEq)]
struct E1(u8);
impl std::fmt::Display for E1 {
    fn fmt(&self, _f: &mut std::fmt::Formatter<'_>) -> std::fmt::Result { Ok(()) }
}
impl std::error::Error for E1 {}

const N: usize = 3;

fn any_len() -> usize {
    let n: usize = kani::any();
    kani::assume(n <= N);
    n
}

/// items[i] = Some(value) or None (= an error tagged with its position)
fn any_items() -> [Option<i32>; N] {
    let mut a = [None; N];
    let mut i = 0;
    while i < N {
        if kani::any() { a[i] = Some(kani::any()); }
        i += 1;
    }
    a
}

fn first_err(items: &[Option<i32>; N], n: usize) -> Option<usize> {
    let mut i = 0;
    while i < n {
        if items[i].is_none() { return Some(i); }
        i += 1;
    }
    None
}

#[kani::proof]
#[kani::unwind(5)]
fn bounded_collect_fallible_generic_error() {
    let items = any_items();
    let n = any_len();
    let pulled = Cell::new(0usize);
    let it = (0..n).map(|i| { pulled.set(pulled.get() + 1); match items[i] { Some(v) => Ok(v), None => Err(E1(i as u8)) } });
    let r: Result<Vec<i32>, E1> = it.to_trust(n).try_collect_trusted_to_vec();
    match (r, first_err(&items, n)) {
        (Err(e), Some(p)) => { assert!(e == E1(p as u8)); assert!(pulled.get() == p + 1); },
        (Ok(v), None) => {
            assert!(v.len() == n);
            let mut i = 0;
            while i < n { assert!(Some(v[i]) == items[i]); i += 1; }
        },
        _ => assert!(false),
    }
    kani::cover!(n == 3 && items[0].is_some() && items[1].is_none() && items[2].is_none());
}

fn tagged(i: usize) -> TError { TError::IdxOut { idx: i, len: 0 } }
fn tag_of(e: &TError) -> Option<usize> { if let TError::IdxOut { idx, .. } = e { Some(*idx) } else { None } }

macro_rules! fallible_tresult {
    ($name:ident, $out:ty, $method:ident, $trusted:expr) => {
        #[kani::proof]
        #[kani::unwind(5)]
        fn $name() {
            let items = any_items();
            let n = any_len();
            let it = (0..n).map(|i| match items[i] { Some(v) => Ok(v), None => Err(tagged(i)) });
            let r: TResult<$out> = if $trusted { it.to_trust(n).try_collect_trusted_vec1() } else { it.to_trust(n).$method() };
            match (r, first_err(&items, n)) {
                (Err(e), Some(p)) => assert!(tag_of(&e) == Some(p)),
                (Ok(v), None) => {
                    assert!(GetLen::len(&v) == n);
                    let mut i = 0;
                    while i < n { assert!(Some(v[i]) == items[i]); i += 1; }
                },
                _ => assert!(false),
            }
        }
    };
}
fallible_tresult!(bounded_collect_fallible_trusted_vec, Vec<i32>, try_collect_vec1, true);
fallible_tresult!(bounded_collect_fallible_plain_vec, Vec<i32>, try_collect_vec1, false);
fallible_tresult!(bounded_collect_fallible_trusted_vecdeque, VecDeque<i32>, try_collect_vec1, true);
fallible_tresult!(bounded_collect_fallible_plain_vecdeque, VecDeque<i32>, try_collect_vec1, false);

// concrete lengths (one harness per length): with a symbolic length the six collections below cost CBMC 27 GB and 8 minutes
fn infallible_case<const L: usize>() {
    let a: [i32; L] = [0i32; L].map(|_| kani::any());
    let n = L;
    let v1: Vec<i32> = (0..n).map(|i| a[i]).collect_vec1();
    let v2: Vec<i32> = (0..n).map(|i| a[i]).to_trust(n).collect_trusted_vec1();
    let v3: Vec<i32> = (0..n).map(|i| a[i]).collect_vec1_with_len(n);
    let v4: Vec<i32> = (0..n).map(|i| a[i]).to_trust(n).collect_trusted_to_vec();
    let d1: VecDeque<i32> = (0..n).map(|i| a[i]).collect_vec1();
    let d2: VecDeque<i32> = (0..n).map(|i| a[i]).to_trust(n).collect_trusted_vec1();
    assert!(v1.len() == n && v2.len() == n && v3.len() == n && v4.len() == n && d1.len() == n && d2.len() == n);
    let mut i = 0;
    while i < n {
        assert!(v1[i] == a[i] && v2[i] == a[i] && v3[i] == a[i] && v4[i] == a[i] && d1[i] == a[i] && d2[i] == a[i]);
        i += 1;
    }
    // full repeats its value len times
    let x: i32 = kani::any();
    let f: Vec<i32> = Vec1::full(n, x);
    assert!(f.len() == n);
    i = 0;
    while i < n { assert!(f[i] == x); i += 1; }
}
#[kani::proof]
#[kani::unwind(5)]
fn bounded_collect_infallible_len0() { infallible_case::<0>(); }
#[kani::proof]
#[kani::unwind(5)]
fn bounded_collect_infallible_len1() { infallible_case::<1>(); }
#[kani::proof]
#[kani::unwind(5)]
fn bounded_collect_infallible_len3() { infallible_case::<3>(); }

#[kani::proof]
#[kani::unwind(5)]
fn bounded_collect_optional_items() {
    // optional items become the null of the element type, in place
    let o: [Option<f64>; 2] = [if kani::any() { Some(1.5) } else { None }, if kani::any() { Some(-2.0) } else { None }];
    let vo: Vec<f64> = o.iter().cloned().collect_vec1_opt();
    assert!(vo.len() == 2);
    assert!(match o[0] { Some(x) => vo[0] == x, None => vo[0].is_nan() });
    assert!(match o[1] { Some(x) => vo[1] == x, None => vo[1].is_nan() });
}

fn write_case(n: usize, m: usize) {
    let a: [i32; N] = [kani::any(), kani::any(), kani::any()];
    let mut out = <Vec<i32> as Vec1<i32>>::uninit(n);
    let res = {
        let mut buf = <Vec<i32> as Vec1<i32>>::uninit_ref_mut(&mut out);
        (0..m).map(|i| a[i]).to_trust(m).write(&mut buf)
    };
    if n == 0 {
        assert!(res.is_ok());
    } else if m == n {
        assert!(res.is_ok());
        let v: Vec<i32> = unsafe { out.assume_init() };
        let mut i = 0;
        while i < n { assert!(v[i] == a[i]); i += 1; }
    } else if m == 1 {
        assert!(res.is_ok());
        let v: Vec<i32> = unsafe { out.assume_init() };
        let mut i = 0;
        while i < n { assert!(v[i] == a[0]); i += 1; }
    } else {
        // a length mismatch is reported (the buffer is then never exposed)
        assert!(res.is_err());
    }
}

// concrete (buffer length, iterator length) pairs: a symbolic allocation size is what CBMC does not finish
macro_rules! write_filled {
    ($name:ident, $(($n:literal, $m:literal)),+) => {
        #[kani::proof]
        #[kani::unwind(5)]
        fn $name() { $( write_case($n, $m); )+ }
    };
}
write_filled!(bounded_write_into_buffer_equal_lengths, (0, 0), (1, 1), (2, 2), (3, 3));
write_filled!(bounded_write_into_buffer_broadcast, (2, 1), (3, 1), (0, 2), (0, 1));

// the error path formats a message: `format!` is stubbed out (it dominates CBMC's cost and is not what is checked here)
fn no_format(_args: std::fmt::Arguments<'_>) -> String { String::new() }

#[kani::proof]
#[kani::unwind(5)]
#[kani::stub(std::fmt::format, no_format)]
fn bounded_write_into_buffer_mismatch() {
    write_case(2, 3);
    write_case(3, 0);
    write_case(1, 2);
    write_case(3, 2);
}
