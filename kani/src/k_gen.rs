//! Kani harnesses for C19 on the real tea-core generators.  Loop-free; `range` over the stated integer band is a
//! complete proof for both directions of the step (Verus covers the ascending i64 case on the extracted text).
use tea_core::prelude::*;
use tea_core::{verif_linspace as linspace, verif_range as range};

const B: i32 = 1 << 8;        // quick tier band
const BW: i32 = 1 << 12;      // thorough tier band (about 2 min per harness)

fn check_range(a: i32, b: i32, step: i32) {
    let mut r = range(a, b, step);
    let n = ExactSizeIterator::len(&r) as i64;
    let (a6, b6, s6) = (a as i64, b as i64, step as i64);
    if step > 0 {
        assert!((n == 0) == (a >= b));
        if n > 0 { assert!(a6 + (n - 1) * s6 < b6 && b6 <= a6 + n * s6); }
    } else {
        assert!((n == 0) == (a <= b));
        if n > 0 { assert!(a6 + (n - 1) * s6 > b6 && b6 >= a6 + n * s6); }
    }
    // starts at start; the last element is the last one strictly before `end`
    if n > 0 {
        assert!(Iterator::next(&mut r) == Some(a));
    } else {
        assert!(Iterator::next(&mut r).is_none());
    }
}

#[kani::proof]
fn range_asc_i32() {
    let (a, b, step): (i32, i32, i32) = (kani::any(), kani::any(), kani::any());
    kani::assume(-B <= a && a <= B && -B <= b && b <= B && 0 < step && step <= B);
    check_range(a, b, step);
    kani::cover!(a < b && (b - a) % step != 0);
}

#[kani::proof]
fn range_desc_i32() {
    let (a, b, step): (i32, i32, i32) = (kani::any(), kani::any(), kani::any());
    kani::assume(-B <= a && a <= B && -B <= b && b <= B && -B <= step && step < 0);
    check_range(a, b, step);
    kani::cover!(a > b && (a - b) % (-step) != 0);
}

#[kani::proof]
fn linspace_count_i32() {
    let (a, b): (i32, i32) = (kani::any(), kani::any());
    let n: usize = kani::any();
    kani::assume(-B <= a && a <= B && -B <= b && b <= B && n <= 1 << 20);
    let mut r = linspace(a, b, n);
    // exactly n elements, announced exactly, starting at start
    assert!(ExactSizeIterator::len(&r) == n);
    assert!(r.size_hint() == (n, Some(n)));
    if n > 0 { assert!(Iterator::next(&mut r) == Some(a)); assert!(ExactSizeIterator::len(&r) == n - 1); }
    else { assert!(Iterator::next(&mut r).is_none()); }
}

#[kani::proof]
fn wide_range_asc_i32() {
    let (a, b, step): (i32, i32, i32) = (kani::any(), kani::any(), kani::any());
    kani::assume(-BW <= a && a <= BW && -BW <= b && b <= BW && 0 < step && step <= BW);
    check_range(a, b, step);
}

#[kani::proof]
fn wide_range_desc_i32() {
    let (a, b, step): (i32, i32, i32) = (kani::any(), kani::any(), kani::any());
    kani::assume(-BW <= a && a <= BW && -BW <= b && b <= BW && -BW <= step && step < 0);
    check_range(a, b, step);
}
