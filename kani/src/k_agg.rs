//! BOUNDED Kani harnesses (C11 / C08 backstop) on the real tea-core aggregations: every series of length N over a small
//! element domain, through the unmodified iterator pipeline.  These are a bounded stand-in (length bound N), never counted as
//! proofs; the unbounded argument is the Verus `agg` / `aggb` units.  Their purpose is a concrete counterexample when a
//! change moves the code outside what the contracts can follow.
use tea_core::prelude::*;

const N: usize = 4;

fn any_ob() -> Option<bool> { if kani::any() { Some(kani::any()) } else { None } }
fn any_small() -> Option<i32> { if kani::any() { let v: i8 = kani::any(); kani::assume(-3 <= v && v <= 3); Some(v as i32) } else { None } }

#[kani::proof]
#[kani::unwind(6)]
fn bounded_agg_vany_vall() {
    let a: [Option<bool>; N] = [any_ob(), any_ob(), any_ob(), any_ob()];
    let n: usize = kani::any();
    kani::assume(n <= N);
    let s = &a[..n];
    let mut any_t = false;
    let mut all_t = true;
    for x in s { if *x == Some(true) { any_t = true; } if *x == Some(false) { all_t = false; } }
    assert!(s.iter().cloned().vany() == any_t);
    assert!(s.iter().cloned().vall() == all_t);
}

#[kani::proof]
#[kani::unwind(6)]
fn bounded_agg_counts_sum_extrema() {
    let a: [Option<i32>; N] = [any_small(), any_small(), any_small(), any_small()];
    let n: usize = kani::any();
    kani::assume(n <= N);
    let s = &a[..n];
    let (mut cnt, mut sum, mut mx, mut mn, mut amx, mut amn) = (0usize, 0i32, None::<i32>, None::<i32>, None::<usize>, None::<usize>);
    let mut i = 0;
    for x in s {
        if let Some(v) = *x {
            cnt += 1; sum += v;
            if mx.map_or(true, |m| v > m) { mx = Some(v); amx = Some(i); }
            if mn.map_or(true, |m| v < m) { mn = Some(v); amn = Some(i); }
        }
        i += 1;
    }
    assert!(s.iter().cloned().count_valid() == cnt);
    assert!(s.iter().cloned().count_none() == n - cnt);
    assert!(s.iter().cloned().vsum() == if cnt > 0 { Some(sum) } else { None });
    assert!(s.iter().cloned().vmax() == mx);
    assert!(s.iter().cloned().vmin() == mn);
    assert!(s.iter().cloned().vargmax() == amx);
    assert!(s.iter().cloned().vargmin() == amn);
    assert!(s.iter().cloned().vfirst() == s.iter().cloned().find(|x| x.is_some()));
    assert!(s.iter().cloned().vlast() == s.iter().rev().cloned().find(|x| x.is_some()));
}

// ---- C08, bounded: the NaN encoding and the None encoding of one logical series give the same results, and an inserted
// null changes nothing.  Series of length <= 3 over {null, -2..2} (exactly representable floats).
// (vvar / vstd are not compared here: Kani over-approximates `f64::powi` by a nondeterministic value, so two identical calls
// may differ in the model; their agreement is the Verus `agg` contract over vals().)
fn same(a: f64, b: f64) -> bool { (a.is_nan() && b.is_nan()) || a == b }
fn same_opt(a: Option<f64>, b: Option<f64>) -> bool {
    match (a, b) { (None, None) => true, (Some(x), Some(y)) => same(x, y), _ => false }
}

#[kani::proof]
#[kani::unwind(6)]
fn bounded_nulls_nan_none_agree() {
    const M: usize = 3;
    let mut f: [f64; M + 1] = [f64::NAN; M + 1];
    let mut o: [Option<f64>; M + 1] = [None; M + 1];
    let mut o_ins: [Option<f64>; M + 1] = [None; M + 1];
    let n: usize = kani::any();
    kani::assume(n <= M);
    let p: usize = kani::any();          // where the extra null goes
    kani::assume(p <= n);
    let mut i = 0;
    while i < n {
        if kani::any() {
            let v: i8 = kani::any();
            kani::assume(-2 <= v && v <= 2);
            f[i] = v as f64;
            o[i] = Some(v as f64);
        }
        o_ins[if i < p { i } else { i + 1 }] = o[i];
        i += 1;
    }
    let (fs, os, is) = (&f[..n], &o[..n], &o_ins[..n + 1]);
    // the two encodings
    assert!(fs.titer().count_valid() == os.titer().count_valid());
    assert!(same_opt(fs.titer().vsum(), os.titer().vsum()));
    assert!(same(fs.titer().vmean(), os.titer().vmean()));
    assert!(same_opt(fs.titer().vmax(), os.titer().vmax()));
    assert!(same_opt(fs.titer().vmin(), os.titer().vmin()));
    // an inserted null
    assert!(is.titer().count_valid() == os.titer().count_valid());
    assert!(same_opt(is.titer().vsum(), os.titer().vsum()));
    assert!(same(is.titer().vmean(), os.titer().vmean()));
    assert!(same_opt(is.titer().vmax(), os.titer().vmax()));
    assert!(same_opt(is.titer().vmin(), os.titer().vmin()));
}

// ---- NOT REGISTERED in any harness group: CBMC did not finish this harness within 15 minutes (std's select_nth_unstable_by),
// kept for reference.  C08 / C12, bounded: quantiles ignore nulls.  Two integer-valued elements and one inserted null (the smallest input on
// which the upper-half selection has a head and a pivot); q in {0.25, 0.75}, methods Lower and Higher.
#[kani::proof]
#[kani::unwind(6)]
fn slow_quantile_ignores_nulls() {
    use tea_agg::*;
    let a: [i32; 2] = [kani::any(), kani::any()];
    kani::assume(-4 <= a[0] && a[0] <= 4 && -4 <= a[1] && a[1] <= 4);
    let p: usize = kani::any();
    kani::assume(p <= 2);
    let clean: [Option<i32>; 2] = [Some(a[0]), Some(a[1])];
    let mut padded: [Option<i32>; 3] = [None; 3];
    padded[if p == 0 { 1 } else { 0 }] = Some(a[0]);
    padded[if p == 2 { 1 } else { 2 }] = Some(a[1]);
    let (lo, hi) = if a[0] <= a[1] { (a[0] as f64, a[1] as f64) } else { (a[1] as f64, a[0] as f64) };
    let upper: bool = kani::any();
    let q = if upper { 0.75 } else { 0.25 };
    // with two valid elements both quartiles lie strictly between them: Lower is the smaller, Higher the larger
    assert!(same(clean.vquantile(q, QuantileMethod::Lower).unwrap(), lo));
    assert!(same(padded.vquantile(q, QuantileMethod::Lower).unwrap(), lo));
    assert!(same(clean.vquantile(q, QuantileMethod::Higher).unwrap(), hi));
    assert!(same(padded.vquantile(q, QuantileMethod::Higher).unwrap(), hi));
}

// ---- C12, bounded: percentile of a score (tea-agg vpercentile_of; not under a Verus contract) against the documented
// proportions: strict = #smaller / n, weak = #smaller-or-equal / n, rank = average percentage rank of the matching elements
// (#smaller / n when nothing matches).  Every series of length <= 4 over {null, -2..2}, every score in -3..=3 or null.
#[kani::proof]
#[kani::unwind(6)]
fn bounded_order_percentile_of() {
    use tea_agg::*;
    let a: [Option<i32>; N] = [any_small(), any_small(), any_small(), any_small()];
    let n: usize = kani::any();
    kani::assume(n <= N);
    let s = &a[..n];
    let score = any_small();
    let (mut less, mut eq, mut tot) = (0usize, 0usize, 0usize);
    for x in s { if let Some(v) = *x { tot += 1; if let Some(sc) = score { if v < sc { less += 1; } else if v == sc { eq += 1; } } } }
    let strict = s.iter().cloned().vpercentile_of(score, PercentileOfMethod::Strict);
    let weak = s.iter().cloned().vpercentile_of(score, PercentileOfMethod::Weak);
    let rank = s.iter().cloned().vpercentile_of(score, PercentileOfMethod::Rank);
    if score.is_none() || tot == 0 {
        assert!(strict.is_nan() && weak.is_nan() && rank.is_nan());
    } else {
        let t = tot as f64;
        assert!(strict * t == less as f64);
        assert!(weak * t == (less + eq) as f64);
        // 2 * rank * n == 2 * #smaller + (#equal + 1) when something matches, 2 * #smaller otherwise
        let want2 = if eq == 0 { 2 * less } else { 2 * less + eq + 1 };
        let d = 2.0 * rank * t - want2 as f64;
        assert!(d < 1e-9 && d > -1e-9);
    }
}

// ---- masked sum / mean (tea-agg lib.rs n_vsum_filter / n_sum_filter / vmean_filter): only the non-null elements whose mask entry is
// a non-null true count; C11 / C08 (a null in the data or in the mask is transparent)
#[kani::proof]
#[kani::unwind(6)]
fn bounded_agg_masked_sum_mean() {
    use tea_agg::*;
    let a: [Option<i32>; N] = [any_small(), any_small(), any_small(), any_small()];
    let m: [Option<bool>; N] = [any_ob(), any_ob(), any_ob(), any_ob()];
    let n: usize = kani::any();
    kani::assume(n <= N);
    let (mut cnt, mut sum) = (0usize, 0i32);
    let mut i = 0;
    while i < n {
        if let (Some(v), Some(true)) = (a[i], m[i]) { cnt += 1; sum += v; }
        i += 1;
    }
    let (c1, s1) = a[..n].iter().cloned().n_vsum_filter(m[..n].iter().cloned());
    assert!(c1 == cnt && s1 == sum);
    let s2 = a[..n].iter().cloned().n_sum_filter(m[..n].iter().cloned());
    assert!(s2 == if cnt > 0 { Some(sum) } else { None });
    let mp: usize = kani::any();
    kani::assume(mp <= N);
    let mean = a[..n].iter().cloned().vmean_filter(m[..n].iter().cloned(), mp);
    if cnt >= mp && cnt > 0 {
        let d = mean * cnt as f64 - sum as f64;
        assert!(!mean.is_nan() && d < 1e-9 && d > -1e-9);
    } else if cnt < mp {
        assert!(mean.is_nan());
    }
}
