//! BOUNDED Kani harnesses (C11 / C08 backstop) on the real tea-core aggregations: every series of length N over a small
//! element domain, through the unmodified iterator pipeline.  These are a bounded stand-in (length bound N), never counted as
//! proofs; the unbounded argument is the Verus `agg` / `aggb` units.  Their purpose is a concrete counterexample when a
//! change moves the code outside what the contracts can follow.
use tea_core::prelude::*;

const N: usize = 4;

fn any_ob() -> Option<bool> { if kani::any() { Some(kani::any()) } else { None } }
fn any_small() -> Option<i32> { if kani::any() { let v: i8 = kani::any(); kani::assume(-3 <= v && v <= 3); Some(v as i32) } else { None } }

#[kani::proof]
#[kani::unwind(6)]
fn bounded_vany_vall() {
    let a: [Option<bool>; N] = [any_ob(), any_ob(), any_ob(), any_ob()];
    let n: usize = kani::any();
    kani::assume(n <= N);
    let s = &a[..n];
    let mut any_t = false;
    let mut all_t = true;
    for x in s { if *x == Some(true) { any_t = true; } if *x == Some(false) { all_t = false; } }
    assert!(s.iter().cloned().vany() == any_t);
    assert!(s.iter().cloned().vall() == all_t);
}

#[kani::proof]
#[kani::unwind(6)]
fn bounded_counts_sum_extrema() {
    let a: [Option<i32>; N] = [any_small(), any_small(), any_small(), any_small()];
    let n: usize = kani::any();
    kani::assume(n <= N);
    let s = &a[..n];
    let (mut cnt, mut sum, mut mx, mut mn, mut amx, mut amn) = (0usize, 0i32, None::<i32>, None::<i32>, None::<usize>, None::<usize>);
    let mut i = 0;
    for x in s {
        if let Some(v) = *x {
            cnt += 1; sum += v;
            if mx.map_or(true, |m| v > m) { mx = Some(v); amx = Some(i); }
            if mn.map_or(true, |m| v < m) { mn = Some(v); amn = Some(i); }
        }
        i += 1;
    }
    assert!(s.iter().cloned().count_valid() == cnt);
    assert!(s.iter().cloned().count_none() == n - cnt);
    assert!(s.iter().cloned().vsum() == if cnt > 0 { Some(sum) } else { None });
    assert!(s.iter().cloned().vmax() == mx);
    assert!(s.iter().cloned().vmin() == mn);
    assert!(s.iter().cloned().vargmax() == amx);
    assert!(s.iter().cloned().vargmin() == amn);
    assert!(s.iter().cloned().vfirst() == s.iter().cloned().find(|x| x.is_some()));
    assert!(s.iter().cloned().vlast() == s.iter().rev().cloned().find(|x| x.is_some()));
}
