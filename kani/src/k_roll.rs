//! BOUNDED Kani backstop for C01 / C05 / C06 on the real tea-rolling code (Vec backend, returned path): the null-aware rolling
//! sum and mean of every NaN-encoded series of length 4 over {null, -2..2}, every window 1..=5 and
//! every explicit min_periods 0..=w, against a from-scratch evaluation of each window.  Values are small integers, so the sums
//! are exact in floating point; means are compared after multiplying back, within 1e-9.
//! A bounded stand-in next to the Verus feat units, never counted as proof.
use tea_core::prelude::*;
use tea_rolling::*;

const N: usize = 4;

fn any_series() -> [f64; N] {
    let mut a = [f64::NAN; N];
    let mut i = 0;
    while i < N {
        if kani::any() { let v: i8 = kani::any(); kani::assume(-2 <= v && v <= 2); a[i] = v as f64; }
        i += 1;
    }
    a
}

#[kani::proof]
#[kani::unwind(7)]
fn bounded_rolling_sum_mean() {
    let a = any_series();
    let w: usize = kani::any();
    kani::assume(1 <= w && w <= N + 1);
    let mp: usize = kani::any();
    kani::assume(mp <= w);
    let v: Vec<f64> = a.to_vec();
    let s: Vec<f64> = v.ts_vsum(w, Some(mp));
    let m: Vec<f64> = v.ts_vmean(w, Some(mp));
    assert!(s.len() == N && m.len() == N);                      // one output per input
    let mut i = 0;
    while i < N {
        let lo = if i + 1 >= w { i + 1 - w } else { 0 };
        let (mut cnt, mut sum) = (0usize, 0.0f64);
        let mut j = lo;
        while j <= i { if !a[j].is_nan() { cnt += 1; sum += a[j]; } j += 1; }
        if cnt >= mp {
            // sum_spec: non-null (0 for an all-null window with min_periods 0)
            assert!(s[i] == sum);
            if cnt > 0 { let d = m[i] * (cnt as f64) - sum; assert!(!m[i].is_nan() && d < 1e-9 && d > -1e-9); }
        } else {
            assert!(s[i].is_nan() && m[i].is_nan());
        }
        i += 1;
    }
}

// ---- rolling normalisations (tea-rolling norm.rs; not under a Verus contract): mask and value of ts_vminmaxnorm against a
// from-scratch evaluation of each window, length 4
#[kani::proof]
#[kani::unwind(7)]
fn bounded_rolling_c03_minmaxnorm() {
    let a = any_series();
    let w: usize = kani::any();
    kani::assume(1 <= w && w <= N + 1);
    let mp: usize = kani::any();
    kani::assume(mp <= w);
    let v: Vec<f64> = a.to_vec();
    let r: Vec<f64> = v.ts_vminmaxnorm(w, Some(mp));
    assert!(r.len() == N);
    let mut i = 0;
    while i < N {
        let lo = if i + 1 >= w { i + 1 - w } else { 0 };
        let (mut cnt, mut mn, mut mx) = (0usize, f64::INFINITY, f64::NEG_INFINITY);
        let mut j = lo;
        while j <= i { if !a[j].is_nan() { cnt += 1; if a[j] < mn { mn = a[j]; } if a[j] > mx { mx = a[j]; } } j += 1; }
        if a[i].is_nan() || cnt < mp || cnt == 0 || mx == mn {
            assert!(r[i].is_nan());                     // null below min_periods, for a null element, or with zero spread
        } else {
            let d = r[i] * (mx - mn) - (a[i] - mn);
            assert!(!r[i].is_nan() && d < 1e-9 && d > -1e-9);
        }
        i += 1;
    }
}

// ---- rolling rank (tea-rolling cmp.rs ts_vrank; not under a Verus contract): exact average rank of the current element among the
// non-null elements of its window, ascending / descending, optionally as a fraction; null for a null element or below min_periods
#[kani::proof]
#[kani::unwind(7)]
fn bounded_rolling_c03_rank() {
    let a = any_series();
    let w: usize = kani::any();
    kani::assume(1 <= w && w <= N + 1);
    let mp: usize = kani::any();
    kani::assume(mp <= w);
    let (pct, rev): (bool, bool) = (kani::any(), kani::any());
    let v: Vec<f64> = a.to_vec();
    let r: Vec<f64> = v.ts_vrank(w, Some(mp), pct, rev);
    assert!(r.len() == N);
    let mut i = 0;
    while i < N {
        let lo = if i + 1 >= w { i + 1 - w } else { 0 };
        let (mut cnt, mut less, mut eq) = (0usize, 0usize, 0usize);
        let mut j = lo;
        while j <= i {
            if !a[j].is_nan() {
                cnt += 1;
                if j < i && !a[i].is_nan() { if a[j] < a[i] { less += 1; } else if a[j] == a[i] { eq += 1; } }
            }
            j += 1;
        }
        if a[i].is_nan() || cnt < mp {
            assert!(r[i].is_nan());
        } else {
            // average rank: 1 + #smaller + #equal / 2; descending: n + 1 - that
            let asc = 1.0 + less as f64 + 0.5 * eq as f64;
            let want = if !rev { asc } else { (cnt + 1) as f64 - asc };
            if pct { let d = r[i] * cnt as f64 - want; assert!(d < 1e-9 && d > -1e-9); } else { assert!(r[i] == want); }
        }
        i += 1;
    }
}

// the same normalisation on an INTEGER element type (the quotient must not be formed in the element type)
#[kani::proof]
#[kani::unwind(7)]
fn bounded_rolling_c03_minmaxnorm_int() {
    let mut a: [Option<i32>; N] = [None; N];
    let mut i = 0;
    while i < N { if kani::any() { let v: i8 = kani::any(); kani::assume(-3 <= v && v <= 3); a[i] = Some(v as i32); } i += 1; }
    let w: usize = kani::any();
    kani::assume(1 <= w && w <= N + 1);
    let mp: usize = kani::any();
    kani::assume(mp <= w);
    let v: Vec<Option<i32>> = a.to_vec();
    let r: Vec<f64> = v.ts_vminmaxnorm(w, Some(mp));
    assert!(r.len() == N);
    i = 0;
    while i < N {
        let lo = if i + 1 >= w { i + 1 - w } else { 0 };
        let (mut cnt, mut mn, mut mx) = (0usize, i32::MAX, i32::MIN);
        let mut j = lo;
        while j <= i { if let Some(x) = a[j] { cnt += 1; if x < mn { mn = x; } if x > mx { mx = x; } } j += 1; }
        match a[i] {
            Some(x) if cnt >= mp && cnt > 0 && mx != mn => {
                let d = r[i] * (mx - mn) as f64 - (x - mn) as f64;
                assert!(!r[i].is_nan() && d < 1e-9 && d > -1e-9);
            },
            _ => assert!(r[i].is_nan()),
        }
        i += 1;
    }
}

// ---- rolling extrema and arg-extrema (tea-rolling cmp.rs; proved by the Verus unit `cmp` - this is the bounded backstop that
// still decides when a change leaves the contracts' anchors): least / greatest non-null element of the window, 1-based offset of
// the MOST RECENT position holding it; null below min_periods; nulls transparent (C03, C06, C08)
#[kani::proof]
#[kani::unwind(7)]
fn bounded_rolling_c03_extrema() {
    let a = any_series();
    let w: usize = kani::any();
    kani::assume(1 <= w && w <= N + 1);
    let mp: usize = kani::any();
    kani::assume(mp <= w);
    let v: Vec<f64> = a.to_vec();
    let rmin: Vec<f64> = v.ts_vmin(w, Some(mp));
    let rmax: Vec<f64> = v.ts_vmax(w, Some(mp));
    let amin: Vec<f64> = v.ts_vargmin(w, Some(mp));
    let amax: Vec<f64> = v.ts_vargmax(w, Some(mp));
    assert!(rmin.len() == N && rmax.len() == N && amin.len() == N && amax.len() == N);
    let mut i = 0;
    while i < N {
        let lo = if i + 1 >= w { i + 1 - w } else { 0 };
        let (mut cnt, mut mn, mut mx, mut imn, mut imx) = (0usize, f64::INFINITY, f64::NEG_INFINITY, 0usize, 0usize);
        let mut j = lo;
        while j <= i {
            if !a[j].is_nan() {
                cnt += 1;
                if a[j] <= mn { mn = a[j]; imn = j - lo + 1; }
                if a[j] >= mx { mx = a[j]; imx = j - lo + 1; }
            }
            j += 1;
        }
        if cnt < mp {
            assert!(rmin[i].is_nan() && rmax[i].is_nan() && amin[i].is_nan() && amax[i].is_nan());
        } else if cnt > 0 {
            // (an all-null window with min_periods 0 is left unspecified, as in the Verus contract)
            assert!(rmin[i] == mn && rmax[i] == mx);
            assert!(amin[i] == imn as f64 && amax[i] == imx as f64);
        }
        i += 1;
    }
}
