//! BOUNDED Kani backstop for C01 / C05 / C06 on the real tea-rolling code (Vec backend, returned path): the null-aware rolling
//! sum and mean of every NaN-encoded series of length 4 over {null, -2..2}, every window 1..=5 and
//! every explicit min_periods 0..=w, against a from-scratch evaluation of each window.  Values are small integers, so the sums
//! are exact in floating point; means are compared after multiplying back, within 1e-9.
//! A bounded stand-in next to the Verus feat units, never counted as proof.
use tea_core::prelude::*;
use tea_rolling::*;

const N: usize = 4;

fn any_series() -> [f64; N] {
    let mut a = [f64::NAN; N];
    let mut i = 0;
    while i < N {
        if kani::any() { let v: i8 = kani::any(); kani::assume(-2 <= v && v <= 2); a[i] = v as f64; }
        i += 1;
    }
    a
}

#[kani::proof]
#[kani::unwind(7)]
fn bounded_rolling_sum_mean() {
    let a = any_series();
    let w: usize = kani::any();
    kani::assume(1 <= w && w <= N + 1);
    let mp: usize = kani::any();
    kani::assume(mp <= w);
    let v: Vec<f64> = a.to_vec();
    let s: Vec<f64> = v.ts_vsum(w, Some(mp));
    let m: Vec<f64> = v.ts_vmean(w, Some(mp));
    assert!(s.len() == N && m.len() == N);                      // one output per input
    let mut i = 0;
    while i < N {
        let lo = if i + 1 >= w { i + 1 - w } else { 0 };
        let (mut cnt, mut sum) = (0usize, 0.0f64);
        let mut j = lo;
        while j <= i { if !a[j].is_nan() { cnt += 1; sum += a[j]; } j += 1; }
        if cnt >= mp {
            // sum_spec: non-null (0 for an all-null window with min_periods 0)
            assert!(s[i] == sum);
            if cnt > 0 { let d = m[i] * (cnt as f64) - sum; assert!(!m[i].is_nan() && d < 1e-9 && d > -1e-9); }
        } else {
            assert!(s[i].is_nan() && m[i].is_nan());
        }
        i += 1;
    }
}

// ---- rolling normalisations (tea-rolling norm.rs; not under a Verus contract): mask and value of ts_vminmaxnorm against a
// from-scratch evaluation of each window, length 4
#[kani::proof]
#[kani::unwind(7)]
fn bounded_rolling_minmaxnorm() {
    let a = any_series();
    let w: usize = kani::any();
    kani::assume(1 <= w && w <= N + 1);
    let mp: usize = kani::any();
    kani::assume(mp <= w);
    let v: Vec<f64> = a.to_vec();
    let r: Vec<f64> = v.ts_vminmaxnorm(w, Some(mp));
    assert!(r.len() == N);
    let mut i = 0;
    while i < N {
        let lo = if i + 1 >= w { i + 1 - w } else { 0 };
        let (mut cnt, mut mn, mut mx) = (0usize, f64::INFINITY, f64::NEG_INFINITY);
        let mut j = lo;
        while j <= i { if !a[j].is_nan() { cnt += 1; if a[j] < mn { mn = a[j]; } if a[j] > mx { mx = a[j]; } } j += 1; }
        if a[i].is_nan() || cnt < mp || cnt == 0 || mx == mn {
            assert!(r[i].is_nan());                     // null below min_periods, for a null element, or with zero spread
        } else {
            let d = r[i] * (mx - mn) - (a[i] - mn);
            assert!(!r[i].is_nan() && d < 1e-9 && d > -1e-9);
        }
        i += 1;
    }
}
