//! Kani harnesses for C16 / C17 on the real tea-time code.  Loop-free, symbolic over the full i64 / i32 domains
//! unless a harness says otherwise: complete proofs of the integer-level laws.  chrono internals are reached only
//! where a NaT operand short-circuits them, or through 32-bit NaiveTime getters.
use chrono::{Duration, NaiveTime, Timelike};
use tea_dtype::{Cast, IsNone};
use tea_time::*;

const RATIO_NS_US: i64 = 1_000;
const RATIO_NS_MS: i64 = 1_000_000;
const RATIO_NS_S: i64 = 1_000_000_000;

// ---------------------------------------------------------------- C16: unit conversion
// the floor / exact-multiple laws of into_unit are proved by Verus on the extracted function (unit `time`):
// CBMC does not finish 64-bit division against a multiplicative spec (measured: > 10 min per pair).

#[kani::proof]
fn unit_identity() {
    let x: i64 = kani::any();
    assert!(DateTime::<unit::Nanosecond>::new(x).into_unit::<unit::Nanosecond>().0 == x);
    assert!(DateTime::<unit::Microsecond>::new(x).into_unit::<unit::Microsecond>().0 == x);
    assert!(DateTime::<unit::Millisecond>::new(x).into_unit::<unit::Millisecond>().0 == x);
    assert!(DateTime::<unit::Second>::new(x).into_unit::<unit::Second>().0 == x);
}

// every conversion is total (no overflow panic) wherever the result is representable: coarser -> finer for |x| <= i64::MAX / ratio,
// finer -> coarser everywhere.  (The VALUE of the conversion - the floor law - is the Verus contract of into_unit; this harness only
// needs CBMC to decide overflow checks, which it does in well under a second.)
macro_rules! unit_total {
    ($name:ident, $fine:ty, $coarse:ty, $ratio:expr) => {
        #[kani::proof]
        fn $name() {
            let x: i64 = kani::any();
            let down = DateTime::<$fine>::new(x).into_unit::<$coarse>();
            assert!(down.is_nat() == (x == i64::MIN));
            let y: i64 = kani::any();
            kani::assume(y >= -(i64::MAX / $ratio) && y <= i64::MAX / $ratio);
            let up = DateTime::<$coarse>::new(y).into_unit::<$fine>();
            assert!(!up.is_nat());
            kani::cover!(y == i64::MAX / $ratio);
        }
    };
}
unit_total!(unit_identity_total_ns_us, unit::Nanosecond, unit::Microsecond, RATIO_NS_US);
unit_total!(unit_identity_total_ns_ms, unit::Nanosecond, unit::Millisecond, RATIO_NS_MS);
unit_total!(unit_identity_total_ns_s, unit::Nanosecond, unit::Second, RATIO_NS_S);
unit_total!(unit_identity_total_us_ms, unit::Microsecond, unit::Millisecond, 1_000);
unit_total!(unit_identity_total_us_s, unit::Microsecond, unit::Second, 1_000_000);
unit_total!(unit_identity_total_ms_s, unit::Millisecond, unit::Second, 1_000);

#[kani::proof]
fn nat_optional_integer() {
    let x: i64 = kani::any();
    let d = DateTime::<unit::Millisecond>::new(x);
    assert!(d.is_nat() == !d.is_not_nat());
    assert!(d.is_nat() == (x == i64::MIN));
    // NaT <-> None
    assert!(d.into_opt_i64().is_none() == d.is_nat());
    if let Some(v) = d.into_opt_i64() { assert!(v == x); }
    let o: Option<i64> = kani::any();
    let back = DateTime::<unit::Millisecond>::from_opt_i64(o);
    assert!(back.is_nat() == (o.is_none() || o == Some(i64::MIN)));
    let c: Option<i64> = Cast::<Option<i64>>::cast(d);
    assert!(c.is_none() == d.is_nat());
    assert!(IsNone::is_none(&d) == d.is_nat());
    assert!(<DateTime<unit::Millisecond> as IsNone>::none().is_nat());
    // calendar value of NaT is None (the NaT guard precedes any chrono call)
    assert!(DateTime::<unit::Second>::nat().as_cr().is_none());
    assert!(DateTime::<unit::Nanosecond>::nat().as_cr().is_none());
    kani::cover!(d.is_nat());
    kani::cover!(!d.is_nat());
}

fn any_delta() -> TimeDelta {
    let months: i32 = kani::any();
    let n: i64 = kani::any();
    TimeDelta { months, inner: Duration::nanoseconds(n) }
}

// ---------------------------------------------------------------- C16: NaT is absorbed by every operation
#[kani::proof]
fn nat_absorbed_datetime_ops() {
    let x: i64 = kani::any();
    let d = DateTime::<unit::Microsecond>::new(x);
    let td = any_delta();
    // NaT date-time with any duration
    assert!((DateTime::<unit::Microsecond>::nat() + td).is_nat());
    assert!((DateTime::<unit::Microsecond>::nat() - td).is_nat());
    // any date-time with a NaT duration
    assert!((d + TimeDelta::nat()).is_nat());
    assert!((d - TimeDelta::nat()).is_nat());
    // difference with a NaT operand
    assert!((DateTime::<unit::Microsecond>::nat() - d).is_nat());
    assert!((d - DateTime::<unit::Microsecond>::nat()).is_nat());
}

// BOUNDED in the duration: a NaT date-time with each of a fixed list of month-free durations (whole units, sub-unit, both signs).
// Concrete durations keep a version of the operators that computes on the duration before looking at the date-time
// tractable (with a symbolic duration CBMC does not finish the divisions it would introduce: measured > 20 min).
macro_rules! nat_dt_listed {
    ($name:ident, $u:ty) => {
        #[kani::proof]
        fn $name() {
            let k: u8 = kani::any();
            let inner = match k % 6 {
                0 => Duration::seconds(1),
                1 => Duration::seconds(-1),
                2 => Duration::days(1),
                3 => Duration::microseconds(-5),
                4 => Duration::nanoseconds(1),
                _ => Duration::zero(),
            };
            let td = TimeDelta { months: 0, inner };
            assert!((DateTime::<$u>::nat() + td).is_nat());
            assert!((DateTime::<$u>::nat() - td).is_nat());
            kani::cover!(k % 6 == 1);
        }
    };
}
nat_dt_listed!(nat_absorbed_datetime_listed_durations_s, unit::Second);
nat_dt_listed!(nat_absorbed_datetime_listed_durations_us, unit::Microsecond);
nat_dt_listed!(nat_absorbed_datetime_listed_durations_ns, unit::Nanosecond);

#[kani::proof]
fn nat_absorbed_timedelta_ops() {
    let td = any_delta();
    let k: i32 = kani::any();
    assert!((-TimeDelta::nat()).is_nat());
    assert!((TimeDelta::nat() + td).is_nat());
    assert!((td + TimeDelta::nat()).is_nat());
    assert!((TimeDelta::nat() - td).is_nat());
    assert!((td - TimeDelta::nat()).is_nat());
    assert!((TimeDelta::nat() * k).is_nat());
}

#[kani::proof]
fn nat_absorbed_time_ops() {
    let t: i64 = kani::any();
    let time = Time(t);
    let n: i64 = kani::any();
    let td = TimeDelta { months: 0, inner: Duration::nanoseconds(n) };
    // a NaT duration
    assert!((time + TimeDelta::nat()).is_nat());
    assert!((time - TimeDelta::nat()).is_nat());
    // a NaT time of day
    assert!((Time::nat() + td).is_nat());
    assert!((Time::nat() - td).is_nat());
}

// ---------------------------------------------------------------- C17: time-of-day arithmetic
// Time +- TimeDelta shift / inverse laws: proved by Verus on the extracted operator bodies (unit `time`, A-CHRONO for
// Duration::num_nanoseconds); CBMC does not finish the checked 64-bit multiplications inside chrono (> 5 min).

#[kani::proof]
fn time_components_roundtrip() {
    let h: i64 = kani::any();
    let m: i64 = kani::any();
    let s: i64 = kani::any();
    let nano: i64 = kani::any();
    kani::assume(0 <= h && h < 24 && 0 <= m && m < 60 && 0 <= s && s < 60 && 0 <= nano && nano < 1_000_000_000);
    let t = Time::from_hms_nano(h, m, s, nano);
    assert!(t.0 == ((h * 3600 + m * 60 + s) * 1_000_000_000 + nano));
    // reports the same components through the calendar time type
    let cr = t.as_cr();
    assert!(cr.is_some());
    let cr = cr.unwrap();
    assert!(cr.hour() as i64 == h && cr.minute() as i64 == m && cr.second() as i64 == s && cr.nanosecond() as i64 == nano);
    // and survives the round trip
    assert!(Time::from_cr(&cr) == t);
    // the milli / micro constructors scale the sub-second part
    let sub: i64 = kani::any();
    kani::assume(0 <= sub && sub < 1000);
    assert!(Time::from_hms_milli(h, m, s, sub).0 == Time::from_hms(h, m, s).0 + sub * 1_000_000);
    assert!(Time::from_hms_micro(h, m, s, sub).0 == Time::from_hms(h, m, s).0 + sub * 1_000);
    assert!(Time::from_num_seconds_from_midnight(h * 3600 + m * 60 + s, nano) == t);
}

// ---------------------------------------------------------------- C17: durations form a group; scaling distributes
fn small_delta() -> TimeDelta {
    // operands within a range where no component can overflow (the laws are claimed "within range")
    let months: i32 = kani::any();
    let secs: i64 = kani::any();
    let nanos: i64 = kani::any();
    kani::assume(months > -100_000_000 && months < 100_000_000);
    kani::assume(secs > -1_000_000_000_000 && secs < 1_000_000_000_000);
    kani::assume(nanos > -1_000_000_000 && nanos < 1_000_000_000);
    TimeDelta { months, inner: Duration::seconds(secs) + Duration::nanoseconds(nanos) }
}

#[kani::proof]
fn timedelta_group_laws() {
    let a = small_delta();
    let b = small_delta();
    let c = small_delta();
    let zero = TimeDelta { months: 0, inner: Duration::seconds(0) };
    assert!(a + zero == a);
    assert!(a + (-a) == zero);
    assert!(a - b == a + (-b));
    assert!(a + b == b + a);
    assert!((a + b) + c == a + (b + c));
    assert!(-(-a) == a);
}

// BOUNDED in the scale factor: k ranges over the listed constants (operands fully symbolic within `small_delta`)
macro_rules! scaling {
    ($name:ident, $k:expr) => {
        #[kani::proof]
        fn $name() {
            let a = small_delta();
            let b = small_delta();
            assert!((a + b) * $k == a * $k + b * $k);
        }
    };
}
scaling!(timedelta_scaling_k2, 2);
scaling!(timedelta_scaling_km1, -1);
scaling!(timedelta_xscaling_k3, 3);

#[kani::proof]
fn timedelta_scaling_unit_zero() {
    let a = small_delta();
    let zero = TimeDelta { months: 0, inner: Duration::seconds(0) };
    assert!(a * 1 == a);
    assert!(a * 0 == zero);
}

// ---- C16, BOUNDED: the conversion of a millisecond / microsecond date-time to the calendar type denotes the same instant
// (read back with chrono's own accessors), on a band around the epoch that includes negative, non-whole-second instants.
#[kani::proof]
fn calendar_conversion_ms_bounded() {
    let ms: i64 = kani::any();
    kani::assume(-4096 <= ms && ms <= 4096);
    let dt = DateTime::<unit::Millisecond>::new(ms);
    let cr: chrono::DateTime<chrono::Utc> = dt.try_into().ok().unwrap();
    assert!(cr.timestamp_millis() == ms);
}

#[kani::proof]
fn calendar_conversion_us_bounded() {
    let us: i64 = kani::any();
    kani::assume(-4096 <= us && us <= 4096);
    let dt = DateTime::<unit::Microsecond>::new(us);
    let cr: chrono::DateTime<chrono::Utc> = dt.try_into().ok().unwrap();
    assert!(cr.timestamp_micros() == us);
}

// the reverse direction: a calendar value OUTSIDE the window an i64 of nanoseconds can hold (year 2300) converts to a second /
// millisecond / microsecond date-time denoting the same instant
const Y2300_S: i64 = 10_413_792_000;
#[kani::proof]
fn calendar_conversion_from_cr_s_bounded() {
    let d: i64 = kani::any();
    kani::assume(-4096 <= d && d <= 4096);
    let cr = chrono::DateTime::<chrono::Utc>::from_timestamp(Y2300_S + d, 0).unwrap();
    let dt: DateTime<unit::Second> = cr.into();
    assert!(dt.into_i64() == Y2300_S + d);
}
#[kani::proof]
fn calendar_conversion_from_cr_ms_bounded() {
    let d: i64 = kani::any();
    kani::assume(-4096 <= d && d <= 4096);
    let cr = chrono::DateTime::<chrono::Utc>::from_timestamp_millis(Y2300_S * 1000 + d).unwrap();
    let dt: DateTime<unit::Millisecond> = cr.into();
    assert!(dt.into_i64() == Y2300_S * 1000 + d);
}

// ---- C17, BOUNDED in the time of day: a fixed list of times (midnight, one nanosecond, a leap-free general value, the last
// nanosecond of the day) reports the components it was built from and survives the calendar time type.  (The symbolic version
// `time_components_roundtrip` needs 38 min of CBMC and runs in the thorough tier only.)
macro_rules! time_listed {
    ($name:ident, $h:literal, $m:literal, $s:literal, $ns:literal) => {
        #[kani::proof]
        fn $name() {
            let t = Time::from_hms_nano($h, $m, $s, $ns);
            assert!(t.0 == (($h * 3600 + $m * 60 + $s) as i64) * 1_000_000_000 + $ns);
            let c = t.as_cr();
            assert!(c.is_some());
            let c = c.unwrap();
            assert!(c.hour() == $h && c.minute() == $m && c.second() == $s && c.nanosecond() == $ns);
            assert!(t.hour() == $h && t.minute() == $m && t.second() == $s && t.nanosecond() == $ns);
            assert!(Time::from_cr(&c) == t);
        }
    };
}
time_listed!(time_listed_midnight, 0, 0, 0, 0);
time_listed!(time_listed_one_nano, 0, 0, 0, 1);
time_listed!(time_listed_general, 12, 34, 56, 789_000_001);
time_listed!(time_listed_last_nano, 23, 59, 59, 999_999_999);

// the same for the routes the PARSER takes (From<NaiveDateTime>, From<NaiveDate>): a parsed calendar value outside the nanosecond
// window becomes the second / millisecond date-time of the same instant, without panicking (C16 / C18)
#[kani::proof]
fn calendar_conversion_from_naive_bounded() {
    let d: i64 = kani::any();
    kani::assume(-4096 <= d && d <= 4096);
    let naive = chrono::DateTime::<chrono::Utc>::from_timestamp(Y2300_S + d, 0).unwrap().naive_utc();
    let s: DateTime<unit::Second> = naive.into();
    assert!(s.into_i64() == Y2300_S + d);
    let ms: DateTime<unit::Millisecond> = naive.into();
    assert!(ms.into_i64() == (Y2300_S + d) * 1000);
    let us: DateTime<unit::Microsecond> = naive.into();
    assert!(us.into_i64() == (Y2300_S + d) * 1_000_000);
}
#[kani::proof]
fn calendar_conversion_from_naive_date_bounded() {
    // 2300-01-01 plus a few days
    let k: i64 = kani::any();
    kani::assume(0 <= k && k <= 3);
    let date = chrono::DateTime::<chrono::Utc>::from_timestamp(Y2300_S + k * 86_400, 0).unwrap().date_naive();
    let s: DateTime<unit::Second> = date.into();
    assert!(s.into_i64() == Y2300_S + k * 86_400);
    let ms: DateTime<unit::Millisecond> = date.into();
    assert!(ms.into_i64() == (Y2300_S + k * 86_400) * 1000);
}
