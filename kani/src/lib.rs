#![allow(unused, clippy::all)]
#[cfg(kani)]
mod k_dtype;
