#![allow(unused, clippy::all)]
#[cfg(kani)]
mod k_dtype;
#[cfg(kani)]
mod k_time;
#[cfg(kani)]
mod k_gen;
#[cfg(kani)]
mod k_agg;
#[cfg(kani)]
mod k_cut;
#[cfg(kani)]
mod k_backend;
#[cfg(kani)]
mod k_map;
#[cfg(kani)]
mod k_roll;
#[cfg(kani)]
mod k_nd;
#[cfg(kani)]
mod k_collect;
