//! BOUNDED Kani harnesses for the accessor clause of C07 on the real tea-core backends: Vec, slice, fixed array and VecDeque
//! at head offsets 0..=3 of a 4-slot ring buffer holding 3 elements (contiguous and wrapped layouts).  Every accessor
//! - len, checked get, unchecked uget, titer forwards and backwards, slice, try_as_slice - must describe the same logical
//! sequence.  Bounded stand-in (length), not a proof; ndarray / Polars backends need crates that are not compiled here.
use std::collections::VecDeque;
use tea_core::prelude::*;

const N: usize = 4;

pub(crate) fn check_accessors<V: Vec1View<i32>>(v: &V, a: &[i32]) {
    let n = a.len();
    assert!(GetLen::len(v) == n);
    let mut i = 0;
    while i < n {
        assert!(unsafe { v.uget(i) } == a[i]);
        assert!(matches!(v.get(i), Ok(x) if x == a[i]));
        i += 1;
    }
    assert!(v.get(n).is_err());
    // iteration in both directions
    let mut it = v.titer();
    i = 0;
    while i < n { assert!(it.next() == Some(a[i])); i += 1; }
    assert!(it.next().is_none());
    let mut rit = v.titer().rev();
    i = n;
    while i > 0 { assert!(rit.next() == Some(a[i - 1])); i -= 1; }
    assert!(rit.next().is_none());
    // the contiguous view, when offered, is the same sequence
    if let Some(s) = v.try_as_slice() {
        assert!(s.len() == n);
        i = 0;
        while i < n { assert!(s[i] == a[i]); i += 1; }
    }
}

fn any_range(n: usize) -> (usize, usize) {
    let (s, e): (usize, usize) = (kani::any(), kani::any());
    kani::assume(s <= e && e <= n);
    (s, e)
}

#[kani::proof]
#[kani::unwind(6)]
fn bounded_accessors_vec() {
    let a: [i32; 3] = [kani::any(), kani::any(), kani::any()];
    let v: Vec<i32> = a.to_vec();
    check_accessors(&v, &a[..]);
    // sub-slicing: the sub-view is the same logical sub-sequence
    let (s, e) = any_range(3);
    let sub: &[i32] = v.slice(s, e).unwrap();
    assert!(sub.len() == e - s);
    let mut i = s;
    while i < e { assert!(sub[i - s] == a[i]); i += 1; }
}

#[kani::proof]
#[kani::unwind(6)]
fn bounded_accessors_array() {
    let a: [i32; N] = [kani::any(), kani::any(), kani::any(), kani::any()];
    check_accessors(&a, &a[..]);
}

/// a deque holding `a` whose ring buffer starts ROT slots into the allocation (wraps when ROT + len exceeds the capacity)
fn rotated_deque<const ROT: usize>(a: &[i32]) -> VecDeque<i32> {
    let mut d: VecDeque<i32> = VecDeque::with_capacity(N);
    let mut k = 0;
    while k < ROT { d.push_back(0); k += 1; }
    k = 0;
    while k < ROT { d.pop_front(); k += 1; }
    k = 0;
    while k < a.len() { d.push_back(a[k]); k += 1; }
    d
}

fn check_deque<const ROT: usize>() -> usize {
    let a: [i32; 3] = [kani::any(), kani::any(), kani::any()];
    let d = rotated_deque::<ROT>(&a[..]);
    check_accessors(&d, &a[..]);
    let (s, e) = any_range(3);
    let mut it = d.slice(s, e).unwrap();
    let mut i = s;
    while i < e { assert!(it.next() == Some(&a[i])); i += 1; }
    assert!(it.next().is_none());
    d.as_slices().1.len()
}

macro_rules! deque_harness {
    ($name:ident, $rot:expr, $wrapped:expr) => {
        #[kani::proof]
        #[kani::unwind(6)]
        fn $name() { let back = check_deque::<$rot>(); kani::cover!((back > 0) == $wrapped); }
    };
}
deque_harness!(bounded_accessors_vecdeque_rot0, 0, false);
deque_harness!(bounded_accessors_vecdeque_rot1, 1, false);
deque_harness!(bounded_accessors_vecdeque_rot2, 2, true);
deque_harness!(bounded_accessors_vecdeque_rot3, 3, true);

// ---- C02 / C07, bounded: the iterator-form (returned) and the caller-buffer form of the index drivers deliver the same window
// starts on a backend WITHOUT fast-path overrides (VecDeque), for every window 1..=4 on a 3-element series.
fn expected_start(i: usize, w: usize, len: usize) -> Option<usize> {
    let w = if w <= len { w } else { len };
    if i + 1 >= w { Some(i + 1 - w) } else { None }
}

#[kani::proof]
#[kani::unwind(6)]
fn bounded_index_drivers_vecdeque() {
    let a: [i32; 3] = [kani::any(), kani::any(), kani::any()];
    let d: VecDeque<i32> = a.iter().cloned().collect();
    let d2: VecDeque<i32> = a.iter().cloned().collect();
    let w: usize = kani::any();
    kani::assume(1 <= w && w <= 4);
    // one series, returned path
    let r1: Vec<(Option<usize>, usize, i32)> = d.rolling_apply_idx(w, |s, e, v| (s, e, v), None).unwrap();
    // two series, returned path
    let r2: Vec<(Option<usize>, usize, i32)> = d.rolling2_apply_idx(&d2, w, |s, e, (v, _v2)| (s, e, v), None).unwrap();
    assert!(r1.len() == 3 && r2.len() == 3);
    let mut i = 0;
    while i < 3 {
        // what is reported at the final position of a window longer than the series is unspecified
        let free = w > 3 && i == 2;
        assert!(r1[i].1 == i && r1[i].2 == a[i] && (free || r1[i].0 == expected_start(i, w, 3)));
        assert!(r2[i].1 == i && r2[i].2 == a[i] && (free || r2[i].0 == expected_start(i, w, 3)));
        i += 1;
    }
}

// ---- C07, bounded: an Arc-wrapped container answers every accessor and every overridden driver like the container inside
// (backends_impl/arc.rs forwards each method; a forgotten or mis-forwarded one would fall back to a default body or differ here)
#[kani::proof]
#[kani::unwind(6)]
fn bounded_accessors_arc() {
    let a: [i32; 3] = [kani::any(), kani::any(), kani::any()];
    let v = std::sync::Arc::new(a.to_vec());
    check_accessors(&v, &a[..]);
    let w: usize = kani::any();
    kani::assume(1 <= w && w <= 4);
    let r1: Vec<(Option<i32>, i32)> = v.rolling_apply(w, |rm, x| (rm, x), None).unwrap();
    let r2: Vec<(Option<usize>, usize, i32)> = v.rolling_apply_idx(w, |s, e, x| (s, e, x), None).unwrap();
    assert!(r1.len() == 3 && r2.len() == 3);
    let mut i = 0;
    while i < 3 {
        let free = w > 3 && i == 2;
        let st = expected_start(i, w, 3);
        assert!(r1[i].1 == a[i] && (free || r1[i].0 == st.map(|s| a[s])));
        assert!(r2[i].1 == i && r2[i].2 == a[i] && (free || r2[i].0 == st));
        i += 1;
    }
}

// ---- C02 / C07 / C09, bounded: the Vec fast paths (impl_vec1!: rolling_apply, rolling_apply_idx, rolling2_apply, rolling2_apply_idx,
// rolling_custom; proved in the Verus unit `drvo` - this is the backstop for rewrites that leave its anchors) and the DEFAULT slice
// driver (rolling_custom / rolling_custom_iter on a VecDeque, which overrides nothing): arguments of every call, windows 1..=len+1
macro_rules! vec_drivers {
    ($name:ident, $n:literal) => {
        #[kani::proof]
        #[kani::unwind(7)]
        fn $name() {
            let a: [i32; $n] = [0i32; $n].map(|_| kani::any());
            let v: Vec<i32> = a.to_vec();
            let v2: Vec<i32> = a.to_vec();
            let w: usize = kani::any();
            kani::assume(1 <= w && w <= $n + 1);
            let r1: Vec<(Option<i32>, i32)> = v.rolling_apply(w, |rm, x| (rm, x), None).unwrap();
            let r2: Vec<(Option<usize>, usize, i32)> = v.rolling_apply_idx(w, |s, e, x| (s, e, x), None).unwrap();
            let r3: Vec<(Option<(i32, i32)>, (i32, i32))> = v.rolling2_apply(&v2, w, |rm, x| (rm, x), None).unwrap();
            let r4: Vec<(Option<usize>, usize, (i32, i32))> = v.rolling2_apply_idx(&v2, w, |s, e, x| (s, e, x), None).unwrap();
            let r5: Vec<(usize, i32, i32)> = v.rolling_custom(w, |sl: &[i32]| (sl.len(), sl[0], sl[sl.len() - 1]), None).unwrap();
            assert!(r1.len() == $n && r2.len() == $n && r3.len() == $n && r4.len() == $n && r5.len() == $n);
            let mut i = 0;
            while i < $n {
                // what is reported as removed / as the window start at the final position of a window longer than the series is unspecified
                let free = w > $n && i + 1 == $n;
                let st = expected_start(i, w, $n);
                assert!(r1[i].1 == a[i] && (free || r1[i].0 == st.map(|s| a[s])));
                assert!(r2[i].1 == i && r2[i].2 == a[i] && (free || r2[i].0 == st));
                assert!(r3[i].1 == (a[i], a[i]) && (free || r3[i].0 == st.map(|s| (a[s], a[s]))));
                assert!(r4[i].1 == i && r4[i].2 == (a[i], a[i]) && (free || r4[i].0 == st));
                let lo = if i + 1 >= w { i + 1 - w } else { 0 };
                assert!(r5[i] == (i + 1 - lo, a[lo], a[i]));
                i += 1;
            }
        }
    };
}
vec_drivers!(bounded_drivers_vec_len1, 1);
vec_drivers!(bounded_drivers_vec_len3, 3);

macro_rules! deque_slice_driver {
    ($name:ident, $n:literal) => {
        #[kani::proof]
        #[kani::unwind(7)]
        fn $name() {
            let a: [i32; $n] = [0i32; $n].map(|_| kani::any());
            let d: VecDeque<i32> = a.iter().cloned().collect();
            let w: usize = kani::any();
            kani::assume(1 <= w && w <= $n + 2);
            // the lazy form announces exactly what it yields, from the start
            let it = d.rolling_custom_iter(w, |sl| sl.count());
            assert!(it.size_hint() == ($n, Some($n)));
            let mut cnt = 0usize;
            for k in it { assert!(cnt < $n); let lo = if cnt + 1 >= w { cnt + 1 - w } else { 0 }; assert!(k == cnt + 1 - lo); cnt += 1; }
            assert!(cnt == $n);
            // the collecting form (default body: trusted collection of the lazy form)
            let r: Vec<(usize, i32)> = d.rolling_custom(w, |mut sl| { let f = *sl.next().unwrap(); (1 + sl.count(), f) }, None).unwrap();
            assert!(r.len() == $n);
            let mut i = 0;
            while i < $n {
                let lo = if i + 1 >= w { i + 1 - w } else { 0 };
                assert!(r[i] == (i + 1 - lo, a[lo]));
                i += 1;
            }
        }
    };
}
deque_slice_driver!(bounded_slice_driver_vecdeque_len0, 0);
deque_slice_driver!(bounded_slice_driver_vecdeque_len1, 1);
deque_slice_driver!(bounded_slice_driver_vecdeque_len3, 3);

// ---- C07 / C10, bounded: the same call delivers the same values whether the result is returned as a Vec, returned as a VecDeque, or
// written into a caller-supplied uninitialised buffer (which is then completely initialised)
macro_rules! output_paths {
    ($name:ident, $n:literal) => {
        #[kani::proof]
        #[kani::unwind(7)]
        fn $name() {
            let a: [i32; $n] = [0i32; $n].map(|_| kani::any());
            let v: Vec<i32> = a.to_vec();
            let w: usize = kani::any();
            kani::assume(1 <= w && w <= $n + 1);
            let r_vec: Vec<i64> = v.rolling_apply(w, |rm, x| x as i64 * 3 - rm.unwrap_or(0) as i64, None).unwrap();
            let r_deq: VecDeque<i64> = v.rolling_apply(w, |rm, x| x as i64 * 3 - rm.unwrap_or(0) as i64, None).unwrap();
            let mut buf = <Vec<i64> as Vec1<i64>>::uninit($n);
            let none: Option<Vec<i64>> = v.rolling_apply(w, |rm, x| x as i64 * 3 - rm.unwrap_or(0) as i64, Some(<Vec<i64> as Vec1<i64>>::uninit_ref_mut(&mut buf)));
            assert!(none.is_none());
            let r_buf: Vec<i64> = unsafe { buf.assume_init() };
            assert!(r_vec.len() == $n && r_deq.len() == $n && r_buf.len() == $n);
            let mut i = 0;
            while i < $n {
                let free = w > $n && i + 1 == $n;
                if !free { assert!(r_vec[i] == r_deq[i] && r_vec[i] == r_buf[i]); }
                i += 1;
            }
        }
    };
}
output_paths!(bounded_output_paths_len1, 1);
output_paths!(bounded_output_paths_len3, 3);
