//! BOUNDED Kani backstop for C13 on the real tea-map code: vdiff, vshift on every NaN-encoded series of length 3 over
//! {null, -2..2}, every lag in -4..=4, fill null / non-null.  A bounded stand-in next to the Verus `map` unit (which proves the
//! positional clauses for all lengths and lags): it gives a concrete counterexample when a rewrite leaves the contracts' reach.
use tea_core::prelude::*;
use tea_map::*;

fn same(a: f64, b: f64) -> bool { (a.is_nan() && b.is_nan()) || a == b }

// concrete length (a symbolic Vec length drives CBMC out of reach), symbolic contents
fn any_series() -> ([f64; 3], usize) {
    let mut a = [f64::NAN; 3];
    let mut i = 0;
    while i < 3 {
        if kani::any() { let v: i8 = kani::any(); kani::assume(-2 <= v && v <= 2); a[i] = v as f64; }
        i += 1;
    }
    (a, 3)
}

#[kani::proof]
#[kani::unwind(6)]
fn bounded_vdiff() {
    let (a, n) = any_series();
    let lag: i32 = kani::any();
    kani::assume(-4 <= lag && lag <= 4);
    let fill: Option<f64> = if kani::any() { Some(7.0) } else { None };
    let v: Vec<f64> = a.to_vec();
    let mut got = v.vdiff(lag, fill);
    let mut i = 0usize;
    while i < n {
        let j = i as i64 - lag as i64;
        // x[i] - x[i - lag] where both operands exist (null if either is null); the fill value / null elsewhere
        let want = if j >= 0 && (j as usize) < n { a[i] - a[j as usize] } else { fill.unwrap_or(f64::NAN) };
        let g = got.next();
        assert!(g.is_some());
        assert!(same(g.unwrap(), want));
        i += 1;
    }
    assert!(got.next().is_none());                // as many elements as the input
}

#[kani::proof]
#[kani::unwind(6)]
fn bounded_vshift() {
    let (a, n) = any_series();
    let lag: i32 = kani::any();
    kani::assume(-4 <= lag && lag <= 4);
    let fill: Option<f64> = if kani::any() { Some(7.0) } else { None };
    let v: Vec<f64> = a.to_vec();
    let mut got = v.titer().vshift(lag, fill);
    let mut i = 0usize;
    while i < n {
        let j = i as i64 - lag as i64;
        let want = if j >= 0 && (j as usize) < n { a[j as usize] } else { fill.unwrap_or(f64::NAN) };
        let g = got.next();
        assert!(g.is_some());
        assert!(same(g.unwrap(), want));
        i += 1;
    }
    assert!(got.next().is_none());
}
