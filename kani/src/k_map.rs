//! BOUNDED Kani backstop for C13 on the real tea-map code: vdiff, vshift on every NaN-encoded series of length 3 over
//! {null, -2..2}, every lag in -4..=4, fill null / non-null.  A bounded stand-in next to the Verus `map` unit (which proves the
//! positional clauses for all lengths and lags): it gives a concrete counterexample when a rewrite leaves the contracts' reach.
use tea_core::prelude::*;
use tea_map::*;

fn same(a: f64, b: f64) -> bool { (a.is_nan() && b.is_nan()) || a == b }

// concrete length (a symbolic Vec length drives CBMC out of reach), symbolic contents
fn any_series() -> ([f64; 3], usize) {
    let mut a = [f64::NAN; 3];
    let mut i = 0;
    while i < 3 {
        if kani::any() { let v: i8 = kani::any(); kani::assume(-2 <= v && v <= 2); a[i] = v as f64; }
        i += 1;
    }
    (a, 3)
}

#[kani::proof]
#[kani::unwind(6)]
fn bounded_vdiff() {
    let (a, n) = any_series();
    let lag: i32 = kani::any();
    kani::assume(-4 <= lag && lag <= 4);
    let fill: Option<f64> = if kani::any() { Some(7.0) } else { None };
    let v: Vec<f64> = a.to_vec();
    let mut got = v.vdiff(lag, fill);
    let mut i = 0usize;
    while i < n {
        let j = i as i64 - lag as i64;
        // x[i] - x[i - lag] where both operands exist (null if either is null); the fill value / null elsewhere
        let want = if j >= 0 && (j as usize) < n { a[i] - a[j as usize] } else { fill.unwrap_or(f64::NAN) };
        let g = got.next();
        assert!(g.is_some());
        assert!(same(g.unwrap(), want));
        i += 1;
    }
    assert!(got.next().is_none());                // as many elements as the input
}

#[kani::proof]
#[kani::unwind(6)]
fn bounded_vshift() {
    let (a, n) = any_series();
    let lag: i32 = kani::any();
    kani::assume(-4 <= lag && lag <= 4);
    let fill: Option<f64> = if kani::any() { Some(7.0) } else { None };
    let v: Vec<f64> = a.to_vec();
    let mut got = v.titer().vshift(lag, fill);
    let mut i = 0usize;
    while i < n {
        let j = i as i64 - lag as i64;
        let want = if j >= 0 && (j as usize) < n { a[j as usize] } else { fill.unwrap_or(f64::NAN) };
        let g = got.next();
        assert!(g.is_some());
        assert!(same(g.unwrap(), want));
        i += 1;
    }
    assert!(got.next().is_none());
}

// ---- C12, bounded: vrank (tea-map vec_map.rs; sorts an index vector, not under a Verus contract) assigns every non-null element its
// average rank among the non-null elements - ascending or descending, optionally as a fraction of their count - and null to nulls,
// for every NaN-encoded series of length 0..=3 over {null, -1, 0, 1}
fn any_small_f() -> f64 {
    if kani::any() { let v: i8 = kani::any(); kani::assume(-1 <= v && v <= 1); v as f64 } else { f64::NAN }
}
macro_rules! rank_harness {
    ($name:ident, $n:literal) => {
        #[kani::proof]
        #[kani::unwind(8)]
        fn $name() {
            let a: [f64; $n] = [any_small_f(); $n].map(|_| any_small_f());
            let (pct, rev): (bool, bool) = (kani::any(), kani::any());
            let v: Vec<f64> = a.to_vec();
            let r: Vec<f64> = v.vrank(pct, rev);
            assert!(r.len() == $n);
            let mut cnt = 0usize;
            let mut j = 0;
            while j < $n { if !a[j].is_nan() { cnt += 1; } j += 1; }
            let mut i = 0;
            while i < $n {
                if a[i].is_nan() {
                    assert!(r[i].is_nan());                      // null to nulls
                } else {
                    let (mut less, mut eq) = (0usize, 0usize);
                    j = 0;
                    while j < $n { if !a[j].is_nan() && j != i { if a[j] < a[i] { less += 1; } else if a[j] == a[i] { eq += 1; } } j += 1; }
                    let asc = 1.0 + less as f64 + 0.5 * eq as f64;
                    let want = if !rev { asc } else { (cnt + 1) as f64 - asc };
                    if pct { let d = r[i] * cnt as f64 - want; assert!(d < 1e-9 && d > -1e-9); } else { assert!(r[i] == want); }
                }
                i += 1;
            }
        }
    };
}
rank_harness!(rank_bounded_len1, 1);
rank_harness!(rank_bounded_len2, 2);
rank_harness!(rank_bounded_len3, 3);

// ---- C13, bounded: forward / backward fill (proved in the Verus unit `map`; backstop for rewrites that leave its anchors): each null
// becomes the nearest earlier / later non-null element, else the default, else stays null; non-null elements are untouched
#[kani::proof]
#[kani::unwind(6)]
fn bounded_ffill_bfill() {
    let (a, n) = any_series();
    let fill: Option<f64> = if kani::any() { Some(7.0) } else { None };
    let v: Vec<f64> = a.to_vec();
    let mut f = v.titer().ffill(fill);
    let mut b = v.titer().bfill(fill);
    let mut i = 0usize;
    while i < n {
        let (gf, gb) = (f.next(), b.next());
        assert!(gf.is_some() && gb.is_some());
        let (mut wf, mut wb) = (f64::NAN, f64::NAN);
        if !a[i].is_nan() { wf = a[i]; wb = a[i]; } else {
            let mut j = i; let mut found = false;
            while j > 0 { j -= 1; if !a[j].is_nan() { wf = a[j]; found = true; break; } }
            if !found { if let Some(d) = fill { wf = d; } }
            j = i + 1; found = false;
            while j < n { if !a[j].is_nan() { wb = a[j]; found = true; break; } j += 1; }
            if !found { if let Some(d) = fill { wb = d; } }
        }
        assert!(same(gf.unwrap(), wf));
        assert!(same(gb.unwrap(), wb));
        i += 1;
    }
    assert!(f.next().is_none() && b.next().is_none());
}
