//! BOUNDED Kani harnesses for the ndarray backend of tea-core (feature `ndarray`): owned arrays and borrowed views with
//! step 1, 2, -1, -2 over a base of 4-5 symbolic elements.
//!   * C07: every accessor (len, get, uget, titer both ways, slice, try_as_slice when offered) describes the logical
//!     sequence of the view - whatever the memory layout behind it;
//!   * C02 / C07: the remove/add driver, the index driver and the two-series driver, which the ndarray backend overrides
//!     (backends_impl/ndarray.rs), hand the callback the logical elements on a reversed / strided view.
//! Bounded stand-in (length, listed steps), not a proof.
use tea_core::prelude::*;
use tea_deps::ndarray::{s, Array1, ArrayView1};

use crate::k_backend::check_accessors;

/// the logical sequence of `base[..;step]`, computed from first principles
fn strided<const L: usize>(base: &[i32; L], step: isize, out: &mut [i32; L]) -> usize {
    let mut n = 0;
    if step > 0 {
        let mut i = 0usize;
        while i < L { out[n] = base[i]; n += 1; i += step as usize; }
    } else {
        let k = (-step) as usize;
        let mut i = L;
        while i > 0 { out[n] = base[i - 1]; n += 1; i = if i > k { i - k } else { 0 }; }
    }
    n
}

#[kani::proof]
#[kani::unwind(9)]
fn bounded_accessors_ndarray_owned() {
    let a: [i32; 4] = [kani::any(), kani::any(), kani::any(), kani::any()];
    let arr = Array1::from_vec(a.to_vec());
    check_accessors(&arr, &a[..]);
    let (s0, e0): (usize, usize) = (kani::any(), kani::any());
    kani::assume(s0 <= e0 && e0 <= 4);
    let sub = Vec1View::slice(&arr, s0, e0).unwrap();
    assert!(GetLen::len(&sub) == e0 - s0);
    let mut i = s0;
    while i < e0 { assert!(unsafe { Vec1View::uget(&sub, i - s0) } == a[i]); i += 1; }
}

macro_rules! view_harness {
    ($name:ident, $step:literal) => {
        #[kani::proof]
        #[kani::unwind(9)]
        fn $name() {
            let a: [i32; 5] = [kani::any(), kani::any(), kani::any(), kani::any(), kani::any()];
            let arr = Array1::from_vec(a.to_vec());
            let view: ArrayView1<'_, i32> = arr.slice(s![..;$step]);
            let mut logical = [0i32; 5];
            let n = strided(&a, $step, &mut logical);
            check_accessors(&view, &logical[..n]);
            // the unchecked sub-view (what the slice drivers read) is the same logical sub-sequence as the checked one
            let (s0, e0): (usize, usize) = (kani::any(), kani::any());
            kani::assume(s0 <= e0 && e0 <= n);
            let sub = Vec1View::slice(&view, s0, e0).unwrap();
            let usub = unsafe { Vec1View::uslice(&view, s0, e0) }.unwrap();
            assert!(GetLen::len(&sub) == e0 - s0 && GetLen::len(&usub) == e0 - s0);
            let mut i = s0;
            while i < e0 {
                assert!(unsafe { Vec1View::uget(&sub, i - s0) } == logical[i]);
                assert!(unsafe { Vec1View::uget(&usub, i - s0) } == logical[i]);
                i += 1;
            }
            kani::cover!(n >= 2 && logical[0] != logical[n - 1]);
        }
    };
}
view_harness!(bounded_accessors_ndarray_view_step1, 1);
view_harness!(bounded_accessors_ndarray_view_step2, 2);
view_harness!(bounded_accessors_ndarray_view_rev1, -1);
view_harness!(bounded_accessors_ndarray_view_rev2, -2);

fn expected_start(i: usize, w: usize, len: usize) -> Option<usize> {
    let w = if w <= len { w } else { len };
    if i + 1 >= w { Some(i + 1 - w) } else { None }
}

// the three overridden drivers on a view: arguments of every call, in order (returned path; the buffer path is the same code
// up to the allocation, which the Verus unit `drvo` covers)
macro_rules! driver_harness {
    ($name:ident, $step:literal, $n:literal) => {
        #[kani::proof]
        #[kani::unwind(9)]
        fn $name() {
            let a: [i32; 4] = [kani::any(), kani::any(), kani::any(), kani::any()];
            let arr = Array1::from_vec(a.to_vec());
            let view: ArrayView1<'_, i32> = arr.slice(s![..;$step]);
            let mut x = [0i32; 4];
            let n = strided(&a, $step, &mut x);
            assert!(n == $n);
            let w: usize = kani::any();
            kani::assume(1 <= w && w <= $n + 1);
            let r1: Vec<(Option<i32>, i32)> = view.rolling_apply(w, |rm, v| (rm, v), None).unwrap();
            let r2: Vec<(Option<usize>, usize, i32)> = view.rolling_apply_idx(w, |s, e, v| (s, e, v), None).unwrap();
            let r3: Vec<(Option<(i32, i32)>, (i32, i32))> = view.rolling2_apply(&view, w, |rm, v| (rm, v), None).unwrap();
            // the slice driver: first and last element and length of every window slice
            let r4: Vec<(usize, i32, i32)> = view.rolling_custom(w, |sl: ArrayView1<'_, i32>| (sl.len(), sl[0], sl[sl.len() - 1]), None).unwrap();
            assert!(r1.len() == n && r2.len() == n && r3.len() == n && r4.len() == n);
            let mut i = 0;
            while i < n {
                // what is reported as removed at the final position of a window longer than the series is unspecified
                let free = w > n && i + 1 == n;
                let st = expected_start(i, w, n);
                assert!(r1[i].1 == x[i] && (free || r1[i].0 == st.map(|s| x[s])));
                assert!(r2[i].1 == i && r2[i].2 == x[i] && (free || r2[i].0 == st));
                assert!(r3[i].1 == (x[i], x[i]) && (free || r3[i].0 == st.map(|s| (x[s], x[s]))));
                let lo = if i + 1 >= w { i + 1 - w } else { 0 };
                assert!(r4[i] == (i + 1 - lo, x[lo], x[i]));
                i += 1;
            }
            kani::cover!(x[0] != x[n - 1] && w == 2);
        }
    };
}
driver_harness!(bounded_drivers_ndarray_view_rev1, -1, 4);
driver_harness!(bounded_drivers_ndarray_view_step1, 1, 4);
driver_harness!(bounded_drivers_ndarray_view_rev2, -2, 2);

// ---- C07 / C10, bounded: a caller-supplied ndarray OUT buffer that is a strided view (every second slot of a 6-slot parent): the
// results land in the logical elements of the view, every one of them is written, and nothing outside the view is touched
#[kani::proof]
#[kani::unwind(9)]
fn bounded_out_buffer_ndarray_strided() {
    use std::mem::MaybeUninit;
    let a: [i32; 3] = [kani::any(), kani::any(), kani::any()];
    let v: Vec<i32> = a.to_vec();
    let w: usize = kani::any();
    kani::assume(1 <= w && w <= 3);
    let mut parent: Array1<MaybeUninit<i64>> = Array1::from_vec(vec![MaybeUninit::new(-7i64); 6]);
    {
        let view = parent.slice_mut(s![..;2]);
        let none: Option<Array1<i64>> = v.rolling_apply(w, |rm, x| x as i64 * 2 + rm.map_or(0, |r| r as i64), Some(view));
        assert!(none.is_none());
    }
    let got: Vec<i64> = parent.iter().map(|m| unsafe { m.assume_init() }).collect();
    let mut i = 0;
    while i < 3 {
        let st = expected_start(i, w, 3);
        let want = a[i] as i64 * 2 + st.map_or(0, |s| a[s] as i64);
        assert!(got[2 * i] == want);
        assert!(got[2 * i + 1] == -7);
        i += 1;
    }
}
