//! BOUNDED Kani harness for the run de-duplication clause of C14 on the real tea-map code: vsorted_unique_idx (Keep::First and
//! Keep::Last) and vsorted_unique on every sorted series of length <= 5 over a 3-value domain with a null block at the head or
//! tail, ascending or descending.  A bounded stand-in (series length), not a proof.  (vcut is proved by the Verus `cut` unit;
//! a Kani harness of vcut did not finish within 15 minutes even with formatting stubbed.)
use tea_core::prelude::*;
use tea_map::*;

// ---- vsorted_unique_idx / vsorted_unique on inputs whose equal values are adjacent
fn any_sorted_series() -> ([Option<i32>; 5], usize) {
    // a null block of length h at the head or the tail, the rest non-decreasing (or non-increasing) over {0, 1, 2}
    let n: usize = kani::any();
    kani::assume(n <= 5);
    let mut a: [Option<i32>; 5] = [None; 5];
    let h: usize = kani::any();
    kani::assume(h <= n);
    let at_head: bool = kani::any();
    let desc: bool = kani::any();
    let mut i = 0;
    let mut prev: i32 = if desc { 2 } else { 0 };
    while i < n {
        let is_null = if at_head { i < h } else { i >= n - h };
        if !is_null {
            let v: i32 = kani::any();
            kani::assume(0 <= v && v <= 2);
            kani::assume(if desc { v <= prev } else { v >= prev });
            prev = v;
            a[i] = Some(v);
        }
        i += 1;
    }
    (a, n)
}

fn is_first(s: &[Option<i32>], i: usize) -> bool { s[i].is_some() && (i == 0 || s[i - 1] != s[i]) }
fn is_last(s: &[Option<i32>], i: usize) -> bool { s[i].is_some() && (i + 1 == s.len() || s[i + 1] != s[i]) }

#[kani::proof]
#[kani::unwind(8)]
fn bounded_sorted_unique_first() {
    let (a, n) = any_sorted_series();
    let s = &a[..n];
    // Keep::First: exactly the first index of each run of equal non-null values, in order
    let mut got = s.titer().vsorted_unique_idx(Keep::First);
    let mut i = 0;
    while i < n {
        if is_first(s, i) { assert!(got.next() == Some(i)); }
        i += 1;
    }
    assert!(got.next().is_none());
}

#[kani::proof]
#[kani::unwind(8)]
fn bounded_sorted_unique_last() {
    let (a, n) = any_sorted_series();
    let s = &a[..n];
    // Keep::Last: exactly the last index of each run, in order, never the index of a null
    let mut got = s.titer().vsorted_unique_idx(Keep::Last);
    let mut i = 0;
    while i < n {
        if is_last(s, i) { assert!(got.next() == Some(i)); }
        i += 1;
    }
    assert!(got.next().is_none());
}

#[kani::proof]
#[kani::unwind(8)]
fn bounded_sorted_unique_values() {
    let (a, n) = any_sorted_series();
    let s = &a[..n];
    // one representative per run
    let mut got = s.titer().vsorted_unique();
    let mut i = 0;
    while i < n {
        if is_first(s, i) { assert!(got.next() == Some(s[i])); }
        i += 1;
    }
    assert!(got.next().is_none());
}
