#!/usr/bin/env python3
"""File the fifth seed batch (seeded/incoming/<id>-c) under /verif/seeded/<id>-c/ and append its table to seeded/README.md.
Inputs: /tmp/vt/confirm_c5.log (tools/confirm_seed.sh) and /tmp/vt/verdicts_c5.log (tools/seed_verdicts.sh).  Run by hand."""
import json, os, re, shutil

V = "/verif/seeded"
META = {
 "C01-c": ("ts_kurt: `let window = window.min(self.len())` activated before min_periods is derived (same one-line change as C05-c / C06-b, found independently)",
           "window longer than the series and the default min_periods: positions that must still be null get a value",
           "tea-rolling", "detected as the checks stood (featp unit, one_output_per_input / null mask clause)"),
 "C02-c": ("ndarray rolling_apply: fast path through try_as_slice() (memory order) for contiguous data",
           "feature ndarray and a reversed view (stride -1): the callback gets the elements back to front",
           "tea-core --features ndarray",
           "MISSED as the checks stood (the ndarray backend was not compiled by any check); detected after the bounded ndarray harnesses k_nd joined C02 / C07. "
           "Those harnesses also exposed the pre-existing defect the seed builds on (try_as_slice of a reversed view, fix 8308e2f); after that fix the seed's own one-hunk patch is harmless, "
           "so patch.diff here is the seed together with the pre-fix try_as_slice (patch_as_returned.diff is the sub-agent's hunk alone: the check ends UNDECIDED on it, no alarm)"),
 "C03-c": ("ts_vminmaxnorm: (v - min) / (max - min) divided in the element type before the conversion to f64",
           "integer element types: the quotient is truncated to 0 or 1",
           "tea-rolling", "MISSED as the checks stood (the bounded backstop only instantiated floats); detected after the integer instantiation k_roll::bounded_rolling_c03_minmaxnorm_int was added"),
 "C04-c": ("ts_vregx_all: the SSE clamped with a NaN-swallowing `.max(0.)`",
           "a window whose regression is undefined (fewer than 2 complete pairs / zero variance): statistics that must be null come out as numbers",
           "tea-rolling", "MISSED as the checks stood (the regx family was listed as not covered); detected after ts_vregx_all was put under a Verus contract (unit bin)"),
 "C05-c": ("ts_kurt: `let window = window.min(self.len())` activated (same change as C01-c, from the C05 side)",
           "series shorter than the window with an explicit min_periods above the series length",
           "tea-rolling", "detected as the checks stood"),
 "C09-c": ("TrustIter::size_hint reports the wrapped iterator's own upper bound instead of the promised length",
           "a wrapped iterator whose bound is loose (filter-like adaptors): collect_trusted sizes its buffer by the loose bound",
           "tea-map", "UNDECIDED at arrival for the size_hint part (TrustIter itself was not under contract); detected after TrustIter::next / next_back / size_hint were put under contract (unit gen). "
           "Triage found a pre-existing defect in the same type (the announced length was never shortened on consumption, fix 041cc1d); patch.diff is rebased onto that fix"),
 "C11-c": ("vcorr_pearson: the two zero-variance guards collapsed into one guard on sqrt(var_a * var_b)",
           "one constant series and one with a large variance: the product passes the guard and a correlation is reported where null is due",
           "tea-core", "detected as the checks stood (aggp unit)"),
 "C12-c": ("vpercentile_of, Rank method: two-case computation replaced by one closed form",
           "a score that does not occur in the data",
           "tea-agg", "MISSED as the checks stood (vpercentile_of was listed as not covered); detected after the bounded harness k_agg::bounded_order_percentile_of was added"),
 "C13-c": ("vclip: fast path for lower == upper replaces every element by the bound",
           "lower == upper and a null element (nulls must stay null)",
           "tea-map", "detected as the checks stood (map unit, per-element clause)"),
 "C17-c": ("DateTime +- TimeDelta: integer fast path taken before the NaT test of the date-time",
           "a NaT date-time and a month-free duration that is a whole number of the unit",
           "tea-time", "UNDECIDED as the checks stood (new helper function: no anchor, exit 2); detected after bounded NaT-operand harnesses with listed concrete durations joined C17 "
           "(a symbolic duration makes CBMC run into the per-harness timeout on this change, which is itself reported as UNDECIDED, not as a violation)"),
}

def parse(path, pat):
    out = {}
    for ln in open(path):
        m = re.match(pat, ln)
        if m:
            out[m.group(1)] = m.groups()[1:]
    return out

confirm = parse("/tmp/vt/confirm_c5.log", r"(C\d\d-c) patch=(\S+) head=(\S+) suite_with_change=\[(.*?)\] demo_with_change=\[(.*?)\] demo_without_change=\[(.*?)\]")
verd = parse("/tmp/vt/verdicts_c5.log", r"(C\d\d-c) rc=(\d+) violations=(\d+) :: (.*)")
rows = []
for sid in sorted(META):
    src, dst = os.path.join(V, "incoming", sid), os.path.join(V, sid)
    os.makedirs(dst, exist_ok=True)
    files = os.listdir(src)
    demo = [f for f in files if f.endswith(".rs")][0]
    if "patch_rebased.diff" in files:
        shutil.copy(os.path.join(src, "patch_rebased.diff"), os.path.join(dst, "patch.diff"))
        shutil.copy(os.path.join(src, "patch.diff"), os.path.join(dst, "patch_as_returned.diff"))
    else:
        shutil.copy(os.path.join(src, "patch.diff"), os.path.join(dst, "patch.diff"))
    shutil.copy(os.path.join(src, demo), os.path.join(dst, demo))
    shutil.copy(os.path.join(src, "NOTES.md"), os.path.join(dst, "NOTES.md"))
    c, v = confirm.get(sid), verd.get(sid)
    rc = int(v[0]) if v else None
    outcome = {0: "NOT DETECTED (check passed)", 1: "DETECTED (VIOLATION)", 2: "UNDECIDED (exit 2, no alarm, no pass)"}.get(rc, "not run")
    prop = sid.split("-")[0]
    breaks, needs, crate, hist = META[sid]
    meta = dict(
        seed=sid, property=prop, breaks=breaks, needs_to_manifest=needs,
        origin="fifth batch: fresh sub-agent given only the property text and a scratch worktree of /repo; nothing from /verif; asked to avoid the functions its siblings changed"
               + ("; this agent reported having read the memory note tevec-confirmed-defects.md of an earlier session (a list of pre-existing defects, nothing about the checks)" if sid == "C09-c" else ""),
        applies_to=c[1] if c else None,
        confirmed=dict(how="tools/confirm_seed.sh in a scratch worktree under /tmp/wt (removed afterwards)",
                       commands=["git apply patch.diff", "cargo test --workspace --no-fail-fast --offline",
                                 f"cp {demo} <crate>/tests/ && cargo test -p {crate} --test {os.path.splitext(demo)[0]} --offline   (with the change, then after git apply -R)"],
                       suite_with_change=c[2] if c else None, demo_with_change=c[3] if c else None, demo_without_change=c[4] if c else None),
        check=dict(command=f"git -C /repo apply seeded/{sid}/patch.diff; ./check {prop} --tier quick; git -C /repo checkout -- .",
                   exit_code=rc, violations=int(v[1]) if v else None, outcome=outcome, first_line=v[2].strip() if v else None, history=hist),
    )
    json.dump(meta, open(os.path.join(dst, "meta.json"), "w"), indent=1)
    rows.append((sid, prop, breaks, f"{outcome} - {hist}", (v[2].strip() if v else "")[:150]))

readme = os.path.join(V, "README.md")
txt = open(readme).read()
mark = "\n## Fifth batch\n"
if mark in txt:
    txt = txt[:txt.index(mark)]
txt = txt.rstrip("\n") + "\n" + mark + """
Ten more seeds (`-c`), each asked to avoid the functions its siblings changed.  As the checks stood when they arrived: 4 detected
(C01-c, C05-c, C11-c, C13-c), 2 undecided (C09-c, C17-c) and **4 missed** (C02-c, C03-c, C04-c, C12-c) - every miss was a function
or a backend no check looked at (each had been listed as not covered).  All ten are detected now.  Triage of this batch found
four more pre-existing defects (TrustIter 041cc1d; ndarray window 0 c235ff6; ndarray try_as_slice 8308e2f; ts_fdiff warm-up, see DESIGN 11.6).

| seed | property | change | registered quick check | first reported line |
|---|---|---|---|---|
"""
for r in rows:
    txt += "| " + " | ".join(x.replace("|", "\\|") for x in r) + " |\n"
open(readme, "w").write(txt)
print("filed", len(rows))
