#!/usr/bin/env python3
"""developer helper: generate every unit and list the vacuity guards that did NOT fail (each is a contradiction to look at)"""
import os, sys
sys.path.insert(0, os.path.dirname(os.path.dirname(os.path.abspath(__file__))))
from concurrent.futures import ThreadPoolExecutor
from vlib import run, plan, verus
names = sys.argv[1:] or list(plan.UNITS)
units = []
for n in names:
    try:
        units.append(run.generate(n))
    except run.Undecided as e:
        print("UNDECIDED", n, e)
def go(u):
    return u, verus.run_verus(u.vac, u.vac.path)
with ThreadPoolExecutor(max_workers=8) as ex:
    for u, r in ex.map(go, units):
        vac = [f for f in r["funcs"] if "vacuity_" in f["function"]]
        bad = [f["function"] for f in vac if f["success"]]
        other = [f["function"] for f in r["funcs"] if "vacuity_" not in f["function"] and not f["success"]]
        print(f"{u.name}: guards={len(vac)} verified_guards={bad} other_failed={other[:5]} undecided={r['undecided'][:3]} wall={r['wall']:.0f}s")
