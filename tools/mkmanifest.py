#!/usr/bin/env python3
"""Regenerate MANIFEST.json from vlib/plan.py (single source of truth for which property has a check)."""
import json, os, sys
VERIF = os.path.dirname(os.path.dirname(os.path.abspath(__file__)))
sys.path.insert(0, VERIF)
from vlib import plan

props = [json.loads(l) for l in open(os.path.join(VERIF, "properties.jsonl"))]
checks, na = [], []
for p in props:
    pid = p["id"]
    if pid in plan.PLAN:
        e = plan.PLAN[pid]
        checks.append(dict(
            property_id=pid,
            quick_cmd=f"./check {pid} --tier quick",
            thorough_cmd=f"./check {pid} --tier thorough",
            evidence_file=f"/verif/evidence/{pid}.json",
            replay_cmd_template=f"./check {pid} --replay {{path}}",
            engine="verus+kani",
            level_claimed=dict(category=e.get("level", "proof"), text=e.get("level_text", ""), design_ref=e.get("design_ref", "DESIGN.md 6")),
            level_note=e.get("level_note", ""),
            technique=e.get("technique", "contract-based deductive verification (Verus on mechanically extracted functions; Kani on the real crates)"),
        ))
    else:
        na.append(dict(property_id=pid, reason=plan.NOT_APPLICABLE.get(pid, "no check built yet with contract-based deductive verification; not claimed")))
m = dict(
    version=1,
    setup_cmd="./setup.sh",
    hooks=dict(guard="tevec_verif", enable="RUSTFLAGS='--cfg tevec_verif' (set by vlib/kani.py for the Kani harness crate); Verus extraction needs no hook",
               baseline_off_cmd="cd /repo && cargo test --workspace --no-fail-fast --offline",
               source_commits=["03221c5"], add_only=True),
    engines=[
        dict(name="verus-units", path="/verif/contracts", serves_properties=sorted(k for k, v in plan.PLAN.items() if v["verus"]["quick"] or v["verus"].get("thorough")),
             kind_free_text="Verus 0.2026.09.13 on functions extracted mechanically from /repo's macro-expanded crates on every run"),
        dict(name="kani-harnesses", path="/verif/kani", serves_properties=sorted(k for k, v in plan.PLAN.items() if v["kani"]["quick"] or v["kani"].get("thorough")),
             kind_free_text="Kani 0.68 / CBMC on the unmodified crates (path dependencies): loop-free complete harnesses and labelled bounded stand-ins"),
    ],
    checks=checks,
    not_applicable=na,
    notes="exit 2 + `UNDECIDED property=<id> reason=..` means the check could not decide (lost anchor, unsupported construct, rlimit); it is never an alarm.",
)
json.dump(m, open(os.path.join(VERIF, "MANIFEST.json"), "w"), indent=1)
print("checks:", [c["property_id"] for c in checks], "na:", len(na))
