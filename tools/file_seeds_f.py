#!/usr/bin/env python3
"""File the sixth seed batch (seeded/incoming/<id>-d) under /verif/seeded/<id>-d/ and append its table to seeded/README.md.
Inputs: /tmp/vt/confirm_f.log (tools/confirm_seed.sh), /tmp/vt/verdicts_f_arrival.log and /tmp/vt/verdicts_f_final.log."""
import json, os, re, shutil

V = "/verif/seeded"
META = {
 "C06-e": ("ts_vskew: the zero-variance shortcut became an early `return` out of the rolling closure, skipping the removal of the element that leaves the window",
           "a full window of (nearly) equal values: the sums keep stale elements, every later output depends on values before its window",
           "tea-rolling", "detected as the checks stood (feat unit: the closure no longer records its call / leaves its invariant)"),
 "C07-e": ("ndarray out buffer: `uset` writes through the raw data pointer + idx, dropping the view's stride",
           "feature ndarray, a caller-supplied out buffer that is a strided view (a column of a 2-D output)",
           "tea-rolling --features ndarray", "MISSED as the checks stood (no check wrote into an ndarray out buffer); detected after a bounded harness with a strided out view (k_nd::bounded_out_buffer_ndarray_strided) joined C07 / C10"),
 "C08-e": ("ts_vrank: the inner comparison rewritten on Option values (None sorts below every Some), nulls in the window count as smaller elements",
           "a null before a valid newest element inside the window",
           "tea-rolling", "detected as the checks stood (bounded rank harness of the group roll_c03_bounded, which had joined C08 in the sixth batch)"),
 "C10-e": ("vrank, pct branch: the write loop of a tie group shifted down by one sorted position",
           "pct = true and a tie group followed by a larger value: one slot never written, one written twice; a tie group at the start underflows",
           "tea-map", "MISSED as the checks stood (the bounded vrank harnesses ran under C12 only); detected after the group rank_bounded joined C10"),
 "C14-e": ("vsorted_unique_idx(Keep::Last): leading nulls skipped with skip_while before enumerate, all indices too small by their number",
           "Keep::Last with at least one null at the head",
           "tea-map", "detected as the checks stood (k_cut::bounded_sorted_unique_last)"),
 "C15-e": ("Option<T> -> Time cast: `unwrap_or(Time::nat())` replaced by `unwrap_or_default()` (Time's derived Default is midnight)",
           "None of an optional number cast to Time",
           "tea-dtype", "MISSED as the checks stood (the generated cast table had no time-type targets); detected after loop-free harnesses for None -> DateTime / TimeDelta / Time (k_dtype::cast_null_to_time_*) joined the group dtype_cast"),
 "C16-e": ("TimeDelta * i32 rewritten with checked_mul of both components, the explicit NaT branch dropped",
           "NaT * 0 becomes a valid zero duration",
           "tea-time", "detected as the checks stood (k_time::nat_absorbed_timedelta_ops, symbolic factor)"),
 "C18-e": ("From<NaiveDateTime> / From<NaiveDate> for DateTime<U> go through a nanosecond date-time and into_unit",
           "parsing (second / millisecond / microsecond units) a date outside the i64-nanosecond window panics",
           "tea-time", "MISSED as the checks stood (the fmt unit takes the conversion of the parsed calendar value as an oracle); detected after bounded harnesses for From<NaiveDateTime> / From<NaiveDate> around year 2300 joined time_calendar_bounded, which joined C18"),
 "C19-e": ("write_trust_iter: the early return extended to `len == 0 || iter_len == 0`",
           "a non-empty buffer written from an empty iterator: Ok with no slot written instead of a length-mismatch error",
           "tea-core", "detected as the checks stood (k_collect::bounded_write_into_buffer_mismatch)"),
 "C20-e": ("vcorr, Spearman: the Pearson correlation of the ranks replaced by the shortcut 1 - 6 sum d^2 / (n (n^2 - 1))",
           "ties, nulls or a constant series",
           "tevec", "UNDECIDED (exit 2: the rewritten body loops over a zipped iterator the wins model has no anchor for; no alarm, no pass) - left undecided: a bounded Kani harness would need the tevec crate with float sqrt and two index sorts, not tried for lack of time"),
}
def parse(path, pat):
    out = {}
    for ln in open(path):
        m = re.match(pat, ln)
        if m:
            out[m.group(1)] = m.groups()[1:]
    return out
confirm = parse("/tmp/vt/confirm_f.log", r"(C\d\d-e) patch=(\S+) head=(\S+) suite_with_change=\[(.*?)\] demo_with_change=\[(.*?)\] demo_without_change=\[(.*?)\]")
arr = parse("/tmp/vt/verdicts_f_arrival.log", r"(C\d\d-e) rc=(\d+) violations=(\d+) :: (.*)")
verd = parse("/tmp/vt/verdicts_f_final.log", r"(C\d\d-e) rc=(\d+) violations=(\d+) :: (.*)")
OUT = {0: "NOT DETECTED (check passed)", 1: "DETECTED (VIOLATION)", 2: "UNDECIDED (exit 2, no alarm, no pass)"}
rows = []
for sid in sorted(META):
    src, dst = os.path.join(V, "incoming", sid), os.path.join(V, sid)
    os.makedirs(dst, exist_ok=True)
    files = os.listdir(src)
    demo = [f for f in files if f.endswith(".rs")][0]
    for f in ("patch.diff", demo, "NOTES.md"):
        shutil.copy(os.path.join(src, f), os.path.join(dst, f))
    c, v, a0 = confirm.get(sid), verd.get(sid), arr.get(sid)
    rc = int(v[0]) if v else None
    prop = sid.split("-")[0]
    breaks, needs, crate, hist = META[sid]
    meta = dict(
        seed=sid, property=prop, breaks=breaks, needs_to_manifest=needs,
        origin="eighth batch: fresh sub-agent given only the property text and a scratch worktree of /repo; nothing from /verif; asked to avoid the functions its siblings changed",
        applies_to=c[1] if c else None,
        confirmed=dict(how="tools/confirm_seed.sh in a scratch worktree under /tmp/wt (removed afterwards)",
                       commands=["git apply patch.diff", "cargo test --workspace --no-fail-fast --offline",
                                 f"cp {demo} <crate>/tests/ && cargo test -p {crate} --test {os.path.splitext(demo)[0]} --offline   (with the change, then after git apply -R)"],
                       suite_with_change=c[2] if c else None, demo_with_change=c[3] if c else None, demo_without_change=c[4] if c else None),
        check=dict(command=f"git -C /repo apply seeded/{sid}/patch.diff; ./check {prop} --tier quick; git -C /repo checkout -- .",
                   exit_code=rc, violations=int(v[1]) if v else None, outcome=OUT.get(rc, "not run"), first_line=v[2].strip() if v else None,
                   at_arrival=dict(exit_code=int(a0[0]), outcome=OUT.get(int(a0[0])), first_line=a0[2].strip()[:200]) if a0 else None, history=hist),
    )
    json.dump(meta, open(os.path.join(dst, "meta.json"), "w"), indent=1)
    rows.append((sid, prop, breaks, f"{OUT.get(rc, 'not run')} - {hist}", (v[2].strip() if v else "")[:150]))
readme = os.path.join(V, "README.md")
txt = open(readme).read()
mark = "\n## Eighth batch\n"
if mark in txt:
    txt = txt[:txt.index(mark)]
txt = txt.rstrip("\n") + "\n" + mark + """
Ten more seeds (a fourth one for the ten properties of the sixth batch; ids `C06-e` .. `C20-e`).  As the checks stood when they arrived:
5 detected, 1 undecided (C20-e) and 4 missed (C07-e: ndarray out buffer; C10-e: vrank ran under C12 only; C15-e: no time-type targets in
the cast table; C18-e: the conversion behind the parser was an oracle).  Nine are detected now, C20-e stays undecided (exit 2).

| seed | property | change | registered quick check | first reported line |
|---|---|---|---|---|
"""
for r in rows:
    txt += "| " + " | ".join(x.replace("|", "\\|") for x in r) + " |\n"
open(readme, "w").write(txt)
print("filed", len(rows))
