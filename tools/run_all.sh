#!/bin/bash
# run every registered quick check on the current tree, validate evidence against the schema; summary at the end
cd /verif
tier=${1:-quick}
ids=$(python3 -c "import json; print(' '.join(c['property_id'] for c in json.load(open('MANIFEST.json'))['checks']))")
fail=0
for p in $ids; do
  out=$(./check $p --tier $tier 2>&1); rc=$?
  echo "$p rc=$rc $(echo "$out" | tail -1 | cut -c1-160)"
  [ $rc -ne 0 ] && fail=1
  python3-vt - "$p" <<'PY' || fail=1
import json,sys,jsonschema
p=sys.argv[1]
ev=json.load(open(f'/verif/evidence/{p}.json'))
jsonschema.validate(ev, json.load(open('/root/.vp/EVIDENCE.schema.json')))
c=ev['coverage']
if ev['level']=='proof' and c.get('obligations')!=c.get('discharged'): print('  EVIDENCE MISMATCH', p, c.get('obligations'), c.get('discharged')); sys.exit(1)
PY
done
exit $fail
