#!/bin/bash
# confirm a seeded change in a scratch worktree: applies, suite passes with it, demo fails with it and passes without it.
# usage: confirm_seed.sh <seed-id e.g. C06-a> <crate dir for the demo> <demo file> [cargo feature args...]
set -u
id=$1; crate=$2; demo=$3; shift 3; feats="$*"
src=/verif/seeded/incoming/$id
wt=/tmp/wt/s-$id
export CARGO_TARGET_DIR=/tmp/wt/target CARGO_NET_OFFLINE=true
patch=$src/patch.diff; [ -f $src/patch_rebased.diff ] && patch=$src/patch_rebased.diff
rm -rf $wt; git -C /repo worktree prune; git -C /repo worktree add --detach $wt HEAD >/dev/null 2>&1 || { echo "$id worktree failed"; exit 2; }
cd $wt
res() { grep -E "^test result" | awk '{p+=$4; f+=$6} END {printf "%d passed %d failed", p, f}'; }
if ! git apply --check $patch 2>/dev/null; then echo "$id PATCH-DOES-NOT-APPLY ($patch)"; git -C /repo worktree remove --force $wt; exit 3; fi
git apply $patch
suite=$(cargo test --workspace --no-fail-fast --offline 2>&1 | res)
mkdir -p $crate/tests && cp $src/$demo $crate/tests/
t=$(basename $demo .rs)
with=$(cargo test -p $(basename $crate) $feats --test $t --offline 2>&1 | res)
git apply -R $patch
without=$(cargo test -p $(basename $crate) $feats --test $t --offline 2>&1 | res)
cd /; git -C /repo worktree remove --force $wt; rm -rf $wt
echo "$id patch=$(basename $patch) head=$(git -C /repo rev-parse --short HEAD) suite_with_change=[$suite] demo_with_change=[$with] demo_without_change=[$without]"
