#!/usr/bin/env python3
"""File the confirmed seeded changes under /verif/seeded/<id>/ (patch.diff, demonstration, NOTES.md, meta.json) and write
seeded/README.md.  Inputs: seeded/incoming/<id>/ (what the sub-agents returned), /tmp/vt/confirm.log (tools/confirm_seed.sh)
and /tmp/vt/verdicts.log (tools/seed_verdicts.sh).  Run by hand after both logs exist."""
import json, os, re, shutil, sys

V = "/verif/seeded"
META = {
 "C01-a": ("ts_vewm: the weight of the element leaving the window is hoisted out of the closure as oma^(window-1)",
           "null-aware ts_vewm only; a valid element leaves the window while a null sits among the newer positions (plain ts_ewm is unaffected)"),
 "C02-a": ("rolling_apply_idx_to: for a series shorter than the window the last position is never delivered to the callback",
           "window > len on the caller-buffer / index driver path"),
 "C03-a": ("ts_vmax: the rescan of the window is skipped when the entering element is null, so an expired maximum survives",
           "the cached maximum leaves the window on a step where a null enters"),
 "C04-a": ("ts_vtsf: the index shift `sum_xt -= sum` is applied also when the leaving element is null",
           "a null leaves the window while valid elements remain"),
 "C05-a": ("ts_vskew: the clamps of min_periods are swapped, the intrinsic minimum of 3 observations is lost",
           "window < 3"),
 "C06-a": ("ts_vmin/vmax/vargmin/vargmax: ties replace the extreme only in the rescan branch, not in the incremental branch",
           "the window holds its extreme value twice and the histories differ in when the last rescan happened (arg functions)"),
 "C07-a": ("VecDeque::uget reads the two halves of as_slices() in the wrong order",
           "vecdeque feature on and a wrapped ring buffer (push_front / rotate / streaming pop_front + push_back)"),
 "C08-a": ("vquantile, q > 0.5: descending selection written as the ascending comparator with swapped arguments, nulls sort first",
           "q > 0.5, at least one null and at least two valid elements"),
 "C09-a": ("vpartition / varg_partition (unsorted fast path): the infinite null pad became a finite pad of one entry per null",
           "kth + 1 > len: fewer items are yielded than the trusted length announces"),
 "C10-a": ("vpartition (sorted fast path): `.to_trust(kth + 1)` added to an iterator that yields fewer items",
           "sort = true and fewer than kth + 1 elements: collect_trusted exposes uninitialised slots"),
 "C11-a": ("vany / vall rewritten with Iterator::any / all and a closure that treats nulls as false",
           "vall on a series containing a null (nulls must be transparent)"),
 "C12-a": ("vquantile reads head[i] instead of the max / min of the selected head",
           "i != j and a head of at least two elements that select_nth leaves unordered"),
 "C13-a": ("vshift returns an all-null series when |lag| >= len, dropping the caller's fill value",
           "|n| >= len together with a non-null fill value"),
 "C14-a": ("vcut: values are rejected only outside [first edge, last edge] and then compared against upper edges only",
           "add_bounds = false and a value equal to the lowest edge (right-closed) / highest edge (left-closed): gets a label instead of an error"),
 "C15-a": ("IsNone for f32 / f64: sort_cmp overridden by total_cmp",
           "plain float element type, ascending comparison, and a sign-bit NaN, two NaNs with different payloads, or -0.0 vs 0.0"),
 "C16-a": ("TryFrom<DateTime<ms/us>> for chrono::DateTime goes through a new helper that truncates toward zero and takes |remainder|",
           "millisecond / microsecond date-times before 1970 that are not on a whole second"),
 "C17-a": ("duration_trunc (month-free): own floor arithmetic that subtracts a whole span when the remainder is zero before 1970",
           "a date-time strictly before 1970 lying exactly on a multiple of the duration"),
 "C18-a": ("TimeDelta::parse scans bytes but slices the &str with the byte indices",
           "an input containing a multi-byte UTF-8 character (str slicing panics)"),
 "C19-a": ("integer range(): the one-more-element fix-up is skipped when the truncated count is 0",
           "0 < end - start < step (the range must contain exactly its start)"),
 "C20-a": ("half_life bisection sets last_n = life + 1 without evaluating that lag",
           "the true half-life is exactly life + 1 at some bisection step: the result is one too large"),
}
DEMO_CRATE = {"C01-a": "tea-rolling", "C02-a": "tea-core", "C03-a": "tea-rolling", "C04-a": "tea-rolling", "C05-a": "tea-rolling",
              "C06-a": "tea-rolling", "C07-a": "tevec --features vecdeque", "C08-a": "tea-agg", "C09-a": "tea-map", "C10-a": "tea-map",
              "C11-a": "tea-core", "C12-a": "tea-agg", "C13-a": "tea-map", "C14-a": "tea-map", "C15-a": "tea-agg", "C16-a": "tea-time",
              "C17-a": "tea-time", "C18-a": "tea-time", "C19-a": "tea-core --features vecdeque", "C20-a": "tevec"}
NOTES = {
 "C10-a": "patch rebased onto fix 6da2664 (same one-line change); the demonstration's exact-value assertion was adjusted to the padded result of that fix",
 "C14-a": "patch rebased onto fix a6bc53b (the scan now has above_lower / below_upper); same idea: range pre-check + upper edges only",
 "C20-a": "patch rebased onto fixes 9390aa9 / f813bf0",
}

confirm = {}
for ln in open("/tmp/vt/confirm.log"):
    m = re.match(r"(C\d\d-a) patch=(\S+) head=(\S+) suite_with_change=\[(.*?)\] demo_with_change=\[(.*?)\] demo_without_change=\[(.*?)\]", ln)
    if m:
        confirm[m.group(1)] = dict(patch=m.group(2), head=m.group(3), suite=m.group(4), demo_with=m.group(5), demo_without=m.group(6))
verd = {}
for ln in open("/tmp/vt/verdicts.log"):
    m = re.match(r"(C\d\d-a) rc=(\d+) violations=(\d+) :: (.*)", ln)
    if m:
        verd[m.group(1)] = dict(rc=int(m.group(2)), violations=int(m.group(3)), first=m.group(4).strip())

rows = []
for sid in sorted(META):
    src = os.path.join(V, "incoming", sid)
    dst = os.path.join(V, sid)
    os.makedirs(dst, exist_ok=True)
    files = os.listdir(src)
    demo = [f for f in files if f.endswith(".rs")][0]
    if "patch_rebased.diff" in files:
        shutil.copy(os.path.join(src, "patch_rebased.diff"), os.path.join(dst, "patch.diff"))
        shutil.copy(os.path.join(src, "patch.diff"), os.path.join(dst, "patch_as_returned.diff"))
    else:
        shutil.copy(os.path.join(src, "patch.diff"), os.path.join(dst, "patch.diff"))
    shutil.copy(os.path.join(src, demo), os.path.join(dst, demo))
    shutil.copy(os.path.join(src, "NOTES.md"), os.path.join(dst, "NOTES.md"))
    c, v = confirm.get(sid, {}), verd.get(sid, {})
    outcome = {0: "NOT DETECTED (check passed)", 1: "DETECTED (VIOLATION)", 2: "UNDECIDED (exit 2, no alarm, no pass)"}.get(v.get("rc"), "not run")
    prop = sid.split("-")[0]
    t = os.path.splitext(demo)[0]
    crate = DEMO_CRATE[sid]
    meta = dict(
        seed=sid, property=prop, breaks=META[sid][0], needs_to_manifest=META[sid][1],
        origin="fresh sub-agent given only the property text and a scratch worktree of /repo; nothing from /verif",
        applies_to=c.get("head"), note=NOTES.get(sid),
        confirmed=dict(
            how="tools/confirm_seed.sh in a scratch worktree under /tmp/wt (removed afterwards)",
            commands=[f"git apply patch.diff", "cargo test --workspace --no-fail-fast --offline",
                      f"cp {demo} <crate>/tests/ && cargo test -p {crate} --test {t} --offline   (with the change, then after git apply -R)"],
            suite_with_change=c.get("suite"), demo_with_change=c.get("demo_with"), demo_without_change=c.get("demo_without")),
        check=dict(command=f"git -C /repo apply seeded/{sid}/patch.diff; ./check {prop} --tier quick; git -C /repo checkout -- .",
                   exit_code=v.get("rc"), violations=v.get("violations"), outcome=outcome, first_line=v.get("first")),
    )
    with open(os.path.join(dst, "meta.json"), "w") as fh:
        json.dump(meta, fh, indent=1)
    rows.append((sid, prop, META[sid][0], outcome, (v.get("first") or "")[:150]))

with open(os.path.join(V, "README.md"), "w") as fh:
    fh.write("# Seeded property-breaking changes\n\nEach directory: `patch.diff` (applies to /repo HEAD at filing time), the demonstration test, the sub-agent's NOTES.md, "
             "`meta.json` (what breaks, what it needs to manifest, what was run).  None of these changes is ever committed to /repo.\n\n"
             "| seed | property | change | registered quick check | first reported line |\n|---|---|---|---|---|\n")
    for r in rows:
        fh.write("| " + " | ".join(x.replace("|", "\\|") for x in r) + " |\n")
    fh.write("\nUNDECIDED outcomes are by design: the change introduces a construct the contract has no anchor for (a new captured variable, "
             "a new helper function, a closure of a different shape); the check then neither passes nor raises an alarm.\n")
print("filed", len(rows))
