#!/bin/bash
# usage: kani_each.sh <module> [timeout_s]  — run each harness of a module separately, print time + verdict (development aid)
mod=$1; to=${2:-180}
cd /verif/kani
for h in $(grep -oE "^fn [a-z_0-9]+|^(coarser|finer)!\(([a-z_0-9]+)" src/$mod.rs | sed -E 's/^fn //; s/^(coarser|finer)!\(//' | grep -vE "^(any_delta|small_delta|canon)$" | sort -u); do
  s=$(date +%s.%N)
  out=$(timeout $to cargo kani --output-format terse --target-dir /verif/build/kani --harness "$mod::$h" --exact 2>&1)
  e=$(date +%s.%N)
  v=$(echo "$out" | grep -E "VERIFICATION:-|Failed Checks" | tr '\n' ' ')
  printf "%s %.1fs %s\n" "$h" "$(echo "$e - $s" | bc)" "${v:-TIMEOUT/none}"
done
