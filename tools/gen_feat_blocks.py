#!/usr/bin/env python3
"""One-off generator of the repetitive //@fn blocks of contracts/units/feat.rs and featp.rs (power-sum family).
The generated text is committed and may be edited by hand afterwards; this script is not run by any check."""
import sys

def block(fn, ctx, clo, caps, k, spec, intrinsic, hints_last="", plain=False, extra_first=""):
    sums = ["self.sum", "self.sum2", "self.sum3", "self.sum4"]
    have = [c.split(":")[0].replace("mut ", "").strip() for c in caps.split(",")]
    args = []
    for i, nm in enumerate(["sum", "sum2", "sum3", "sum4"]):
        args.append(f"self.{nm}" if nm in have else "self.sum")
    largs = [a.replace("self.", "") for a in args]
    elem = "!nan(v)" if plain else "canon(v)"
    if plain:
        extra_first += '''
            assert(val(v).is_some());
            if v_rm.is_some() {
                let k = nrm(self.h@) as int;
                if k < self.h@.len() { assert(vals(adds(self.h@))[k].is_some()); assert(adds(self.h@).push(v)[k] == adds(self.h@)[k]); }
                assert(val(v_rm.unwrap()).is_some());
            }'''
        hints_last = '''
            assert(vals(adds(self.h@.push(c))) =~= vals(adds(self.h@)).push(val(v)));''' + hints_last
    pre = "forall|i: int| 0 <= i < this.view().len() ==> !nan(#[trigger] this.view()[i])" if plain else "canon_seq(this.view())"
    return f'''
//@fn name={fn} crate=tea-rolling ctx="{ctx}" props=C01,C05,C06,C08 arith=C05
//@types T::Inner=${{TI}}
//@sig fn {fn}<V: RollingDrivers<T>, O: Vec1<U>>(this: &V, window: usize, min_periods: Option<usize>, out: Option<&mut O::Buf>) -> (r: Option<O>)
//@spec
    requires
        {pre},
        out matches Some(o) ==> buf_fresh(o, this.view().len()),
        (window == 0 && out.is_none() && this.view().len() > 0) ==> panic_allowed(),
        this.view().len() <= 0x7fff_ffff,      // A-LEN
    ensures
        window >= 1 ==> delivered_each(r, match out {{ Some(o) => Some(final(o).written()), None => None }}, this.view().len(),       // #C05 one_output_per_input
            |i: int, o: U| {spec}(vals(wnd(this.view(), window, i)), mp_eff(min_periods, window, {intrinsic}), o)),                              // #C01,C05,C06 value_and_mask
//@closure 1 name={clo} trait="RollingFn<T, U>" params="v_rm: Option<T>, v: T" ret="(res: U)" push="Call {{ rm: v_rm, v: v, out: __r }}" caps="{caps}"
//@closure 1 extra
    open spec fn hist(&self) -> Seq<Call<T, U>> {{ self.h@ }}
    open spec fn elem_ok(v: T) -> bool {{ {elem} }}
    open spec fn cap_len() -> nat {{ 0x7fff_ffff }}
//@closure 1 inv
        &&& hist_wf(self.h@) && canon_seq(adds(self.h@)){" && all_some(vals(adds(self.h@)))" if plain else ""}
        &&& sums_ok(vals(win(self.h@)), self.n, {", ".join(args)}, {k})         // #C01 state_describes_window
        &&& self.min_periods >= {intrinsic}
        &&& outs_ok(self.h@, |w: Seq<T>, o: U| {spec}(vals(w), self.min_periods as int, o))
//@at closure 1 first
        let ghost w0 = vals(win(self.h@));
        let ghost wp = w0.push(val(v));
        proof {{
            broadcast use a_real, a_real_cmp;
            ax_lits();
            reveal_with_fuel(rpow, 4);
            lemma_step_vals(self.h@, v_rm, v);
            lemma_small_products(self.n as int); lemma_small_products(self.n as int + 1);{extra_first}
        }}
//@at closure 1 last
        proof {{
            let c = Call {{ rm: v_rm, v: v, out: __r }};
            lemma_fifo_step(self.h@, c);
            if v_rm.is_some() {{ assert(v_rm.unwrap() == adds(self.h@).push(v)[nrm(self.h@) as int]); }}
            assert(adds(self.h@.push(c)) =~= adds(self.h@).push(v));{hints_last}
            assert({spec}(vals(win(self.h@).push(v)), self.min_periods as int, __r));       // #C01,C05 output_is_window_statistic
            lemma_outs_step(self.h@, c, |w: Seq<T>, o: U| {spec}(vals(w), self.min_periods as int, o));
            assert(sums_ok(vals(win(self.h@.push(c))), n, {", ".join(largs)}, {k}));              // #C01 state_describes_window
        }}
//@at body first
    let ghost mp0 = min_periods;
    let ghost out0 = out;
    proof {{ ax_lits(); }}
//@at body last
    proof {{
        let h = __clo1.h@;
        let s = outs(h);
        if window >= 1 {{
            let p = |i: int, o: U| {spec}(vals(wnd(this.view(), window, i)), mp_eff(mp0, window, {intrinsic}), o);
            assert forall|i: int| 0 <= i < s.len() implies p(i, #[trigger] s[i]) by {{
                lemma_fifo_window_is_wnd(h, this.view(), window, i);
                assert({spec}(vals(fifo_window(h, i)), __clo1.min_periods as int, h[i].out));
            }}
            lemma_delivered_each(__ret, match out0 {{ Some(o) => Some(final(o).written()), None => None }}, s, p);
        }}
    }}
//@end
'''

VAR_HINT = '''
            if cnt(wp) >= 2 { lemma_var_forms(ps(wp, 1), ps(wp, 2), cnt(wp) as real); }'''
STD_HINT = '''
            if cnt(wp) >= 2 {
                lemma_var_forms(ps(wp, 1), ps(wp, 2), cnt(wp) as real);
                if biased_var(wp) > 0real { lemma_scaled_pos(biased_var(wp), cnt(wp) as real); }
            }'''
SKEW_HINT = '''
            if cnt(wp) >= 3 && biased_var(wp) > rv(EPS) {
                let vv = biased_var(wp);
                ax_rsqrt(vv);
                let s = rsqrt(vv);
                assert(s > 0real) by(nonlinear_arith) requires s >= 0real, s * s == vv, vv > 0real;
                lemma_skew_core(em(wp, 3), em(wp, 1), s, em(wp, 2));
                ax_rsqrt((cnt(wp) * (cnt(wp) - 1)) as real);
            }'''
KURT_HINT = '''
            if cnt(wp) >= 4 && biased_var(wp) > rv(EPS) {
                lemma_kurt_core(em(wp, 4), em(wp, 3), em(wp, 1), biased_var(wp), em(wp, 2));
                reveal_with_fuel(ipow, 3);
            }'''
VALID = "pub trait RollingValidFeature"
PLAIN = "pub trait RollingFeature"
which = sys.argv[1]
out = []
if which == "valid2":
    out.append(block("ts_vskew_to", VALID, "CloVskew", "mut n: usize, mut sum: f64, mut sum2: f64, mut sum3: f64, min_periods: usize", 3, "skew_spec", 3, SKEW_HINT, extra_first=SKEW_HINT))
    out.append(block("ts_vkurt_to", VALID, "CloVkurt", "mut n: usize, mut sum: f64, mut sum2: f64, mut sum3: f64, mut sum4: f64, min_periods: usize", 4, "kurt_spec", 4, KURT_HINT, extra_first=KURT_HINT))
elif which == "plain2":
    out.append(block("ts_skew_to", PLAIN, "CloSkew", "mut n: usize, mut sum: f64, mut sum2: f64, mut sum3: f64, min_periods: usize", 3, "skew_spec", 3, SKEW_HINT, plain=True, extra_first=SKEW_HINT))
    out.append(block("ts_kurt_to", PLAIN, "CloKurt", "mut n: usize, mut sum: f64, mut sum2: f64, mut sum3: f64, mut sum4: f64, min_periods: usize", 4, "kurt_spec", 4, KURT_HINT, plain=True, extra_first=KURT_HINT))
elif which == "valid":
    out.append(block("ts_vmean_to", VALID, "CloVmean", "mut n: usize, mut sum: f64, min_periods: usize", 1, "mean_spec", 0))
    out.append(block("ts_vvar_to", VALID, "CloVvar", "mut n: usize, mut sum: f64, mut sum2: f64, min_periods: usize", 2, "var_spec", 2, VAR_HINT))
    out.append(block("ts_vstd_to", VALID, "CloVstd", "mut n: usize, mut sum: f64, mut sum2: f64, min_periods: usize", 2, "std_spec", 2, STD_HINT))
else:
    out.append(block("ts_sum_to", PLAIN, "CloSum", "mut n: usize, mut sum: f64, min_periods: usize", 1, "sum_spec", 0, plain=True))
    out.append(block("ts_mean_to", PLAIN, "CloMean", "mut n: usize, mut sum: f64, min_periods: usize", 1, "mean_spec", 0, plain=True))
    out.append(block("ts_var_to", PLAIN, "CloVar", "mut n: usize, mut sum: f64, mut sum2: f64, min_periods: usize", 2, "var_spec", 2, VAR_HINT, plain=True))
    out.append(block("ts_std_to", PLAIN, "CloStd", "mut n: usize, mut sum: f64, mut sum2: f64, min_periods: usize", 2, "std_spec", 2, STD_HINT, plain=True))
print("".join(out))
