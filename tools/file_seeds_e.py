#!/usr/bin/env python3
"""File the sixth seed batch (seeded/incoming/<id>-d) under /verif/seeded/<id>-d/ and append its table to seeded/README.md.
Inputs: /tmp/vt/confirm_e.log (tools/confirm_seed.sh), /tmp/vt/verdicts_e_arrival.log and /tmp/vt/verdicts_e_final.log."""
import json, os, re, shutil

V = "/verif/seeded"
META = {
 "C01-d": ("ts_vstd: the clamps of min_periods swapped (`.max(2).min(window)` instead of `.min(window).max(2)`)",
           "window 1: one observation is accepted and 0 is returned where the sample deviation is undefined (null)",
           "tea-rolling", "detected as the checks stood (feat unit: the closure invariant min_periods >= 2)"),
 "C02-d": ("Vec / slice / array override of rolling2_apply: an 'expanding window' fast path for window >= len that never reports a removed pair",
           "window == len on the returned path: the final position must be told the pair at the window start",
           "tea-core", "UNDECIDED as the checks stood (the rewritten fast path calls the callback inside an iterator closure: no anchor); detected after bounded harnesses of the five Vec fast-path drivers (k_backend::bounded_drivers_vec_*) joined C02 / C07"),
 "C03-d": ("ts_vmin: the expiry test and rescan moved inside `if v.is_some()`",
           "the cached minimum leaves the window on a step where a null enters",
           "tea-rolling", "detected as the checks stood (cmp unit: cached_minimum_describes_window)"),
 "C04-d": ("ts_vregx_alpha: the sums of the regressor are updated whenever x is valid, not only for complete pairs",
           "a window with y null where x is valid",
           "tea-rolling", "detected as the checks stood - by the contract of ts_vregx_alpha_to that had been written in the previous pass without a seed asking for it"),
 "C05-d": ("ts_vstd: min_periods computed with `.clamp(2, window)`, which panics for window 1",
           "window 1 (any data, any length)",
           "tea-rolling", "detected as the checks stood (feat unit: precondition of the closure / clamp)"),
 "C09-d": ("rolling_custom_iter rewritten in two phases with the window clamped to the length, without the guard for an empty series",
           "an empty series on a backend without a rolling_custom override (VecDeque): one item is yielded while 0 are announced, the trusted collector writes past an empty allocation",
           "tea-core", "MISSED as the checks stood (the default slice-driver body was listed as not covered); detected after bounded harnesses of rolling_custom_iter / rolling_custom on a VecDeque of length 0, 1, 3 (k_backend::bounded_slice_driver_vecdeque_*) joined C02 / C07 / C09"),
 "C11-d": ("vskew: the guard before the sample-size adjustment simplified to `res > 0.`",
           "left-skewed data (negative third central moment): the unadjusted skewness is returned",
           "tea-core", "detected as the checks stood (agg unit)"),
 "C12-d": ("vrank with pct = true: the valid count replaced by len when the LAST INPUT element is valid",
           "pct = true, at least one null, last input element valid",
           "tea-map", "detected as the checks stood - by the bounded vrank harness added in the previous pass (k_map::rank_bounded_len2)"),
 "C13-d": ("bfill_mask: the default is moved out with `value.take()` instead of cloned",
           "bfill with a non-null default and at least two trailing nulls: only one of them gets the default",
           "tea-map", "UNDECIDED as the checks stood (the capture `value` became mutable: lost anchor); detected after a bounded ffill / bfill harness (k_map::bounded_ffill_bfill) joined C13"),
 "C17-d": ("Time::as_cr: a guard `!self.0.is_positive()` that also rejects midnight",
           "the time of day 00:00:00.000000000: no calendar value, the component getters panic",
           "tea-time", "MISSED as the checks stood (the symbolic component harness runs in the thorough tier only: 38 min); detected after harnesses over four listed times of day (midnight among them) joined the quick tier of C17"),
}
def parse(path, pat):
    out = {}
    for ln in open(path):
        m = re.match(pat, ln)
        if m:
            out[m.group(1)] = m.groups()[1:]
    return out
confirm = parse("/tmp/vt/confirm_e.log", r"(C\d\d-d) patch=(\S+) head=(\S+) suite_with_change=\[(.*?)\] demo_with_change=\[(.*?)\] demo_without_change=\[(.*?)\]")
arr = parse("/tmp/vt/verdicts_e_arrival.log", r"(C\d\d-d) rc=(\d+) violations=(\d+) :: (.*)")
verd = parse("/tmp/vt/verdicts_e_final.log", r"(C\d\d-d) rc=(\d+) violations=(\d+) :: (.*)")
OUT = {0: "NOT DETECTED (check passed)", 1: "DETECTED (VIOLATION)", 2: "UNDECIDED (exit 2, no alarm, no pass)"}
rows = []
for sid in sorted(META):
    src, dst = os.path.join(V, "incoming", sid), os.path.join(V, sid)
    os.makedirs(dst, exist_ok=True)
    files = os.listdir(src)
    demo = [f for f in files if f.endswith(".rs")][0]
    for f in ("patch.diff", demo, "NOTES.md"):
        shutil.copy(os.path.join(src, f), os.path.join(dst, f))
    c, v, a0 = confirm.get(sid), verd.get(sid), arr.get(sid)
    rc = int(v[0]) if v else None
    prop = sid.split("-")[0]
    breaks, needs, crate, hist = META[sid]
    meta = dict(
        seed=sid, property=prop, breaks=breaks, needs_to_manifest=needs,
        origin="seventh batch: fresh sub-agent given only the property text and a scratch worktree of /repo; nothing from /verif; asked to avoid the functions its siblings changed",
        applies_to=c[1] if c else None,
        confirmed=dict(how="tools/confirm_seed.sh in a scratch worktree under /tmp/wt (removed afterwards)",
                       commands=["git apply patch.diff", "cargo test --workspace --no-fail-fast --offline",
                                 f"cp {demo} <crate>/tests/ && cargo test -p {crate} --test {os.path.splitext(demo)[0]} --offline   (with the change, then after git apply -R)"],
                       suite_with_change=c[2] if c else None, demo_with_change=c[3] if c else None, demo_without_change=c[4] if c else None),
        check=dict(command=f"git -C /repo apply seeded/{sid}/patch.diff; ./check {prop} --tier quick; git -C /repo checkout -- .",
                   exit_code=rc, violations=int(v[1]) if v else None, outcome=OUT.get(rc, "not run"), first_line=v[2].strip() if v else None,
                   at_arrival=dict(exit_code=int(a0[0]), outcome=OUT.get(int(a0[0])), first_line=a0[2].strip()[:200]) if a0 else None, history=hist),
    )
    json.dump(meta, open(os.path.join(dst, "meta.json"), "w"), indent=1)
    rows.append((sid, prop, breaks, f"{OUT.get(rc, 'not run')} - {hist}", (v[2].strip() if v else "")[:150]))
readme = os.path.join(V, "README.md")
txt = open(readme).read()
mark = "\n## Seventh batch\n"
if mark in txt:
    txt = txt[:txt.index(mark)]
txt = txt.rstrip("\n") + "\n" + mark + """
Ten more seeds (a fourth one for the ten properties of the fifth batch; ids `C01-d` .. `C17-d`).  As the checks stood when they arrived:
6 detected, 2 undecided (C02-d, C13-d) and 2 missed (C09-d: default slice-driver body, listed as not covered; C17-d: the component
harness of Time ran in the thorough tier only).  Two of the six were caught by contracts / harnesses written in the previous pass
without a seed asking for them (ts_vregx_alpha_to, vrank).  All ten are detected now.

| seed | property | change | registered quick check | first reported line |
|---|---|---|---|---|
"""
for r in rows:
    txt += "| " + " | ".join(x.replace("|", "\\|") for x in r) + " |\n"
open(readme, "w").write(txt)
print("filed", len(rows))
