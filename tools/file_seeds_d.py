#!/usr/bin/env python3
"""File the sixth seed batch (seeded/incoming/<id>-d) under /verif/seeded/<id>-d/ and append its table to seeded/README.md.
Inputs: /tmp/vt/confirm_d.log (tools/confirm_seed.sh), /tmp/vt/verdicts_d_arrival.log and /tmp/vt/verdicts_d_final.log."""
import json, os, re, shutil

V = "/verif/seeded"
META = {
 "C06-d": ("ts_vminmaxnorm: the four-arm expiry match de-duplicated into `if max expired {..} else if min expired {..}`: when both extremes leave in the same step only the maximum is refreshed",
           "both extremes expire together: window 1 on finite data, or larger windows across a null gap; the output then depends on values before the window",
           "tea-rolling", "MISSED as the checks stood (C06 did not run the bounded rolling backstop; C03 / C05 would have reported it); detected after the group roll_c03_bounded joined C06"),
 "C07-d": ("ndarray backend: an `unsafe fn uslice` override that builds the window view from the data pointer with stride 1 (the view's own stride is dropped)",
           "feature ndarray, a strided / reversed view, and a slice-based driver (rolling_custom, rolling2_custom, ts_fdiff)",
           "tea-core --features ndarray,vecdeque", "MISSED as the checks stood (k_nd compared `slice` but not `uslice`, and did not run rolling_custom); detected after uslice joined the accessor harnesses and rolling_custom the driver harnesses"),
 "C08-d": ("ts_vmin: the rescan after expiry compares Option values with `<=` (None sorts below every Some) instead of the null-last comparator",
           "the minimum expires while the window holds a null: the output is null although valid elements are present",
           "tea-rolling", "MISSED as the checks stood (C08 did not look at the rolling extrema; C03 ends UNDECIDED on the rewritten comparison); detected after the unit cmp and a bounded extrema harness (k_roll::bounded_rolling_c03_extrema) joined C08"),
 "C10-d": ("rolling2_apply_to: the assert refusing a shorter second series replaced by `len = min(self.len(), other.len())`",
           "second series shorter than the first with a caller buffer or the Vec fast path: the tail of the output is never written",
           "tea-rolling", "detected as the checks stood (drv unit: loop invariant len == this.view().len())"),
 "C14-d": ("vcut: the two label-count tests merged into `labels.len().abs_diff(bins.len()) != 1`",
           "a label count that is right for the OTHER bound mode (off by two): accepted, wrong labels instead of an error",
           "tea-map", "UNDECIDED as the checks stood (usize::abs_diff had no specification in the model); detected after an assumed specification of abs_diff was added to the cut unit"),
 "C15-d": ("Cast<T> for Option<T> (same type): `unwrap_or_default()` instead of `unwrap_or_else(T::none)`",
           "Option<f64>::None -> f64 and Option<f32>::None -> f32 give 0.0 instead of NaN",
           "tea-dtype", "detected as the checks stood (k_dtype::cast_same_type)"),
 "C16-d": ("into_unit rewritten as multiply to nanoseconds, then floor-divide to the target unit (new helper nanos_per_unit)",
           "second / millisecond / microsecond timestamps outside the i64 nanosecond window: overflow",
           "tea-time", "UNDECIDED as the checks stood (new helper function: no anchor); detected after loop-free totality harnesses for every unit pair (no overflow wherever the result is representable) joined the group time_unit_identity"),
 "C18-d": ("DateTime::strftime: default format changed to \"%Y-%m-%d %H:%M:%S%.f\"",
           "a date-time with a sub-second part formatted with the default format no longer parses back to the same instant",
           "tea-time", "MISSED as the checks stood (strftime / DateTime::parse were listed as not covered); detected after the unit fmt put strftime, DateTime::parse and Time::parse under contract (default format = entry 1 of the parser's table, on the real literals)"),
 "C19-d": ("Vec::try_collect_from_trusted: the early return on an error replaced by a loop that remembers the LAST error",
           "an iterator with two errors (the later one is returned) - or a side-effecting iterator (it is drained to the end)",
           "tea-core", "MISSED as the checks stood (the collectors were not under any check); detected after the bounded collector harnesses k_collect joined C19"),
 "C20-d": ("winsorize, Median method: clipping skipped when the MAD is <= EPS",
           "more than half of the valid values equal the median, plus an outlier: the outlier is left unclipped",
           "tevec", "MISSED as the checks stood (winsorize was listed as not covered); detected after the unit wins put winsorize and vcorr under contract"),
}
def parse(path, pat):
    out = {}
    for ln in open(path):
        m = re.match(pat, ln)
        if m:
            out[m.group(1)] = m.groups()[1:]
    return out
confirm = parse("/tmp/vt/confirm_d.log", r"(C\d\d-d) patch=(\S+) head=(\S+) suite_with_change=\[(.*?)\] demo_with_change=\[(.*?)\] demo_without_change=\[(.*?)\]")
arr = parse("/tmp/vt/verdicts_d_arrival.log", r"(C\d\d-d) rc=(\d+) violations=(\d+) :: (.*)")
verd = parse("/tmp/vt/verdicts_d_final.log", r"(C\d\d-d) rc=(\d+) violations=(\d+) :: (.*)")
OUT = {0: "NOT DETECTED (check passed)", 1: "DETECTED (VIOLATION)", 2: "UNDECIDED (exit 2, no alarm, no pass)"}
rows = []
for sid in sorted(META):
    src, dst = os.path.join(V, "incoming", sid), os.path.join(V, sid)
    os.makedirs(dst, exist_ok=True)
    files = os.listdir(src)
    demo = [f for f in files if f.endswith(".rs")][0]
    for f in ("patch.diff", demo, "NOTES.md"):
        shutil.copy(os.path.join(src, f), os.path.join(dst, f))
    c, v, a0 = confirm.get(sid), verd.get(sid), arr.get(sid)
    rc = int(v[0]) if v else None
    prop = sid.split("-")[0]
    breaks, needs, crate, hist = META[sid]
    meta = dict(
        seed=sid, property=prop, breaks=breaks, needs_to_manifest=needs,
        origin="sixth batch: fresh sub-agent given only the property text and a scratch worktree of /repo; nothing from /verif; asked to avoid the functions its siblings changed",
        applies_to=c[1] if c else None,
        confirmed=dict(how="tools/confirm_seed.sh in a scratch worktree under /tmp/wt (removed afterwards)",
                       commands=["git apply patch.diff", "cargo test --workspace --no-fail-fast --offline",
                                 f"cp {demo} <crate>/tests/ && cargo test -p {crate} --test {os.path.splitext(demo)[0]} --offline   (with the change, then after git apply -R)"],
                       suite_with_change=c[2] if c else None, demo_with_change=c[3] if c else None, demo_without_change=c[4] if c else None),
        check=dict(command=f"git -C /repo apply seeded/{sid}/patch.diff; ./check {prop} --tier quick; git -C /repo checkout -- .",
                   exit_code=rc, violations=int(v[1]) if v else None, outcome=OUT.get(rc, "not run"), first_line=v[2].strip() if v else None,
                   at_arrival=dict(exit_code=int(a0[0]), outcome=OUT.get(int(a0[0])), first_line=a0[2].strip()[:200]) if a0 else None, history=hist),
    )
    json.dump(meta, open(os.path.join(dst, "meta.json"), "w"), indent=1)
    rows.append((sid, prop, breaks, f"{OUT.get(rc, 'not run')} - {hist}", (v[2].strip() if v else "")[:150]))
readme = os.path.join(V, "README.md")
txt = open(readme).read()
mark = "\n## Sixth batch\n"
if mark in txt:
    txt = txt[:txt.index(mark)]
txt = txt.rstrip("\n") + "\n" + mark + """
Ten more seeds (`-d`) for the properties that had two seeds so far.  As the checks stood when they arrived: 2 detected (C10-d, C15-d),
2 undecided (C14-d, C16-d) and **6 missed** (C06-d, C07-d, C08-d, C18-d, C19-d, C20-d) - again every miss was a function, an accessor
or a plan entry no check looked at.  All ten are detected now; the extensions are in the table and in DESIGN 11.8.

| seed | property | change | registered quick check | first reported line |
|---|---|---|---|---|
"""
for r in rows:
    txt += "| " + " | ".join(x.replace("|", "\\|") for x in r) + " |\n"
open(readme, "w").write(txt)
print("filed", len(rows))
