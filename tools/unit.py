#!/usr/bin/env python3
"""developer helper: generate one unit from /repo and run Verus on it.  usage: tools/unit.py <unit> [verus args...]"""
import os, subprocess, sys
sys.path.insert(0, os.path.dirname(os.path.dirname(os.path.abspath(__file__))))
from vlib import run
try:
    u = run.generate(sys.argv[1])
except run.Undecided as e:
    print("UNDECIDED", e); sys.exit(2)
print("generated", u.path)
args = sys.argv[2:]
path = u.path
if "--vacuity" in args:          # run the vacuity twin file instead (every vacuity_* function must FAIL)
    args.remove("--vacuity"); path = u.vac.path
sys.exit(subprocess.call(["verus", path, "--multiple-errors", "8"] + args))
