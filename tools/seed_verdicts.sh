#!/bin/bash
# run the registered quick check of a seed's property against the seeded change applied to /repo, then undo it.
# usage: seed_verdicts.sh <seed-id>...   (patch_rebased.diff is used when present)
cd /verif
for id in "$@"; do
  prop=${id%%-*}
  src=seeded/$id; [ -d $src ] || src=seeded/incoming/$id
  patch=$src/patch.diff; [ -f $src/patch_rebased.diff ] && patch=$src/patch_rebased.diff
  if ! git -C /repo apply --check $PWD/$patch 2>/dev/null; then echo "$id: patch does not apply"; continue; fi
  git -C /repo apply $PWD/$patch
  out=$(./check $prop --tier quick 2>&1); rc=$?
  git -C /repo checkout -- .
  n=$(echo "$out" | grep -c '^VIOLATION')
  first=$(echo "$out" | grep -m1 '^FAILED-OBLIGATION\|^UNDECIDED\|^OK' | cut -c1-220)
  echo "$id rc=$rc violations=$n :: $first"
done
