use vstd::prelude::*;
use vstd::std_specs::ops::*;
verus! {
// ============ A-REAL ============
pub uninterp spec fn rv(x: f64) -> real;
pub uninterp spec fn nan(x: f64) -> bool;
pub broadcast axiom fn ax_add_req(a: f64, b: f64) ensures #[trigger] a.add_req(b);
pub broadcast axiom fn ax_add(a: f64, b: f64) ensures rv(#[trigger] a.add_spec(b)) == rv(a) + rv(b), (!nan(a) && !nan(b)) ==> !nan(a.add_spec(b));
pub broadcast axiom fn ax_add_o() ensures #[trigger] <f64 as AddSpec<f64>>::obeys_add_spec();
pub broadcast axiom fn ax_sub_req(a: f64, b: f64) ensures #[trigger] a.sub_req(b);
pub broadcast axiom fn ax_sub(a: f64, b: f64) ensures rv(#[trigger] a.sub_spec(b)) == rv(a) - rv(b), (!nan(a) && !nan(b)) ==> !nan(a.sub_spec(b));
pub broadcast axiom fn ax_sub_o() ensures #[trigger] <f64 as SubSpec<f64>>::obeys_sub_spec();
pub broadcast axiom fn ax_mul_req(a: f64, b: f64) ensures #[trigger] a.mul_req(b);
pub broadcast axiom fn ax_mul(a: f64, b: f64) ensures rv(#[trigger] a.mul_spec(b)) == rv(a) * rv(b), (!nan(a) && !nan(b)) ==> !nan(a.mul_spec(b));
pub broadcast axiom fn ax_mul_o() ensures #[trigger] <f64 as MulSpec<f64>>::obeys_mul_spec();
pub broadcast group a_real { ax_add_req, ax_add, ax_add_o, ax_sub_req, ax_sub, ax_sub_o, ax_mul_req, ax_mul, ax_mul_o }

// ============ protocol ============
pub struct Call<T, OT> { pub rm: Option<T>, pub v: T, pub out: OT }
pub open spec fn adds<T, OT>(h: Seq<Call<T, OT>>) -> Seq<T> { Seq::new(h.len(), |i: int| h[i].v) }
pub open spec fn nrm<T, OT>(h: Seq<Call<T, OT>>) -> nat decreases h.len() {
    if h.len() == 0 { 0 } else { nrm(h.drop_last()) + if h.last().rm.is_some() { 1nat } else { 0nat } }
}
pub open spec fn fifo_ok<T, OT>(h: Seq<Call<T, OT>>, rm: Option<T>, v: T) -> bool {
    rm.is_some() ==> nrm(h) <= h.len() && rm.unwrap() == adds(h).push(v)[nrm(h) as int]
}
// window after all removals so far
pub open spec fn win<T, OT>(h: Seq<Call<T, OT>>) -> Seq<T> { adds(h).subrange(nrm(h) as int, h.len() as int) }
pub open spec fn hist_wf<T, OT>(h: Seq<Call<T, OT>>) -> bool { nrm(h) <= h.len() }

// ============ window statistics over Option<f64> ============
pub open spec fn pw(v: Option<f64>, k: nat) -> real {
    match v { None => 0real, Some(x) => if k == 1 { rv(x) } else { rv(x) * rv(x) } }
}
pub open spec fn cv(v: Option<f64>) -> int { if v.is_some() { 1 } else { 0 } }
pub open spec fn ps(s: Seq<Option<f64>>, k: nat) -> real decreases s.len() {
    if s.len() == 0 { 0real } else { ps(s.drop_last(), k) + pw(s.last(), k) }
}
pub open spec fn cnt(s: Seq<Option<f64>>) -> int decreases s.len() {
    if s.len() == 0 { 0 } else { cnt(s.drop_last()) + cv(s.last()) }
}
proof fn lemma_push(s: Seq<Option<f64>>, v: Option<f64>, k: nat)
    ensures ps(s.push(v), k) == ps(s, k) + pw(v, k), cnt(s.push(v)) == cnt(s) + cv(v)
{ assert(s.push(v).drop_last() =~= s); }
proof fn lemma_drop_first(s: Seq<Option<f64>>, k: nat)
    requires s.len() > 0
    ensures ps(s.subrange(1, s.len() as int), k) == ps(s, k) - pw(s[0], k), cnt(s.subrange(1, s.len() as int)) == cnt(s) - cv(s[0]), cnt(s) >= cv(s[0])
    decreases s.len()
{
    let t = s.subrange(1, s.len() as int);
    if s.len() == 1 {
        assert(t.len() == 0); assert(s.drop_last().len() == 0); assert(s.last() == s[0]);
        assert(ps(s, k) == ps(s.drop_last(), k) + pw(s.last(), k));
        assert(cnt(s) == cnt(s.drop_last()) + cv(s.last()));
    } else {
        let sd = s.drop_last();
        lemma_drop_first(sd, k);
        assert(t.drop_last() =~= sd.subrange(1, sd.len() as int));
        assert(t.last() == s.last());
        assert(sd[0] == s[0]);
        lemma_cnt_nonneg(sd);
        assert(ps(s, k) == ps(sd, k) + pw(s.last(), k));
        assert(ps(t, k) == ps(t.drop_last(), k) + pw(t.last(), k));
        assert(cnt(s) == cnt(sd) + cv(s.last()));
        assert(cnt(t) == cnt(t.drop_last()) + cv(t.last()));
    }
}
proof fn lemma_cnt_nonneg(s: Seq<Option<f64>>) ensures cnt(s) >= 0 decreases s.len() { if s.len() > 0 { lemma_cnt_nonneg(s.drop_last()); } }

// ============ closure-converted ts_vsum-like (sum + sum2 + n), T = Option<f64> ============
type T = Option<f64>;
pub struct Clo { pub n: usize, pub sum: f64, pub sum2: f64, pub h: Ghost<Seq<Call<T, f64>>> }
impl Clo {
    pub open spec fn canon(h: Seq<Call<T, f64>>) -> bool { forall |i: int| 0 <= i < h.len() ==> (#[trigger] h[i]).v.is_some() ==> !nan(h[i].v.unwrap()) }
    pub open spec fn inv(&self) -> bool {
        &&& hist_wf(self.h@) && Self::canon(self.h@)
        &&& self.n as int == cnt(win(self.h@))
        &&& rv(self.sum) == ps(win(self.h@), 1) && !nan(self.sum)
        &&& rv(self.sum2) == ps(win(self.h@), 2) && !nan(self.sum2)
    }
    fn call(&mut self, v_rm: Option<T>, v: T) -> (r: f64)
        requires old(self).inv(), fifo_ok(old(self).h@, v_rm, v), v.is_some() ==> !nan(v.unwrap()), old(self).h@.len() < usize::MAX
        ensures final(self).inv(), final(self).h@ == old(self).h@.push(Call { rm: v_rm, v, out: r }),
                rv(r) == ps(win(old(self).h@).push(v), 2)      // output describes the window before this call's removal
    {
        broadcast use a_real;
        let (mut n, mut sum, mut sum2) = (self.n, self.sum, self.sum2);
        proof { lemma_push(win(self.h@), v, 1); lemma_push(win(self.h@), v, 2); lemma_cnt_le_len(win(self.h@)); assert(win(self.h@).len() <= self.h@.len()); if v_rm.is_some() { let wp = win(self.h@).push(v); assert(adds(self.h@).push(v).subrange(nrm(self.h@) as int, (self.h@.len() + 1) as int) =~= wp); assert(wp[0] == v_rm.unwrap()); lemma_drop_first(wp, 1); } }
        let __r = {
                if v.is_some() {
                    let v = v.unwrap();
                    n += 1;
                    sum = sum + v;
                    sum2 = sum2 + v * v
                }
                let res = sum2;
                if let Some(v) = v_rm {
                    if v.is_some() {
                        let v = v.unwrap();
                        n -= 1;
                        sum = sum - v;
                        sum2 = sum2 - v * v
                    }
                }
                res
        };
        proof {
            let h0 = self.h@; let h1 = h0.push(Call { rm: v_rm, v, out: __r });
            assert(h1.drop_last() =~= h0);
            assert(adds(h1) =~= adds(h0).push(v));
            let w0 = win(h0); let wp = w0.push(v);
            assert(wp =~= adds(h1).subrange(nrm(h0) as int, h1.len() as int));
            if v_rm.is_some() {
                assert(wp[0] == v_rm.unwrap());
                lemma_drop_first(wp, 1); lemma_drop_first(wp, 2);
                assert(win(h1) =~= wp.subrange(1, wp.len() as int));
            } else {
                assert(win(h1) =~= wp);
            }
            self.h = Ghost(h1);
        }
        self.n = n; self.sum = sum; self.sum2 = sum2;
        __r
    }
}
proof fn lemma_cnt_le_len(s: Seq<Option<f64>>) ensures 0 <= cnt(s) <= s.len() decreases s.len() { if s.len() > 0 { lemma_cnt_le_len(s.drop_last()); } }
} // verus!
fn main() {}
