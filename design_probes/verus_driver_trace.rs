use vstd::prelude::*;
verus! {

// ---- prelude: contracts for the traits the drivers are written against ----
pub trait Vec1View<T> {
    spec fn view(&self) -> Seq<T>;
    fn len(&self) -> (r: usize) ensures r == self.view().len();
    fn uget(&self, index: usize) -> (r: T)
        requires index < self.view().len()
        ensures r == self.view()[index as int];
}

pub trait UninitRefMut<OT> {
    spec fn cap(&self) -> nat;
    spec fn written(&self) -> Map<int, OT>;
    fn uset(&mut self, idx: usize, v: OT)
        requires idx < old(self).cap(), !old(self).written().dom().contains(idx as int)
        ensures final(self).cap() == old(self).cap(),
                final(self).written() == old(self).written().insert(idx as int, v);
}

pub trait RollingFn<T, OT> {
    spec fn hist(&self) -> Seq<(Option<T>, T, OT)>;
    spec fn pre(&self, rm: Option<T>, v: T) -> bool;
    fn call(&mut self, rm: Option<T>, v: T) -> (r: OT)
        requires old(self).pre(rm, v)
        ensures final(self).hist() == old(self).hist().push((rm, v, r));
}

fn rolling_apply_to<V: Vec1View<T>, T, O: UninitRefMut<OT>, OT, F: RollingFn<T, OT>>(
        this: &V,
        window: usize,
        f: &mut F,
        out: &mut O,
    )
    requires old(out).cap() == this.view().len(), old(out).written() == Map::<int, OT>::empty(),
      old(f).hist().len() == 0,
      forall |g: F, a: Option<T>, b: T| g.pre(a, b),
    ensures
      window >= 1 ==> final(f).hist().len() == this.view().len(),
      window >= 1 ==> forall |i: int| 0 <= i < this.view().len() ==> final(out).written().dom().contains(i),
    {
        let len = this.len();
        let window = if window < len { window } else { len };
        if window == 0 {
            return;
        }
        // within the first window
        for i in 0..window - 1
          invariant window <= len, len == this.view().len(), out.cap() == len,
             f.hist().len() == i,
             forall |g: F, a: Option<T>, b: T| g.pre(a, b),
             forall |j: int| out.written().dom().contains(j) <==> 0 <= j < i,
        {
                // no value should be removed in the first window
                out.uset(i, f.call(None, this.uget(i)))
        }
        // other windows
        let mut start = 0usize;
        for end in window - 1..len 
          invariant window <= len, len == this.view().len(), out.cap() == len, window >= 1,
             start == end - (window - 1),
             f.hist().len() == end,
             forall |g: F, a: Option<T>, b: T| g.pre(a, b),
             forall |j: int| out.written().dom().contains(j) <==> 0 <= j < end,
        {
                // new valid value
                let (v_rm, v) = (this.uget(start), this.uget(end));
                out.uset(end, f.call(Some(v_rm), v));
                start += 1;
        }
    }
} // verus!
fn main() {}
