use vstd::prelude::*;
verus! {
pub open spec fn psum(s: Seq<real>, k: nat) -> real decreases s.len() {
    if s.len() == 0 { 0real } else { psum(s.drop_last(), k) + rpow(s.last(), k) }
}
pub open spec fn rpow(x: real, k: nat) -> real decreases k { if k == 0 { 1real } else { x * rpow(x, (k - 1) as nat) } }
pub open spec fn csum(s: Seq<real>, m: real, k: nat) -> real decreases s.len() {
    if s.len() == 0 { 0real } else { csum(s.drop_last(), m, k) + rpow(s.last() - m, k) }
}
proof fn pow_unfold(x: real)
  ensures rpow(x, 1) == x, rpow(x, 2) == x * x, rpow(x, 3) == x * x * x, rpow(x,4) == x*x*x*x, rpow(x, 0) == 1real
{
    reveal_with_fuel(rpow, 5);
    assert(rpow(x, 3) == x * (x * x));
    assert(x * (x * x) == x * x * x) by(nonlinear_arith);
    assert(rpow(x, 4) == x * (x * (x * x)));
    assert(x * (x * (x * x)) == x * x * x * x) by(nonlinear_arith);
}
proof fn c3(s: Seq<real>, m: real)
  ensures csum(s, m, 3) == psum(s, 3) - 3real * m * psum(s, 2) + 3real * m * m * psum(s, 1) - (s.len() as real) * m * m * m
  decreases s.len()
{
    if s.len() == 0 { } else {
        c3(s.drop_last(), m);
        let x = s.last();
        pow_unfold(x); pow_unfold(x - m);
        let p3 = psum(s.drop_last(), 3); let p2 = psum(s.drop_last(), 2); let p1 = psum(s.drop_last(), 1);
        let n1 = (s.len() - 1) as real;
        assert((s.len() as real) == n1 + 1real);
        assert((x - m) * (x - m) * (x - m) == x * x * x - 3real * m * (x * x) + 3real * m * m * x - m * m * m) by(nonlinear_arith);
        assert(p3 - 3real * m * p2 + 3real * m * m * p1 - n1 * m * m * m + (x * x * x - 3real * m * (x * x) + 3real * m * m * x - m * m * m)
            == (p3 + x*x*x) - 3real * m * (p2 + x*x) + 3real * m * m * (p1 + x) - (n1 + 1real) * m * m * m) by(nonlinear_arith);
    }
}
proof fn c4(s: Seq<real>, m: real)
  ensures csum(s, m, 4) == psum(s, 4) - 4real * m * psum(s, 3) + 6real * m * m * psum(s, 2) - 4real * m * m * m * psum(s, 1) + (s.len() as real) * m * m * m * m
  decreases s.len()
{
    if s.len() == 0 { } else {
        c4(s.drop_last(), m);
        let x = s.last();
        pow_unfold(x); pow_unfold(x - m);
        let p4 = psum(s.drop_last(), 4); let p3 = psum(s.drop_last(), 3); let p2 = psum(s.drop_last(), 2); let p1 = psum(s.drop_last(), 1);
        let n1 = (s.len() - 1) as real;
        assert((s.len() as real) == n1 + 1real);
        assert((x - m) * (x - m) * (x - m) * (x - m) == x * x * x * x - 4real * m * (x * x * x) + 6real * m * m * (x * x) - 4real * m * m * m * x + m * m * m * m) by(nonlinear_arith);
        assert(p4 - 4real * m * p3 + 6real * m * m * p2 - 4real * m * m * m * p1 + n1 * m * m * m * m + (x * x * x * x - 4real * m * (x * x * x) + 6real * m * m * (x * x) - 4real * m * m * m * x + m * m * m * m)
            == (p4 + x*x*x*x) - 4real * m * (p3 + x*x*x) + 6real * m * m * (p2 + x*x) - 4real * m * m * m * (p1 + x) + (n1 + 1real) * m * m * m * m) by(nonlinear_arith);
    }
}
} // verus!
fn main() {}
