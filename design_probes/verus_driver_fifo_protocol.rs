use vstd::prelude::*;
verus! {
pub trait Vec1View<T>: Sized {
    spec fn view(&self) -> Seq<T>;
    fn len(&self) -> (r: usize) ensures r == self.view().len();
    unsafe fn uget(&self, index: usize) -> (r: T)
        requires index < self.view().len()
        ensures r == self.view()[index as int];
}
pub trait UninitRefMut<OT> {
    spec fn cap(&self) -> nat;
    spec fn written(&self) -> Map<int, OT>;
    unsafe fn uset(&mut self, idx: usize, v: OT)
        requires idx < old(self).cap(), !old(self).written().dom().contains(idx as int)
        ensures final(self).cap() == old(self).cap(),
                final(self).written() == old(self).written().insert(idx as int, v);
}
pub struct Call<T, OT> { pub rm: Option<T>, pub v: T, pub out: OT }
pub open spec fn adds<T, OT>(h: Seq<Call<T, OT>>) -> Seq<T> { Seq::new(h.len(), |i: int| h[i].v) }
pub open spec fn nrm<T, OT>(h: Seq<Call<T, OT>>) -> nat decreases h.len() {
    if h.len() == 0 { 0 } else { nrm(h.drop_last()) + if h.last().rm.is_some() { 1nat } else { 0nat } }
}
pub open spec fn fifo_ok<T, OT>(h: Seq<Call<T, OT>>, rm: Option<T>, v: T) -> bool {
    rm.is_some() ==> nrm(h) <= h.len() && rm.unwrap() == adds(h).push(v)[nrm(h) as int]
}
pub trait RollingFn<T, OT>: Sized {
    spec fn hist(&self) -> Seq<Call<T, OT>>;
    spec fn inv(&self) -> bool;
    fn call(&mut self, rm: Option<T>, v: T) -> (r: OT)
        requires old(self).inv(), fifo_ok(old(self).hist(), rm, v)
        ensures final(self).inv(), final(self).hist() == old(self).hist().push(Call { rm, v, out: r });
}
pub open spec fn exp_rm<T>(x: Seq<T>, w: int, i: int) -> Option<T> { if i >= w - 1 { Some(x[i - w + 1]) } else { None } }

proof fn lemma_nrm_push<T, OT>(h: Seq<Call<T, OT>>, c: Call<T, OT>)
    ensures nrm(h.push(c)) == nrm(h) + if c.rm.is_some() { 1nat } else { 0nat }
{ assert(h.push(c).drop_last() =~= h); }

fn rolling_apply_to<V: Vec1View<T>, T, O: UninitRefMut<OT>, OT, F: RollingFn<T, OT>>(
        this: &V, window: usize, f: &mut F, out: &mut O)
    requires old(out).cap() == this.view().len(), old(out).written() == Map::<int, OT>::empty(),
      old(f).hist().len() == 0, old(f).inv(),
    ensures
      final(f).inv(),
      window >= 1 ==> {
        let w = if (window as int) < this.view().len() { window as int } else { this.view().len() as int };
        &&& final(f).hist().len() == this.view().len()
        &&& forall |i: int| 0 <= i < this.view().len() ==> (#[trigger] final(f).hist()[i]).v == this.view()[i]
        &&& forall |i: int| 0 <= i < this.view().len() ==> (#[trigger] final(f).hist()[i]).rm == exp_rm(this.view(), w, i)
        &&& forall |i: int| 0 <= i < this.view().len() ==> final(out).written().dom().contains(i) && final(out).written()[i] == (#[trigger] final(f).hist()[i]).out
      }
    {
        let len = this.len();
        let window = window.min(len);
        if window == 0 {
            return;
        }
        proof { assert(nrm(f.hist()) == 0); }
        for i in 0..window - 1
          invariant window <= len, len == this.view().len(), out.cap() == len, window >= 1,
             f.hist().len() == i, f.inv(), nrm(f.hist()) == 0,
             forall |j: int| out.written().dom().contains(j) <==> 0 <= j < i,
             forall |j: int| 0 <= j < i ==> (#[trigger] f.hist()[j]).v == this.view()[j] && f.hist()[j].rm == exp_rm(this.view(), window as int, j) && out.written()[j] == f.hist()[j].out,
        {
            let ghost h0 = f.hist();
            unsafe {
                out.uset(i, f.call(None, this.uget(i)))
            }
            proof { lemma_nrm_push(h0, f.hist().last()); }
        }
        let mut start = 0usize;
        for end in window - 1..len 
          invariant window <= len, len == this.view().len(), out.cap() == len, window >= 1,
             start == end - (window - 1),
             f.hist().len() == end, f.inv(), nrm(f.hist()) == start,
             forall |j: int| out.written().dom().contains(j) <==> 0 <= j < end,
             forall |j: int| 0 <= j < end ==> (#[trigger] f.hist()[j]).v == this.view()[j] && f.hist()[j].rm == exp_rm(this.view(), window as int, j) && out.written()[j] == f.hist()[j].out,
        {
            let ghost h0 = f.hist();
            unsafe {
                let (v_rm, v) = (this.uget(start), this.uget(end));
                proof { assert(adds(h0).push(v)[start as int] == this.view()[start as int]); }
                out.uset(end, f.call(Some(v_rm), v));
            }
            proof { lemma_nrm_push(h0, f.hist().last()); }
            start += 1;
        }
    }
} // verus!
fn main() {}
