use vstd::prelude::*;
use vstd::std_specs::ops::*;
verus! {
pub uninterp spec fn rv(x: f64) -> real;

pub broadcast axiom fn ax_add_req(a: f64, b: f64)
    ensures #[trigger] a.add_req(b);
pub broadcast axiom fn ax_add(a: f64, b: f64)
    ensures rv(#[trigger] a.add_spec(b)) == rv(a) + rv(b);
pub broadcast axiom fn ax_obeys()
    ensures #[trigger] <f64 as AddSpec<f64>>::obeys_add_spec();
pub broadcast axiom fn ax_mul_req(a: f64, b: f64)
    ensures #[trigger] a.mul_req(b);
pub broadcast axiom fn ax_mul(a: f64, b: f64)
    ensures rv(#[trigger] a.mul_spec(b)) == rv(a) * rv(b);
pub broadcast axiom fn ax_mobeys()
    ensures #[trigger] <f64 as MulSpec<f64>>::obeys_mul_spec();

fn t(a: f64, b: f64) -> (c: f64)
   ensures rv(c) == rv(a) + rv(b) + rv(a) * rv(a)
{
    broadcast use {ax_add, ax_add_req, ax_obeys, ax_mul, ax_mul_req, ax_mobeys};
    let mut s = a + b;
    s = s + a * a;
    if s > 1.0 { s } else { s }
}
} // verus!
fn main() {}
