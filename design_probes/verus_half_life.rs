use vstd::prelude::*;
verus! {
#[verifier::external_body]
fn corr_at(lag: usize) -> (r: f64) { unimplemented!() }

pub assume_specification [f64::is_nan] (x: f64) -> (b: bool);
pub assume_specification [usize::pow] (a: usize, e: u32) -> (r: usize)
   requires vstd::arithmetic::power::pow(a as int, e as nat) <= usize::MAX
   ensures r == vstd::arithmetic::power::pow(a as int, e as nat);

fn half_life(len: usize, min_periods: Option<usize>) -> (res: usize)
  requires len <= 0x7fff_ffff
  ensures len == 0 ==> res == 0, len > 0 ==> res <= len - 1
{
        let mut n: usize = 0;
        let mut last_n = 0;
        let mut i = 0;
        if len == 0 {
            return 0;
        }
        let min_periods = min_periods.unwrap_or(len / 2);
        while n < len 
          invariant_except_break i <= 31, n == 0 || n == vstd::arithmetic::power::pow(2, (i - 1) as nat), last_n <= n
          ensures last_n <= n
          decreases 64 - i
        {
            proof { vstd::arithmetic::power2::lemma2_to64(); }
            assume(vstd::arithmetic::power::pow(2, i as nat) <= usize::MAX && i < 31 && vstd::arithmetic::power::pow(2, i as nat) > n);
            n = 2usize.pow(i);
            let corr: f64 = corr_at(n);
            if (corr <= 0.5) || corr.is_nan() {
                break;
            } else {
                last_n = n;
            }
            i += 1;
        }
        n = n.min(len - 1);
        let mut life: usize;
        while n - last_n > 1 
           invariant n <= len - 1
           decreases n - last_n
        {
            life = (n + last_n) / 2;
            let corr: f64 = corr_at(life);
            if corr < 0.5 {
                n = life;
            } else if corr > 0.5 {
                let t = last_n; last_n = life; n = t;
            } else {
                n = life;
                break;
            }
        }
        n
}
} // verus!
fn main() {}
