use vstd::prelude::*;
verus! {
// ---- abstract string model (R13) ----
#[verifier::external_body]
pub struct Str { _p: () }
impl Str {
    pub uninterp spec fn chars(&self) -> Seq<char>;          // the characters
    pub uninterp spec fn offs(&self) -> Seq<int>;            // byte offset of each char, strictly increasing, offs[0]==0
    pub uninterp spec fn blen(&self) -> int;                 // byte length
    pub open spec fn wf(&self) -> bool {
        &&& self.offs().len() == self.chars().len()
        &&& (self.chars().len() > 0 ==> self.offs()[0] == 0)
        &&& forall |i: int, j: int| 0 <= i < j < self.offs().len() ==> self.offs()[i] < self.offs()[j]
        &&& forall |i: int| 0 <= i < self.offs().len() ==> 0 <= #[trigger] self.offs()[i] < self.blen()
        &&& self.blen() >= 0 && self.blen() <= usize::MAX
    }
    pub open spec fn boundary(&self, b: int) -> bool { b == self.blen() || exists |k: int| 0 <= k < self.offs().len() && self.offs()[k] == b }
}
#[verifier::external_body]
pub struct CharIndices { _p: () }
impl CharIndices {
    pub uninterp spec fn src(&self) -> Str;
    pub uninterp spec fn pos(&self) -> int;   // index of next char to yield
    #[verifier::external_body]
    pub fn next(&mut self) -> (r: Option<(usize, char)>)
        requires old(self).src().wf(), 0 <= old(self).pos() <= old(self).src().chars().len()
        ensures final(self).src() == old(self).src(),
            old(self).pos() < old(self).src().chars().len() ==> r == Some((old(self).src().offs()[old(self).pos()] as usize, old(self).src().chars()[old(self).pos()])) && final(self).pos() == old(self).pos() + 1,
            old(self).pos() >= old(self).src().chars().len() ==> r.is_none() && final(self).pos() == old(self).pos(),
    { unimplemented!() }
}
#[verifier::external_body]
pub fn char_indices(s: &Str) -> (r: CharIndices) requires s.wf() ensures r.src() == *s, r.pos() == 0 { unimplemented!() }
pub uninterp spec fn int_lit(s: Seq<char>) -> Option<int>;   // value if the text is [+-]?[0-9]+ and fits i64
#[verifier::external_body]
pub fn str_slice_parse_i64(s: &Str, a: usize, b: usize) -> (r: Result<i64, ()>)
    requires s.wf(), a <= b <= s.blen(), s.boundary(a as int), s.boundary(b as int)     // str indexing panics otherwise
    ensures r.is_ok() <==> int_lit_of(s, a as int, b as int).is_some()
{ unimplemented!() }
pub uninterp spec fn int_lit_of(s: &Str, a: int, b: int) -> Option<int>;
pub assume_specification [char::is_ascii_digit] (c: &char) -> (b: bool);
pub assume_specification [char::is_ascii_alphabetic] (c: &char) -> (b: bool);

pub const NANOS_PER_MICRO: i64 = 1000;
pub const SECS_PER_DAY: i64 = 86400;

// ---- extracted scanner skeleton: tea-time/src/timedelta.rs:118-161 (unit table abbreviated) ----
fn parse(duration: &Str) -> (res: Result<(i64, i64, i32), ()>)
    requires duration.wf()
{
        let mut nsecs: i64 = 0;
        let mut secs: i64 = 0;
        let mut months: i32 = 0;
        let mut iter = char_indices(duration);
        let mut start = 0;
        let mut unit: Vec<char> = Vec::with_capacity(2);
        loop
            invariant iter.src() == *duration, duration.wf(), 0 <= iter.pos() <= duration.chars().len(),
                      start <= duration.blen(), duration.boundary(start as int),
            decreases duration.chars().len() - iter.pos()
        {
            let nx = iter.next();
            if nx.is_none() { break; }
            let (i, mut ch) = nx.unwrap();
            if !ch.is_ascii_digit() && i != 0 {
                let n = str_slice_parse_i64(duration, start, i).unwrap();
                loop
                    invariant iter.src() == *duration, duration.wf(), 0 <= iter.pos() <= duration.chars().len(),
                       start <= duration.blen(), duration.boundary(start as int),
                    decreases duration.chars().len() - iter.pos()
                {
                    if ch.is_ascii_alphabetic() {
                        unit.push(ch)
                    } else {
                        break;
                    }
                    match iter.next() {
                        Some((i, ch_)) => {
                            ch = ch_;
                            start = i
                        },
                        None => {
                            break;
                        },
                    }
                }
                if unit.len() == 0 { return Err(()); }
                nsecs += n * NANOS_PER_MICRO;
                secs += n * SECS_PER_DAY;
                unit.clear();
            }
        }
        Ok((secs, nsecs, months))
}
} // verus!
fn main() {}
