use vstd::prelude::*;
use std::cmp::Ordering;
verus! {
pub assume_specification<T: std::cmp::Ord> [std::cmp::min::<T>] (a: T, b: T) -> (r: T)
    ensures r == a || r == b;

pub trait Vec1View<T>: Sized {
    spec fn view(&self) -> Seq<T>;
    fn len(&self) -> (r: usize) ensures r == self.view().len();
    unsafe fn uget(&self, index: usize) -> (r: T)
        requires index < self.view().len()
        ensures r == self.view()[index as int];
}

pub open spec fn sort_cmp_spec(a: Option<i64>, b: Option<i64>) -> Ordering {
    match (a, b) {
        (Some(x), Some(y)) => if x < y { Ordering::Less } else if x == y { Ordering::Equal } else { Ordering::Greater },
        (None, None) => Ordering::Equal,
        (None, _) => Ordering::Greater,
        (_, None) => Ordering::Less,
    }
}
pub trait SortCmp: Sized { fn sort_cmp(&self, other: &Self) -> Ordering; }
impl SortCmp for Option<i64> {
    fn sort_cmp(&self, other: &Self) -> (r: Ordering) ensures r == sort_cmp_spec(*self, *other) {
        match (self, other) {
            (Some(va), Some(vb)) => if *va < *vb { Ordering::Less } else if *va == *vb { Ordering::Equal } else { Ordering::Greater },
            (None, None) => Ordering::Equal,
            (None, _) => Ordering::Greater,
            (_, None) => Ordering::Less,
        }
    }
}

fn step<V: Vec1View<Option<i64>>>(this: &V, min0: Option<i64>, min_idx0: Option<usize>, n0: usize, min_periods: usize,
        start: Option<usize>, end: usize, v: Option<i64>) -> (res: (Option<i64>, Option<usize>, usize, Option<i64>))
  requires end < this.view().len(), start.is_some() ==> start.unwrap() <= end, v == this.view()[end as int], n0 < 1000
{
    let (mut min, mut min_idx, mut n) = (min0, min_idx0, n0);
    let __r = {
                let v = v;
                unsafe {
                    if v.is_some() {
                        n += 1;
                        if min_idx.is_none() {
                            { let __t = (v, Some(end)); min = __t.0; min_idx = __t.1; }
                        }
                    }
                    if min_idx < start {
                        // the minimum value has expired, find the minimum value again
                        let start = start.unwrap();
                        min = this.uget(start);
                        for i in start..=end {
                            let v_ = this.uget(i);
                            match v_.sort_cmp(&min) {
                                Ordering::Less | Ordering::Equal => {
                                    { let __t = (v_, Some(i)); min = __t.0; min_idx = __t.1; }
                                },
                                _ => {},
                            }
                        }
                    } else {
                        match v.sort_cmp(&min) {
                            Ordering::Less | Ordering::Equal => {
                                { let __t = (v, Some(end)); min = __t.0; min_idx = __t.1; }
                            },
                            _ => {},
                        }
                    }
                    let out = if n >= min_periods {
                        min
                    } else {
                        None
                    };
                    out
                }
    };
    (min, min_idx, n, __r)
}
} // verus!
fn main() {}
