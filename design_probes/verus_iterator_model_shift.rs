use vstd::prelude::*;
verus! {
// ---------- A-ITER: abstract iterator ----------
#[verifier::external_body]
#[verifier::reject_recursive_types(T)]
pub struct It<T> { _p: std::marker::PhantomData<T> }
impl<T> It<T> {
    pub uninterp spec fn seq(&self) -> Seq<T>;
    pub uninterp spec fn announced(&self) -> nat;     // upper bound of size_hint (trusted)
    #[verifier::external_body]
    pub fn len(&self) -> (r: usize) ensures r == self.announced() { unimplemented!() }
    #[verifier::external_body]
    pub fn take(self, k: usize) -> (r: It<T>)
        ensures r.seq() == self.seq().take(if (k as int) < self.seq().len() { k as int } else { self.seq().len() as int }),
                r.announced() == if (k as nat) < self.announced() { k as nat } else { self.announced() }
    { unimplemented!() }
    #[verifier::external_body]
    pub fn skip(self, k: usize) -> (r: It<T>)
        ensures r.seq() == self.seq().skip(if (k as int) < self.seq().len() { k as int } else { self.seq().len() as int }),
                r.announced() == if (k as nat) < self.announced() { (self.announced() - k) as nat } else { 0 }
    { unimplemented!() }
    #[verifier::external_body]
    pub fn chain(self, o: It<T>) -> (r: It<T>)
        ensures r.seq() == self.seq() + o.seq(), r.announced() == self.announced() + o.announced()
    { unimplemented!() }
    #[verifier::external_body]
    pub fn map<U, F: Fn(T) -> U>(self, f: F) -> (r: It<U>)
        requires forall |x: T| f.requires((x,))
        ensures r.seq().len() == self.seq().len(), r.announced() == self.announced(),
                forall |i: int| 0 <= i < self.seq().len() ==> f.ensures((self.seq()[i],), #[trigger] r.seq()[i])
    { unimplemented!() }
    #[verifier::external_body]
    pub fn to_trust(self, len: usize) -> (r: It<T>)
        requires self.seq().len() == len          // <- the C09 obligation
        ensures r.seq() == self.seq(), r.announced() == len
    { unimplemented!() }
}
#[verifier::external_body]
pub fn repeat_n<T: Clone>(v: T, k: usize) -> (r: It<T>)
    ensures r.seq() == Seq::new(k as nat, |i: int| v), r.announced() == k
{ unimplemented!() }

pub assume_specification [i32::unsigned_abs] (x: i32) -> (r: u32)
    ensures r as int == if x >= 0 { x as int } else { -(x as int) };

pub open spec fn shift_spec<T>(x: Seq<T>, n: int, f: T) -> Seq<T> {
    Seq::new(x.len(), |i: int| if n > 0 { if i < n { f } else { x[i - n] } } else if n < 0 { if i < x.len() + n { x[i - n] } else { f } } else { x[i] })
}

// ---------- extracted: tea-map/src/valid_iter.rs vshift (T = f64-like opaque Clone type) ----------
fn vshift<T: Clone>(this: It<T>, n: i32, value: T) -> (r: Box<It<T>>)
    requires this.announced() == this.seq().len()
    ensures r.seq() =~= shift_spec(this.seq(), n as int, value), r.announced() == r.seq().len()
{
        let len = this.len();
        let n_abs = n.unsigned_abs() as usize;
        if len <= n_abs {
            return Box::new(repeat_n(value, len));
        }
        match n {
            n if n > 0 => Box::new(
                repeat_n(value, n_abs)
                    .chain(this.take(len - n_abs))
                    .to_trust(len),
            ),
            n if n < 0 => Box::new(
                this.skip(n_abs)
                    .chain(repeat_n(value, n_abs))
                    .to_trust(len),
            ),
            _ => Box::new(this),
        }
}
// ---------- extracted: tea-map/src/lib.rs shift (no guard) ----------
fn shift<T: Clone>(this: It<T>, n: i32, value: T) -> (r: Box<It<T>>)
    requires this.announced() == this.seq().len()
    ensures r.seq() =~= shift_spec(this.seq(), n as int, value), r.announced() == r.seq().len()
{
        let len = this.len();
        let n_abs = n.unsigned_abs() as usize;
        match n {
            n if n > 0 => Box::new(
                repeat_n(value, n_abs).chain(this.take(len - n_abs)).to_trust(len),
            ),
            n if n < 0 => Box::new(
                this.skip(n_abs).chain(repeat_n(value, n_abs)).to_trust(len),
            ),
            _ => Box::new(this),
        }
}
} // verus!
fn main() {}
