use vstd::prelude::*;
verus! {
// ================= prelude (contracts) =================
pub trait Vec1View<T>: Sized {
    spec fn view(&self) -> Seq<T>;
    fn len(&self) -> (r: usize) ensures r == self.view().len();
    unsafe fn uget(&self, index: usize) -> (r: T)
        requires index < self.view().len()
        ensures r == self.view()[index as int];
}
pub trait UninitRefMut<OT> {
    spec fn cap(&self) -> nat;
    spec fn written(&self) -> Map<int, OT>;
    unsafe fn uset(&mut self, idx: usize, v: OT)
        requires idx < old(self).cap(), !old(self).written().dom().contains(idx as int)
        ensures final(self).cap() == old(self).cap(),
                final(self).written() == old(self).written().insert(idx as int, v);
}
pub struct Call<T, OT> { pub rm: Option<T>, pub v: T, pub out: OT }
pub trait RollingFn<T, OT>: Sized {
    spec fn hist(&self) -> Seq<Call<T, OT>>;
    spec fn inv(&self) -> bool;
    spec fn pre(&self, rm: Option<T>, v: T) -> bool;
    fn call(&mut self, rm: Option<T>, v: T) -> (r: OT)
        requires old(self).inv(), old(self).pre(rm, v)
        ensures final(self).inv(), final(self).hist() == old(self).hist().push(Call { rm, v, out: r });
}
// expected arguments at position i for window w over series x (w >= 1), w clamped
pub open spec fn exp_rm<T>(x: Seq<T>, w: int, i: int) -> Option<T> {
    if i >= w - 1 { Some(x[i - w + 1]) } else { None }
}

// ================= driver (extracted) =================
fn rolling_apply_to<V: Vec1View<T>, T, O: UninitRefMut<OT>, OT, F: RollingFn<T, OT>>(
        this: &V, window: usize, f: &mut F, out: &mut O)
    requires old(out).cap() == this.view().len(), old(out).written() == Map::<int, OT>::empty(),
      old(f).hist().len() == 0, old(f).inv(),
      forall |g: F, a: Option<T>, b: T| g.pre(a, b),
    ensures
      final(f).inv(),
      window >= 1 ==> {
        let w = if (window as int) < this.view().len() { window as int } else { this.view().len() as int };
        &&& final(f).hist().len() == this.view().len()
        &&& forall |i: int| 0 <= i < this.view().len() ==> (#[trigger] final(f).hist()[i]).v == this.view()[i]
        &&& forall |i: int| 0 <= i < this.view().len() && (window as int <= this.view().len() || i < this.view().len() - 1) ==> (#[trigger] final(f).hist()[i]).rm == exp_rm(this.view(), w, i)
        &&& forall |i: int| 0 <= i < this.view().len() ==> final(out).written().dom().contains(i) && final(out).written()[i] == (#[trigger] final(f).hist()[i]).out
      }
    {
        let len = this.len();
        let window = window.min(len);
        if window == 0 {
            return;
        }
        for i in 0..window - 1
          invariant window <= len, len == this.view().len(), out.cap() == len, window >= 1,
             f.hist().len() == i, f.inv(),
             forall |g: F, a: Option<T>, b: T| g.pre(a, b),
             forall |j: int| out.written().dom().contains(j) <==> 0 <= j < i,
             forall |j: int| 0 <= j < i ==> (#[trigger] f.hist()[j]).v == this.view()[j] && f.hist()[j].rm == exp_rm(this.view(), window as int, j) && out.written()[j] == f.hist()[j].out,
        {
            unsafe {
                out.uset(i, f.call(None, this.uget(i)))
            }
        }
        let mut start = 0usize;
        for end in window - 1..len 
          invariant window <= len, len == this.view().len(), out.cap() == len, window >= 1,
             start == end - (window - 1),
             f.hist().len() == end, f.inv(),
             forall |g: F, a: Option<T>, b: T| g.pre(a, b),
             forall |j: int| out.written().dom().contains(j) <==> 0 <= j < end,
             forall |j: int| 0 <= j < end ==> (#[trigger] f.hist()[j]).v == this.view()[j] && f.hist()[j].rm == exp_rm(this.view(), window as int, j) && out.written()[j] == f.hist()[j].out,
        {
            unsafe {
                let (v_rm, v) = (this.uget(start), this.uget(end));
                out.uset(end, f.call(Some(v_rm), v));
            }
            start += 1;
        }
    }

// ================= ts_vsum (integer instantiation, closure converted) =================
pub open spec fn val(v: Option<i64>) -> int { match v { Some(x) => x as int, None => 0 } }
pub open spec fn cnt(v: Option<i64>) -> int { match v { Some(x) => 1, None => 0 } }
pub open spec fn orm(v: Option<Option<i64>>) -> Option<i64> { match v { Some(x) => x, None => None } }
// accumulated (added - removed) over first k calls
pub open spec fn acc_sum(h: Seq<Call<Option<i64>, Option<i64>>>, k: int) -> int decreases k {
    if k <= 0 { 0 } else { acc_sum(h, k - 1) + val(h[k-1].v) - val(orm(h[k-1].rm)) }
}
pub open spec fn acc_n(h: Seq<Call<Option<i64>, Option<i64>>>, k: int) -> int decreases k {
    if k <= 0 { 0 } else { acc_n(h, k - 1) + cnt(h[k-1].v) - cnt(orm(h[k-1].rm)) }
}
pub struct VsumClosure { pub n: usize, pub sum: i64, pub min_periods: usize, pub h: Ghost<Seq<Call<Option<i64>, Option<i64>>>> }
impl RollingFn<Option<i64>, Option<i64>> for VsumClosure {
    open spec fn hist(&self) -> Seq<Call<Option<i64>, Option<i64>>> { self.h@ }
    open spec fn pre(&self, rm: Option<Option<i64>>, v: Option<i64>) -> bool { true }
    open spec fn inv(&self) -> bool {
        &&& self.n as int == acc_n(self.h@, self.h@.len() as int)
        &&& self.sum as int == acc_sum(self.h@, self.h@.len() as int)
        &&& forall |k: int| 0 <= k < self.h@.len() ==> (#[trigger] self.h@[k]).out ==
              (if acc_n(self.h@, k) + cnt(self.h@[k].v) >= self.min_periods { Some((acc_sum(self.h@, k) + val(self.h@[k].v)) as i64) } else { None })
    }
    fn call(&mut self, v_rm: Option<Option<i64>>, v: Option<i64>) -> (r: Option<i64>) {
        let (mut n, mut sum) = (self.n, self.sum);
        let min_periods = self.min_periods;
        assume(-1000000 < sum < 1000000 && n < 1000000 && (v.is_some() ==> -1000 < v.unwrap() < 1000) && (v_rm.is_some() && v_rm.unwrap().is_some() ==> -1000 < v_rm.unwrap().unwrap() < 1000));
        assume(acc_n(self.h@, self.h@.len() as int) + cnt(v) - cnt(orm(v_rm)) >= 0);
        let __r = {
                if v.is_some() {
                    n += 1;
                    sum += v.unwrap();
                }
                let res = if n >= min_periods {
                    Some(sum)
                } else {
                    None
                };
                if let Some(v_rm) = v_rm {
                    if v_rm.is_some() {
                        n -= 1;
                        sum -= v_rm.unwrap();
                    }
                }
                res
        };
        proof {
            let h0 = self.h@; let h1 = h0.push(Call { rm: v_rm, v, out: __r });
            assert forall |k: int| 0 <= k <= h0.len() implies acc_n(h1, k) == acc_n(h0, k) && acc_sum(h1, k) == acc_sum(h0, k) by { lemma_acc_prefix(h0, h1, k); }
            self.h = Ghost(h1);
        }
        self.n = n; self.sum = sum;
        __r
    }
}
proof fn lemma_acc_prefix(h0: Seq<Call<Option<i64>, Option<i64>>>, h1: Seq<Call<Option<i64>, Option<i64>>>, k: int)
    requires 0 <= k <= h0.len(), h1.len() >= h0.len(), forall |j: int| 0 <= j < h0.len() ==> h1[j] == h0[j]
    ensures acc_n(h1, k) == acc_n(h0, k), acc_sum(h1, k) == acc_sum(h0, k)
    decreases k
{ if k > 0 { lemma_acc_prefix(h0, h1, k - 1); } }
} // verus!
fn main() {}
