#[cfg(kani)]
mod proofs {
    use tea_core::prelude::*;
    use tea_map::*;
    fn fmt_stub(_args: std::fmt::Arguments<'_>) -> String { String::new() }
    #[kani::proof]
    #[kani::unwind(5)]
    #[kani::stub(alloc::fmt::format, fmt_stub)]
    fn cut_2edges_right_nobounds() {
        let e0: i32 = kani::any(); let e1: i32 = kani::any();
        kani::assume(e0 < e1);
        let bins = [e0, e1];
        let labels = [7i32];
        let x: i32 = kani::any();
        let data = [x];
        let mut it = data.titer().vcut(&bins, &labels, true, false).unwrap();
        let r = it.next().unwrap();
        if e0 < x && x <= e1 { assert!(r.is_ok() && r.unwrap() == 7); } else { assert!(r.is_err()); }
    }
}
