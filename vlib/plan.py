"""Which units / harnesses decide which property (DESIGN 2.1) and the type instantiations (DESIGN 2.5)."""

# instantiation tables for generic kernels (A-MONO)
INST = {
    # float statistics, optional encoding
    "of64": {"T": "Option<f64>", "TI": "f64", "U": "f64", "INST": "of64"},
    # float statistics, NaN encoding
    "f64": {"T": "f64", "TI": "f64", "U": "f64", "INST": "f64"},
    # exact statistics
    "oi64": {"T": "Option<i64>", "TI": "i64", "U": "f64", "INST": "oi64"},
    # boolean aggregations
    "obool": {"T": "Option<bool>", "TI": "bool", "U": "bool", "INST": "obool"},
    "bool": {"T": "bool", "TI": "bool", "U": "bool", "INST": "bool"},
}

# unit name -> (template, inst)
UNITS = {
    "drv": ("units/drv.rs", None),
    "final": ("units/final.rs", None),
    "rank": ("units/rank.rs", None),
    "agg": ("units/agg.rs", None),
    "aggb.obool": ("units/aggb.rs", "obool"),
    "aggb.bool": ("units/aggb.rs", "bool"),
    "quant": ("units/quant.rs", None),
    "gen": ("units/gen.rs", None),
    "parse": ("units/parse.rs", None),
    "cmp": ("units/cmp.rs", None),
    "time": ("units/time.rs", None),
    "map.f64": ("units/map.rs", "f64"),
    "map.of64": ("units/map.rs", "of64"),
    "feat.of64": ("units/feat.rs", "of64"),
    "feat.f64": ("units/feat.rs", "f64"),
    "featp": ("units/featp.rs", "f64"),
    "bin.of64": ("units/bin.rs", "of64"),
    "reg.of64": ("units/reg.rs", "of64"),
    "reg.f64": ("units/reg.rs", "f64"),
    "bin.f64": ("units/bin.rs", "f64"),
}

PLAN = {
    "C01": dict(
        verus=dict(quick=["feat.of64", "featp"], thorough=["feat.of64", "feat.f64", "featp"]),
        kani=dict(quick=[], thorough=[]),
        level="proof",
    ),
    "C02": dict(
        verus=dict(quick=["drv"], thorough=["drv"]),
        kani=dict(quick=[], thorough=[]),
        level="proof",
    ),
}


PLAN["C15"] = dict(
    verus=dict(quick=[], thorough=[]),
    kani=dict(quick=["dtype_isnone", "dtype_cast", "dtype_sortcmp"], thorough=["dtype_isnone", "dtype_cast", "dtype_sortcmp"]),
    level="proof",
    level_text="Kani/CBMC proves every clause for the real compiled impls of tea-dtype over the FULL bit domain of each scalar type "
               "(loop-free harnesses, kani::any()): complete, bit-precise including IEEE NaN/inf/subnormals.",
    level_note="trusted: Kani/CBMC/rustc; canonical nulls only (Some(NaN) excluded, DESIGN 5.4); |MIN| of signed ints excluded from the vabs clause "
               "(overflow panic, not a nullness change); String/&str casts and null sentinel are NOT covered (DESIGN 9)",
    technique="Kani function-level harnesses (loop-free, full-domain symbolic scalars) on the unmodified crate",
    not_covered=["String/&str IsNone and Cast (unbounded strings)", "u8/isize/bool have no Number impl: vabs clause not applicable"],
    assumptions=["A-TOOLS"],
    trusted=["kani 0.68 / cbmc 6.11", "rustc"],
)

PLAN["C20"] = dict(
    verus=dict(quick=["final"], thorough=["final"]),
    kani=dict(quick=[], thorough=[]),
    level="proof",
)

PLAN["C13"] = dict(
    verus=dict(quick=["map.f64"], thorough=["map.f64", "map.of64"]),
    kani=dict(quick=[], thorough=[]),
    level="proof",
)

PLAN["C17"] = dict(
    verus=dict(quick=["time"], thorough=["time"]),
    kani=dict(quick=["time_delta_group", "time_delta_scaling"], thorough=["time_delta_group", "time_delta_scaling", "time_delta_scaling_k3", "time_components"]),
    level="proof",
)
PLAN["C16"] = dict(
    verus=dict(quick=["time"], thorough=["time"]),
    kani=dict(quick=["time_nat", "time_unit_identity"], thorough=["time_nat", "time_unit_identity"]),
    level="proof",
)

PLAN["C03"] = dict(
    verus=dict(quick=["cmp"], thorough=["cmp"]),
    kani=dict(quick=[], thorough=[]),
    level="proof",
)

PLAN["C05"] = dict(
    verus=dict(quick=["feat.of64", "cmp"], thorough=["feat.of64", "feat.f64", "cmp"]),
    kani=dict(quick=[], thorough=[]),
    level="proof",
)
PLAN["C06"] = dict(
    verus=dict(quick=["feat.of64", "cmp", "map.f64"], thorough=["feat.of64", "feat.f64", "cmp", "map.f64", "map.of64"]),
    kani=dict(quick=[], thorough=[]),
    level="proof",
)
PLAN["C09"] = dict(
    verus=dict(quick=["map.f64", "rank", "gen"], thorough=["map.f64", "map.of64", "rank", "gen"]),
    kani=dict(quick=["gen_linspace"], thorough=["gen_linspace"]),
    level="proof",
)
PLAN["C10"] = dict(
    verus=dict(quick=["drv", "cmp", "rank", "quant"], thorough=["drv", "cmp", "rank", "quant"]),
    kani=dict(quick=[], thorough=[]),
    level="proof",
)

PLAN["C18"] = dict(
    verus=dict(quick=["parse"], thorough=["parse"]),
    kani=dict(quick=[], thorough=[]),
    level="proof",
)

PLAN["C19"] = dict(
    verus=dict(quick=["gen"], thorough=["gen"]),
    kani=dict(quick=["gen_range", "gen_linspace"], thorough=["gen_range", "gen_linspace", "gen_range_wide"]),
    level="proof",
)

PLAN["C12"] = dict(
    verus=dict(quick=["rank", "quant"], thorough=["rank", "quant"]),
    kani=dict(quick=[], thorough=[]),
    level="proof",
)

PLAN["C04"] = dict(
    verus=dict(quick=["bin.of64", "reg.of64"], thorough=["bin.of64", "bin.f64", "reg.of64", "reg.f64"]),
    kani=dict(quick=[], thorough=[]),
    level="proof",
)

PLAN["C11"] = dict(
    verus=dict(quick=["agg", "aggb.obool"], thorough=["agg", "aggb.obool", "aggb.bool"]),
    kani=dict(quick=["agg_bounded"], thorough=["agg_bounded"]),
    level="proof",
)

NOT_APPLICABLE = {}


def units_for(prop, tier):
    p = PLAN[prop]
    return list(p["verus"].get(tier, p["verus"]["quick"]))


def kani_for(prop, tier):
    p = PLAN[prop]
    return list(p["kani"].get(tier, p["kani"]["quick"]))
