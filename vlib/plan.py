"""Which units / harnesses decide which property (DESIGN 2.1) and the type instantiations (DESIGN 2.5)."""

# instantiation tables for generic kernels (A-MONO)
INST = {
    # float statistics, optional encoding
    "of64": {"T": "Option<f64>", "TI": "f64", "U": "f64", "INST": "of64"},
    # float statistics, NaN encoding
    "f64": {"T": "f64", "TI": "f64", "U": "f64", "INST": "f64"},
    # exact statistics
    "oi64": {"T": "Option<i64>", "TI": "i64", "U": "f64", "INST": "oi64"},
}

# unit name -> (template, inst)
UNITS = {
    "drv": ("units/drv.rs", None),
    "feat.of64": ("units/feat.rs", "of64"),
    "feat.f64": ("units/feat.rs", "f64"),
}

PLAN = {
    "C01": dict(
        verus=dict(quick=["feat.of64"], thorough=["feat.of64", "feat.f64"]),
        kani=dict(quick=[], thorough=[]),
        level="proof",
    ),
    "C02": dict(
        verus=dict(quick=["drv"], thorough=["drv"]),
        kani=dict(quick=[], thorough=[]),
        level="proof",
    ),
}


NOT_APPLICABLE = {}


def units_for(prop, tier):
    p = PLAN[prop]
    return list(p["verus"].get(tier, p["verus"]["quick"]))


def kani_for(prop, tier):
    p = PLAN[prop]
    return list(p["kani"].get(tier, p["kani"]["quick"]))
