"""Which units / harnesses decide which property (DESIGN 2.1) and the type instantiations (DESIGN 2.5)."""

# instantiation tables for generic kernels (A-MONO)
INST = {
    # float statistics, optional encoding
    "of64": {"T": "Option<f64>", "TI": "f64", "U": "f64", "INST": "of64"},
    # float statistics, NaN encoding
    "f64": {"T": "f64", "TI": "f64", "U": "f64", "INST": "f64"},
    # exact statistics
    "oi64": {"T": "Option<i64>", "TI": "i64", "U": "f64", "INST": "oi64"},
    # boolean aggregations
    "obool": {"T": "Option<bool>", "TI": "bool", "U": "bool", "INST": "obool"},
    "bool": {"T": "bool", "TI": "bool", "U": "bool", "INST": "bool"},
}

# unit name -> (template, inst)
UNITS = {
    "drv": ("units/drv.rs", None),
    "drvo": ("units/drvo.rs", None),
    "final": ("units/final.rs", None),
    "wins": ("units/wins.rs", None),
    "rank": ("units/rank.rs", None),
    "agg": ("units/agg.rs", None),
    "aggp": ("units/aggp.rs", None),
    "aggb.obool": ("units/aggb.rs", "obool"),
    "aggb.bool": ("units/aggb.rs", "bool"),
    "quant": ("units/quant.rs", None),
    "nulls": ("units/nulls.rs", None),
    "cut.of64": ("units/cut.rs", "of64"),
    "cut.f64": ("units/cut.rs", "f64"),
    "cut.oi64": ("units/cut.rs", "oi64"),
    "gen": ("units/gen.rs", None),
    "parse": ("units/parse.rs", None),
    "fmt": ("units/fmt.rs", None),
    "cmp": ("units/cmp.rs", None),
    "time": ("units/time.rs", None),
    "map.f64": ("units/map.rs", "f64"),
    "map.of64": ("units/map.rs", "of64"),
    "feat.of64": ("units/feat.rs", "of64"),
    "feat.f64": ("units/feat.rs", "f64"),
    "featp": ("units/featp.rs", "f64"),
    "fdiff": ("units/fdiff.rs", "f64"),
    "bin.of64": ("units/bin.rs", "of64"),
    "reg.of64": ("units/reg.rs", "of64"),
    "reg.f64": ("units/reg.rs", "f64"),
    "bin.f64": ("units/bin.rs", "f64"),
}

PLAN = {
    "C01": dict(
        verus=dict(quick=["feat.of64", "featp", "fdiff"], thorough=["feat.of64", "feat.f64", "featp", "fdiff"]),
        kani=dict(quick=[], thorough=["roll_bounded"]),
        level="proof",
    ),
    "C02": dict(
        verus=dict(quick=["drv", "drvo"], thorough=["drv", "drvo"]),
        kani=dict(quick=["nd_drivers_bounded", "backend_bounded"], thorough=["nd_drivers_bounded", "backend_bounded"]),
        level="proof",
    ),
}


PLAN["C15"] = dict(
    verus=dict(quick=[], thorough=[]),
    kani=dict(quick=["dtype_isnone", "dtype_cast", "dtype_sortcmp"], thorough=["dtype_isnone", "dtype_cast", "dtype_sortcmp"]),
    level="proof",
    level_text="Kani/CBMC proves every clause for the real compiled impls of tea-dtype over the FULL bit domain of each scalar type "
               "(loop-free harnesses, kani::any()): complete, bit-precise including IEEE NaN/inf/subnormals.",
    level_note="trusted: Kani/CBMC/rustc; canonical nulls only (Some(NaN) excluded, DESIGN 5.4); |MIN| of signed ints excluded from the vabs clause "
               "(overflow panic, not a nullness change); String/&str casts and null sentinel are NOT covered (DESIGN 9)",
    technique="Kani function-level harnesses (loop-free, full-domain symbolic scalars) on the unmodified crate",
    not_covered=["String/&str IsNone and Cast (unbounded strings)", "u8/isize/bool have no Number impl: vabs clause not applicable"],
    assumptions=["A-TOOLS"],
    trusted=["kani 0.68 / cbmc 6.11", "rustc"],
)

PLAN["C20"] = dict(
    verus=dict(quick=["final", "wins"], thorough=["final", "wins"]),
    kani=dict(quick=[], thorough=[]),
    level="proof",
)

PLAN["C13"] = dict(
    verus=dict(quick=["map.f64"], thorough=["map.f64", "map.of64"]),
    kani=dict(quick=["map_bounded"], thorough=["map_bounded"]),
    level="proof",
)

PLAN["C17"] = dict(
    verus=dict(quick=["time"], thorough=["time"]),
    kani=dict(quick=["time_nat", "time_delta_group", "time_delta_scaling", "time_listed_bounded"], thorough=["time_nat", "time_delta_group", "time_delta_scaling", "time_delta_scaling_k3", "time_components", "time_listed_bounded"]),
    level="proof",
)
PLAN["C16"] = dict(
    verus=dict(quick=["time"], thorough=["time"]),
    kani=dict(quick=["time_nat", "time_unit_identity", "time_calendar_bounded"], thorough=["time_nat", "time_unit_identity", "time_calendar_bounded"]),
    level="proof",
)

PLAN["C03"] = dict(
    verus=dict(quick=["cmp", "feat.of64"], thorough=["cmp", "feat.of64", "feat.f64"]),
    kani=dict(quick=["roll_c03_bounded"], thorough=["roll_bounded"]),
    level="proof",
)

PLAN["C05"] = dict(
    verus=dict(quick=["feat.of64", "featp", "cmp"], thorough=["feat.of64", "feat.f64", "featp", "cmp"]),
    kani=dict(quick=["roll_bounded"], thorough=["roll_bounded"]),
    level="proof",
)
PLAN["C06"] = dict(
    verus=dict(quick=["feat.of64", "featp", "cmp", "map.f64"], thorough=["feat.of64", "feat.f64", "featp", "cmp", "map.f64", "map.of64"]),
    kani=dict(quick=["roll_c03_bounded"], thorough=["roll_bounded"]),
    level="proof",
)
PLAN["C09"] = dict(
    verus=dict(quick=["map.f64", "rank", "gen"], thorough=["map.f64", "map.of64", "rank", "gen"]),
    kani=dict(quick=["gen_linspace", "backend_bounded"], thorough=["gen_linspace", "collect_bounded", "backend_bounded"]),
    level="proof",
)
PLAN["C10"] = dict(
    verus=dict(quick=["drv", "drvo", "cmp", "rank", "quant"], thorough=["drv", "drvo", "cmp", "rank", "quant"]),
    kani=dict(quick=["rank_bounded", "nd_out_bounded"], thorough=["rank_bounded", "nd_out_bounded", "roll_c03_bounded"]),
    level="proof",
)

PLAN["C18"] = dict(
    verus=dict(quick=["parse", "fmt"], thorough=["parse", "fmt"]),
    kani=dict(quick=["time_calendar_bounded"], thorough=["time_calendar_bounded"]),
    level="proof",
)

PLAN["C19"] = dict(
    verus=dict(quick=["gen"], thorough=["gen"]),
    kani=dict(quick=["gen_range", "gen_linspace", "collect_bounded"], thorough=["gen_range", "gen_linspace", "gen_range_wide", "collect_bounded"]),
    level="proof",
)

PLAN["C12"] = dict(
    verus=dict(quick=["rank", "quant"], thorough=["rank", "quant"]),
    kani=dict(quick=["order_bounded", "rank_bounded"], thorough=["order_bounded", "rank_bounded"]),
    level="proof",
)

PLAN["C04"] = dict(
    verus=dict(quick=["bin.of64", "reg.of64"], thorough=["bin.of64", "bin.f64", "reg.of64", "reg.f64"]),
    kani=dict(quick=[], thorough=[]),
    level="proof",
)

PLAN["C11"] = dict(
    verus=dict(quick=["agg", "aggp", "aggb.obool"], thorough=["agg", "aggp", "aggb.obool", "aggb.bool"]),
    kani=dict(quick=["agg_bounded"], thorough=["agg_bounded"]),
    level="proof",
)

PLAN["C07"] = dict(
    verus=dict(quick=["drv", "drvo", "feat.of64", "cmp"], thorough=["drv", "drvo", "feat.of64", "feat.f64", "cmp"]),
    kani=dict(quick=["backend_bounded", "nd_accessors_bounded", "nd_drivers_bounded", "nd_out_bounded"], thorough=["backend_bounded", "nd_accessors_bounded", "nd_drivers_bounded", "nd_out_bounded"]),
    level="proof",
)
PLAN["C08"] = dict(
    verus=dict(quick=["nulls", "agg", "aggb.obool", "feat.of64", "quant", "cmp"], thorough=["nulls", "agg", "aggb.obool", "aggb.bool", "feat.of64", "feat.f64", "quant", "cmp"]),
    kani=dict(quick=["agg_bounded", "nulls_bounded", "roll_c03_bounded"], thorough=["agg_bounded", "nulls_bounded", "roll_bounded"]),
    level="proof",
)
PLAN["C14"] = dict(
    verus=dict(quick=["cut.of64"], thorough=["cut.of64", "cut.f64", "cut.oi64"]),
    kani=dict(quick=["unique_bounded"], thorough=["unique_bounded"]),
    level="proof",
)

NOT_APPLICABLE = {}


def units_for(prop, tier):
    p = PLAN[prop]
    return list(p["verus"].get(tier, p["verus"]["quick"]))


def kani_for(prop, tier):
    p = PLAN[prop]
    return list(p["kani"].get(tier, p["kani"]["quick"]))


# ---- what each check claims, in words (MANIFEST level text / note, evidence not_covered / assumptions).  DESIGN.md 0 and 11.
_V = "Verus discharges every obligation generated from the functions extracted from /repo's current text, for all inputs and all iterations"
DETAILS = {
    "C01": dict(text=_V + ": state-describes-window invariant and textbook closed form of the 16 rolling closures (ts_v{sum,mean,var,std,skew,kurt,wma,ewm}_to in two null encodings, plain ts_* family) over the driver contract; fractional differencing of the plain family: fdiff_coef (entry j of the table is the weight (-1)^k C(d,k) of lag k = w-1-j), ts_fdiff_to (output i is the weighted sum over the window, the most recent element taking lag 0) and the null-aware ts_vfdiff_to (the same over the non-null elements of the window, null below min_periods) over the slice-driver contract (unit fdiff).",
                note="A-REAL (floats as reals, no rounding); the driver contracts the closures are verified against are proved in units drv / drvo (slice driver: Vec and ndarray fast paths; the default iterator-form rolling_custom body is assumed); A-FFI: ffi::binom is a foreign function, its value is an uninterpreted function of (d, k)",
                not_covered=["value of ffi::binom"],
                assumptions=["A-REAL", "A-ITER", "A-FFI (binom)", "A-LEN", "A-MONO", "A-EXTRACT", "A-TOOLS"]),
    "C02": dict(text=_V + ": trace and stored-exactly-once postconditions of the caller-buffer drivers rolling_apply_to, rolling2_apply_to, rolling_apply_idx_to, rolling2_apply_idx_to, rolling_custom_to, and of the Option-dispatching / iterator-form drivers rolling_apply, rolling2_apply, rolling_apply_idx (leading Nones, FIFO removal column, delivery to the buffer or as a new container); the trait contract every client unit relies on is discharged by these functions.",
                note="the stateful Iterator::map + trusted collector of the iterator forms is modelled eagerly (A-ITER, rollmodel.rs); the Vec and ndarray fast paths rolling_custom, rolling_apply, rolling_apply_idx, rolling2_apply are proved against the same contracts (unit drvo; ndarray: the ArrayView1 instance of the macro, feature ndarray); Kani (BOUNDED) runs the overridden ndarray drivers on reversed / strided views of 4 elements, the five Vec fast-path drivers on series of length 1 and 3, and the default slice driver on a VecDeque of length 0, 1, 3",
                not_covered=["fast paths rolling2_apply_idx of impl_vec1! / ndarray", "rolling2_apply_idx iterator form (bounded only)", "rolling_custom / rolling_custom_iter iterator forms (default body): bounded only (VecDeque, length 0, 1, 3)", "Polars overrides"],
                assumptions=["A-ITER", "A-EXTRACT", "A-TOOLS"]),
    "C03": dict(text=_V + ": cached-extreme invariants and window-function postconditions of ts_vmin/vmax/vargmin/vargmax_to (exact).",
                note="ts_vzscore_to is in the feat units; ts_vminmaxnorm and ts_vrank are checked by the bounded rolling backstop only (Kani, length 4)",
                not_covered=["ts_vrank, ts_vminmaxnorm: bounded only"], assumptions=["A-REAL (comparisons only)", "A-LEN", "A-EXTRACT", "A-TOOLS"]),
    "C04": dict(text=_V + ": ts_vcov_to / ts_vcorr_to (pairwise-complete sums, textbook forms), ts_vregx_all (alpha, beta, SSE of the regression on the second series; null when the fit is undefined), ts_vregx_beta_to, ts_vregx_alpha_to and the trend family ts_vreg / vtsf / vreg_slope / vreg_intercept_to against the OLS closed forms.",
                note="A-REAL; residual statistics and the regx family are not under contract",
                not_covered=["ts_vreg_resid_std / resid_skew", "ts_vregx_resid_mean / std / skew (ts_vregx_all, ts_vregx_beta, ts_vregx_alpha are under contract)"], assumptions=["A-REAL", "A-LEN", "A-MONO", "A-EXTRACT", "A-TOOLS"]),
    "C05": dict(text=_V + ": one-output-per-input, null-mask (effective min_periods incl. intrinsic minimum) and every integer arithmetic site of the feat and cmp functions.",
                note="covers the functions under contract in units feat.* and cmp", not_covered=["functions not under contract (see C01, C03, C04)"],
                assumptions=["A-REAL", "A-LEN", "A-EXTRACT", "A-TOOLS"]),
    "C06": dict(text=_V + ": every output is a stated function of wnd(view, window, i) only (value clauses and cache invariants of feat / cmp, positional clauses of map).  Kani (BOUNDED, length 4): rolling extrema / arg-extrema, rank and min-max normalisation against a from-scratch evaluation of each window alone.",
                note="'bit-for-bit' is equality under A-REAL", not_covered=["functions not under contract or bounded harness"], assumptions=["A-REAL", "A-EXTRACT", "A-TOOLS"]),
    "C07": dict(text=_V + ": the drivers are proved against the abstract Vec1View contract (any backend satisfying it gives the same trace) and every _to function delivers the same values whether returned or written to the caller's buffer (delivered_each).  Kani (BOUNDED, 3-5 elements) checks that Vec, fixed array, VecDeque at 4 head offsets, ndarray owned arrays and ndarray views with step 1, 2, -1, -2 satisfy the accessor part of that contract (len, get, uget, titer both ways, slice, uslice, try_as_slice), that the overridden ndarray drivers (incl. the slice driver rolling_custom) see the logical sequence of a reversed / strided view, that an Arc-wrapped Vec answers like the Vec, that the five Vec fast-path drivers and the default slice driver (VecDeque) hand out the right arguments, that the returned Vec / returned VecDeque / caller-buffer paths agree, and that a strided ndarray out buffer receives the results in its logical elements.",
                note="the backend part is bounded; the Polars backend is not compiled / not covered",
                not_covered=["Polars backend", "Arc wrappers", "option view", "fast-path overrides other than Vec / ndarray"],
                assumptions=["A-REAL", "A-ITER", "A-EXTRACT", "A-TOOLS"]),
    "C08": dict(text=_V + ": all null-aware contracts are stated over vals() (NaN and None are the same null); lemmas: the two encodings of a series have the same vals(), cnt and power sums are invariant under inserting / deleting nulls.  Kani (BOUNDED, length <= 3-4) compares the two encodings and an inserted null on the real code; rolling extrema / rank / normalisation against the non-null elements of each window (length 4); the cmp unit (rolling extrema contracts over vals()).",
                note="canonical nulls only (Some(NaN) excluded, DESIGN 5.4)", not_covered=["pairwise deletion beyond ts_vcov / ts_vcorr", "percentile ranks", "f32 / Option<i32> output encodings"],
                assumptions=["A-REAL", "A-ITER", "A-MONO", "A-EXTRACT", "A-TOOLS"]),
    "C09": dict(text=_V + ": the announced-length precondition holds at every TrustIter::new / to_trust site of the map, rank, gen units; TrustIter itself (next, next_back, size_hint: the announced length is the stored one and follows consumption from either end); exact size_hint of Linspace.  Kani: linspace count on the real code.",
                note="std adaptors by assumed contract (A-ITER)", not_covered=["TrustIter sites in functions not under contract"], assumptions=["A-ITER", "A-EXTRACT", "A-TOOLS"]),
    "C10": dict(text=_V + ": index preconditions at every uget / uset / uslice site and the write-exactly-once ghost map of the drivers, cmp, rank, quant units; every slot written before assume_init in the Vec and ndarray fast paths.  Kani (BOUNDED): vrank on series of length 1..=3 (every slot written once, no index out of range) and a strided ndarray out buffer.",
                note="", not_covered=["unsafe sites in functions not under contract"], assumptions=["A-SORT", "A-ITER", "A-EXTRACT", "A-TOOLS"]),
    "C11": dict(text=_V + ": count_valid, count_none, vsum, vmean, vmean_var, vvar, vstd, vskew, vmax, vmin (via max_with / min_with), vargmax, vargmin, vany, vall, vcov, vcorr_pearson (pairwise-complete) equal their textbook forms over the non-null elements, incl. the null / minimum-count cases.  Kani (BOUNDED, length <= 4) as a backstop.",
                note="A-REAL for sums and moments; fold helpers vfold / vfold_n / vapply_n by assumed contract",
                not_covered=["vkurt (needs the moment inequality m4 >= m2^2 to rule out the `res != 0` guard)", "masked sum / mean, vfirst / vlast (bounded only)", "permutation invariance as a separate lemma"],
                assumptions=["A-REAL", "A-ITER", "A-MONO", "A-EXTRACT", "A-TOOLS"]),
    "C12": dict(text=_V + ": vpartition / varg_partition (arity, padding, index ranges) and vquantile (errors, nulls, index ranges, order statistics for lower / higher / midpoint).",
                note="sorting by assumed contract (A-SORT); vquantile needs the seed-retry policy (unstable query)",
                not_covered=["linear interpolation value of vquantile", "vrank (Kani, length <= 3) and vpercentile_of (Kani, length <= 4): bounded only"], assumptions=["A-SORT", "A-REAL", "A-ITER", "A-EXTRACT", "A-TOOLS"]),
    "C13": dict(text=_V + ": positional postconditions of shift, vshift, vdiff, vpct_change (every lag incl. 0, |lag| >= len, fill values), ffill / bfill (nearest earlier / later non-null element, else the default, else null; via ffill_mask / bfill_mask with the null test as mask), fill / fill_mask (touches only masked elements), vclip (each element alone, nulls stay null; idempotence and containment for lower <= upper as a lemma), vabs (each element alone, nulls stay null).",
                note="the stateful map of ffill / bfill by the eager model (A-ITER, mapmodel.rs)", not_covered=["abs (MapBasic, plain family); vabs is under contract over the scalar interface vabs_spec (the scalar clause is in C15)", "ffill_mask / bfill_mask with an arbitrary mask"], assumptions=["A-REAL", "A-ITER", "A-MONO", "A-EXTRACT", "A-TOOLS"]),
    "C14": dict(text=_V + ": vcut (label-count errors, unique enclosing interval, open bounds label every value, nulls get the null label) in three instantiations, from the extracted scan loop.  Kani (BOUNDED, sorted series of length <= 5) decides vsorted_unique_idx First / Last and vsorted_unique.",
                note="run de-duplication is bounded only", not_covered=["unbounded argument for vsorted_unique*"], assumptions=["A-REAL", "A-ITER", "A-MONO", "A-EXTRACT", "A-TOOLS"]),
    "C16": dict(text=_V + ": into_unit (floor law, NaT), NaT predicates, calendar conversions per unit, NaT absorption of the operators; Kani: NaT and unit-identity laws over the full i64 domain; BOUNDED: ms / us calendar conversion read back with chrono's accessors on +-4096 units around the epoch.",
                note="chrono by assumed contract (A-CHRONO)", not_covered=[], assumptions=["A-CHRONO", "A-EXTRACT", "A-TOOLS"]),
    "C17": dict(text=_V + ": Time +- duration, DateTime +- TimeDelta, date-time difference, duration_trunc (month-free and month blocks), TimeDelta neg / add / sub / mul, inverse-law lemmas; Kani: duration group / scaling laws, component round trip, NaT operands of every operator (symbolic, and BOUNDED: a NaT date-time with a list of concrete month-free durations at second / microsecond / nanosecond resolution).",
                note="A-CHRONO: month shift and calendar fields are chrono's (abstract); the inverse law is stated for durations that are whole units of the date-time's resolution",
                not_covered=["Time::from_* / Timelike getters beyond the Kani round trip", "Div<TimeDelta>"], assumptions=["A-CHRONO", "A-EXTRACT", "A-TOOLS"]),
    "C18": dict(text=_V + ": TimeDelta::parse and its helpers never panic and return a value or an error for every string (abstract string model, unbounded length); DateTime::strftime (NaT, caller's format, default format = entry 1 of the parser's table TIME_RULE_VEC, on the real string literals) and DateTime::parse (total; explicit format = chrono's answer, date-time before date; no format = first accepted entry of the table) with chrono's format / parse_from_str as oracles; round-trip lemma under two stated chrono hypotheses.",
                note="the byte / UTF-8 layer of str is a model (R19); chrono's formatting and parsing are oracles (A-CHRONO): the round trip is proved relative to 'chrono parses what it printed with the default format and rejects that text under the earlier table entry'", not_covered=["Time::parse / Time formatting", "chrono's own format / parse semantics", "term sum of parse beyond: each term added exactly (add_term / add_months) and fixed part == seconds + sub-second terms"], assumptions=["string model", "A-EXTRACT", "A-TOOLS"]),
    "C19": dict(text=_V + ": range / linspace counts and elements, Linspace next / next_back / size_hint; Kani (BOUNDED band of start / end / step) decides both step directions on the real code; Kani (BOUNDED, iterators of length <= 3): fallible collection returns the first error and pulls nothing after it (trusted and plain, generic error and TResult, Vec and VecDeque), infallible collectors (plain, trusted, with length, optional -> null-encoded) and full preserve order and content, writing into an uninitialised buffer fills every slot / broadcasts a single item / reports a length mismatch.",
                note="descending range is decided by Kani only (Verus leaves signed division by a negative divisor unspecified); the collectors use raw pointer writes and are decided by Kani on the real code only", not_covered=["float range count beyond A-REAL", "ndarray / Polars collectors", "apply_mut_with and the view_mut helpers"],
                assumptions=["A-REAL", "A-EXTRACT", "A-TOOLS"]),
    "C20": dict(text=_V + ": half_life terminates, never overflows, returns a lag in range and the first lag whose correlation is not above one half for a monotone correlation oracle; winsorize is the clip of the series to ONE interval whose bounds are the documented statistics of the data (q and 1-q linear quantiles; median -/+ k MAD, always when the median exists; mean -/+ k sigma when the variance exceeds EPS), only the quantile method can fail; Spearman = Pearson of the average ranks (unit wins).",
                note="correlation, quantile, median, mean / variance and rank VALUES are oracles here (decided under C11 / C12); the clip contract is the one proved for vclip in unit map (restated); instantiation f64", not_covered=["order preservation as a separate lemma (follows from clipping to one interval with lo <= hi)", "invariance of Spearman under increasing maps (a property of ranks: C12)"], assumptions=["A-REAL", "A-EXTRACT", "A-TOOLS"]),
}
for _k, _d in DETAILS.items():
    _e = PLAN[_k]
    _e.setdefault("level_text", _d["text"])
    _e.setdefault("level_note", _d["note"])
    _e.setdefault("not_covered", _d["not_covered"])
    _e.setdefault("assumptions", _d["assumptions"])
    _e.setdefault("design_ref", "DESIGN.md 0, 11")
