"""Rust-aware tokenizer and structural helpers used by the extractor.

Tokens are (kind, text, start, end) over the original text, so rewrites are expressed as
text splices and everything not touched by a rule is copied byte for byte.
kinds: id, life, char, str, num, punct, comment, doc
"""
import re

PUNCT3 = ("..=", "...", "<<=", ">>=")
PUNCT2 = ("::", "->", "=>", "==", "!=", "<=", ">=", "&&", "||", "+=", "-=", "*=", "/=", "%=",
          "^=", "&=", "|=", "<<", ">>", "..")

_id_re = re.compile(r"[A-Za-z_][A-Za-z0-9_]*")
_num_re = re.compile(r"0[xob][0-9a-fA-F_]+[a-z0-9]*|[0-9][0-9_]*(\.[0-9][0-9_]*)?([eE][+-]?[0-9_]+)?[a-z0-9_]*")


class Tok:
    __slots__ = ("kind", "text", "start", "end")

    def __init__(self, kind, text, start, end):
        self.kind, self.text, self.start, self.end = kind, text, start, end

    def __repr__(self):
        return f"{self.kind}:{self.text!r}@{self.start}"


def tokenize(src, keep_comments=False):
    toks = []
    i, n = 0, len(src)
    prev_sig = None  # previous significant token text
    while i < n:
        c = src[i]
        if c.isspace():
            i += 1
            continue
        # comments
        if src.startswith("//", i):
            j = src.find("\n", i)
            if j < 0:
                j = n
            if keep_comments:
                toks.append(Tok("comment", src[i:j], i, j))
            i = j
            continue
        if src.startswith("/*", i):
            depth, j = 1, i + 2
            while j < n and depth:
                if src.startswith("/*", j):
                    depth += 1
                    j += 2
                elif src.startswith("*/", j):
                    depth -= 1
                    j += 2
                else:
                    j += 1
            if keep_comments:
                toks.append(Tok("comment", src[i:j], i, j))
            i = j
            continue
        # raw strings / byte strings
        m = re.match(r"(b|c)?r(#*)\"", src[i:i + 40])
        if m:
            hashes = m.group(2)
            endpat = '"' + hashes
            j = src.find(endpat, i + m.end())
            j = j + len(endpat)
            toks.append(Tok("str", src[i:j], i, j))
            prev_sig = "str"
            i = j
            continue
        if c == '"' or (c in "bc" and i + 1 < n and src[i + 1] == '"'):
            j = i + (2 if c != '"' else 1)
            while j < n and src[j] != '"':
                if src[j] == "\\":
                    j += 1
                j += 1
            j += 1
            toks.append(Tok("str", src[i:j], i, j))
            prev_sig = "str"
            i = j
            continue
        if c == "'" or (c == "b" and i + 1 < n and src[i + 1] == "'"):
            s = i + (1 if c == "b" else 0)
            # char literal or lifetime
            m = re.match(r"'(\\.[^']*|[^'\\])'", src[s:s + 16])
            if m:
                j = s + m.end()
                toks.append(Tok("char", src[i:j], i, j))
                prev_sig = "char"
                i = j
                continue
            m = re.match(r"'[A-Za-z_][A-Za-z0-9_]*", src[s:s + 64])
            if m:
                j = s + m.end()
                toks.append(Tok("life", src[i:j], i, j))
                prev_sig = "life"
                i = j
                continue
        if c.isalpha() or c == "_":
            m = _id_re.match(src, i)
            j = m.end()
            # raw identifiers r#x
            toks.append(Tok("id", src[i:j], i, j))
            prev_sig = src[i:j]
            i = j
            continue
        if c.isdigit():
            if prev_sig == ".":
                # tuple field access: digits only
                m = re.compile(r"[0-9]+").match(src, i)
            else:
                m = _num_re.match(src, i)
                # `1..n` : do not swallow the range dots; `1.` followed by ident/method is handled:
                txt = m.group(0)
                if "." not in txt and src.startswith(".", m.end()) and not src.startswith("..", m.end()):
                    # forms like `0.` (float with trailing dot) unless followed by an identifier (method call)
                    k = m.end() + 1
                    if k >= n or not (src[k].isalpha() or src[k] == "_"):
                        m2 = re.compile(r"[0-9][0-9_]*\.").match(src, i)
                        if m2:
                            m = m2
            j = m.end()
            toks.append(Tok("num", src[i:j], i, j))
            prev_sig = "num"
            i = j
            continue
        for p in PUNCT3:
            if src.startswith(p, i):
                toks.append(Tok("punct", p, i, i + 3))
                i += 3
                prev_sig = p
                break
        else:
            for p in PUNCT2:
                if src.startswith(p, i):
                    toks.append(Tok("punct", p, i, i + 2))
                    i += 2
                    prev_sig = p
                    break
            else:
                toks.append(Tok("punct", c, i, i + 1))
                prev_sig = c
                i += 1
    return toks


OPEN = {"(": ")", "[": "]", "{": "}"}
CLOSE = {")", "]", "}"}


def match_close(toks, i):
    """toks[i] is an opening bracket; return index of the matching closer."""
    depth = 0
    for j in range(i, len(toks)):
        t = toks[j].text
        if toks[j].kind == "punct":
            if t in OPEN:
                depth += 1
            elif t in CLOSE:
                depth -= 1
                if depth == 0:
                    return j
    raise ValueError("unbalanced brackets")


def match_angle(toks, i):
    """toks[i] is '<' opening a generic list; return index of the matching '>' (handles '>>')."""
    depth = 0
    j = i
    while j < len(toks):
        t = toks[j]
        if t.kind == "punct":
            if t.text == "<":
                depth += 1
            elif t.text == ">":
                depth -= 1
            elif t.text == ">>":
                depth -= 2
            elif t.text == "->" or t.text == "=>":
                pass
            elif t.text in OPEN:
                j = match_close(toks, j)
            if depth <= 0 and t.text in (">", ">>"):
                return j
        j += 1
    raise ValueError("unbalanced angle brackets")


def apply_edits(src, edits):
    """edits: list of (start, end, replacement) non-overlapping; returns new text."""
    out = []
    pos = 0
    for s, e, r in sorted(edits, key=lambda x: (x[0], x[1])):
        if s < pos:
            raise ValueError(f"overlapping edits at {s}")
        out.append(src[pos:s])
        out.append(r)
        pos = e
    out.append(src[pos:])
    return "".join(out)


def norm(src):
    """whitespace/comment-insensitive normal form of a code fragment"""
    return " ".join(t.text for t in tokenize(src))
