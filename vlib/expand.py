"""Obtain the compiler's pretty-print of a macro-expanded crate of /repo (DESIGN 2.2 step 1).

The expansion is cached under /verif/build/expand keyed by a hash of every *.rs / Cargo.toml under the
workspace crates and of Cargo.lock, so an edit anywhere in /repo invalidates it.
"""
import hashlib
import os
import subprocess
import fcntl

REPO = os.environ.get("VERIF_REPO", "/repo")
VERIF = os.path.dirname(os.path.dirname(os.path.abspath(__file__)))
BUILD = os.path.join(VERIF, "build")
EXPAND_DIR = os.path.join(BUILD, "expand")

CRATE_FEATURES = {
    "tea-core": [],
    "tea-rolling": [],
    "tea-map": [],
    "tea-agg": [],
    "tea-dtype": ["time"],
    "tea-time": [],
    "tevec": ["fdiff", "agg", "map", "rolling"],
}


class ExtractError(Exception):
    """lost anchor / unsupported construct: the check must end UNDECIDED (exit 2), never VIOLATION"""


def repo_hash():
    h = hashlib.sha256()
    for root, dirs, files in os.walk(REPO):
        dirs[:] = sorted(d for d in dirs if d not in ("target", ".git"))
        for f in sorted(files):
            if f.endswith(".rs") or f in ("Cargo.toml", "Cargo.lock", "rust-toolchain.toml"):
                p = os.path.join(root, f)
                h.update(p.encode())
                with open(p, "rb") as fh:
                    h.update(fh.read())
    return h.hexdigest()[:20]


_cache = {}


def expanded(crate, features=None):
    """return the expanded source text of `crate` for /repo's current working tree"""
    feats = features if features is not None else CRATE_FEATURES.get(crate, [])
    key = (crate, tuple(feats))
    if key in _cache:
        return _cache[key]
    os.makedirs(EXPAND_DIR, exist_ok=True)
    rh = repo_hash()
    tag = crate + ("-" + "-".join(feats) if feats else "")
    out = os.path.join(EXPAND_DIR, f"{tag}.{rh}.rs")
    lock = os.path.join(EXPAND_DIR, f"{tag}.lock")
    with open(lock, "w") as lk:
        fcntl.flock(lk, fcntl.LOCK_EX)
        if not os.path.exists(out):
            # drop stale expansions of this crate
            for f in os.listdir(EXPAND_DIR):
                if f.startswith(tag + ".") and f.endswith(".rs"):
                    os.unlink(os.path.join(EXPAND_DIR, f))
            cmd = ["cargo", "rustc", "--offline", "-p", crate, "--lib",
                   "--target-dir", os.path.join(EXPAND_DIR, "target")]
            if feats:
                cmd += ["--features", ",".join(feats)]
            cmd += ["--", "-Zunpretty=expanded"]
            env = dict(os.environ, CARGO_NET_OFFLINE="true")
            p = subprocess.run(cmd, cwd=REPO, env=env, capture_output=True, text=True)
            if p.returncode != 0 or not p.stdout.strip():
                raise ExtractError(f"expansion of {crate} failed (does /repo build?):\n{p.stderr[-3000:]}")
            with open(out + ".tmp", "w") as fh:
                fh.write(p.stdout)
            os.rename(out + ".tmp", out)
    with open(out) as fh:
        txt = fh.read()
    _cache[key] = txt
    return txt
