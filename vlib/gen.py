"""Unit generator: splices functions extracted from /repo's expanded crates into a Verus unit.

A unit template (contracts/units/<unit>.rs) is Verus text plus directive blocks:

  //@include <file relative to contracts/>
  //@fn name=<fn> crate=<crate> ctx="<item header tokens>" [nth=<k>] [as=<new name>] props=C02,C10 [arith=C10]
  //@types T=Option<f64>; T::Inner=f64; U=f64          textual type substitution inside the body (R3)
  //@sig <verus signature>                              checked against the real parameter list
  //@callbacks f                                        R5: f(..) -> f.call(..)
  //@strip_turbofish                                    R2: drop ::<..> on method calls in the body
  //@replace <tokens> => <tokens>                       declared prelude substitution (R12), token-exact
  //@spec                                               requires/ensures/decreases of the function
  //@loop <k>                                           invariant/decreases of the k-th loop (source order)
  //@at body first|last / loop <k> first|last / closure <k> first|last
  //@closure <k> name=.. trait=".." params=".." ret=".." push=".." caps="mut n: usize, sum: f64"
  //@closure <k> inv / spec
  //@end

Everything between directives inside an //@fn block belongs to the preceding directive.
Lines may end with `// #C05 label` to tag the clause with properties / an obligation label.
"""
import os
import re
import shlex

from . import rtok
from .rtok import tokenize, match_close, match_angle, apply_edits
from .expand import expanded, ExtractError, VERIF, REPO

CONTRACTS = os.path.join(VERIF, "contracts")


# ----------------------------------------------------------------------------- locate functions
def _find_seq(toks, pat, start=0):
    n, m = len(toks), len(pat)
    res = []
    for i in range(start, n - m + 1):
        if toks[i].text == pat[0]:
            ok = True
            for k in range(1, m):
                if toks[i + k].text != pat[k]:
                    ok = False
                    break
            if ok:
                res.append(i)
    return res


_tok_cache = {}


def crate_tokens(crate, features=None):
    key = (crate, tuple(features) if features else None)
    if key not in _tok_cache:
        src = expanded(crate, features)
        _tok_cache[key] = (src, tokenize(src))
    return _tok_cache[key]


def find_fn(crate, ctx, name, nth=None, features=None):
    """returns dict(src, sig_toks, body_open, body_close, toks) for fn `name` inside item `ctx`"""
    src, toks = crate_tokens(crate, features)
    if ctx:
        pat = [t.text for t in tokenize(ctx)]
        hits = _find_seq(toks, pat)
        items = []
        for h in hits:
            # header must be followed by '{' before any ';'
            j = h + len(pat)
            while j < len(toks) and toks[j].text not in ("{", ";"):
                if toks[j].text == "(":
                    j = match_close(toks, j)
                j += 1
            if j < len(toks) and toks[j].text == "{":
                items.append((j, match_close(toks, j)))
        if not items:
            raise ExtractError(f"lost anchor: item `{ctx}` not found in crate {crate}")
    else:
        items = [(-1, len(toks))]
    found = []
    for (lo, hi) in items:
        depth = 0
        j = lo + 1
        while j < hi:
            t = toks[j]
            if t.kind == "punct" and t.text in rtok.OPEN:
                if t.text == "{" or True:
                    # skip nested groups entirely unless we are looking at module level
                    if ctx or t.text != "{":
                        j = match_close(toks, j) + 1
                        continue
            if t.text == "fn" and j + 1 < hi and toks[j + 1].text == name:
                found.append(j)
            j += 1
    if not found:
        raise ExtractError(f"lost anchor: fn `{name}` not found in `{ctx}` of crate {crate}")
    if nth is None and len(found) > 1:
        raise ExtractError(f"ambiguous anchor: fn `{name}` occurs {len(found)} times in `{ctx}` of crate {crate}")
    f = found[(nth or 1) - 1]
    # signature: up to body '{'
    j = f
    while toks[j].text != "{":
        if toks[j].text == ";":
            raise ExtractError(f"fn `{name}` in `{ctx}` has no body")
        if toks[j].text in ("(", "["):
            j = match_close(toks, j)
        j += 1
    bo, bc = j, match_close(toks, j)
    return dict(src=src, toks=toks, fn=f, body_open=bo, body_close=bc)


def real_param_names(info):
    toks = info["toks"]
    j = info["fn"] + 2
    if toks[j].text == "<":
        j = match_angle(toks, j) + 1
    assert toks[j].text == "(", toks[j]
    pc = match_close(toks, j)
    names = []
    k = j + 1
    cur = []
    depth = 0
    while k <= pc:
        t = toks[k]
        if k == pc or (t.text == "," and depth == 0):
            if cur:
                head = []
                for c in cur:
                    if c.text == ":":
                        break
                    head.append(c.text)
                head = [h for h in head if h not in ("mut", "&", "ref") and not h.startswith("'")]
                names.append(" ".join(head))
            cur = []
        else:
            if t.text in ("(", "[", "<"):
                depth += 1
            elif t.text in (")", "]", ">"):
                depth -= 1
            elif t.text == ">>":
                depth -= 2
            cur.append(t)
        k += 1
    return names


def sig_param_names(sig):
    toks = tokenize(sig)
    j = 0
    while toks[j].text != "fn":
        j += 1
    j += 2
    if toks[j].text == "<":
        j = match_angle(toks, j) + 1
    pc = match_close(toks, j)
    names, cur, depth = [], [], 0
    for k in range(j + 1, pc + 1):
        t = toks[k]
        if k == pc or (t.text == "," and depth == 0):
            if cur:
                head = []
                for c in cur:
                    if c.text == ":":
                        break
                    head.append(c.text)
                head = [h for h in head if h not in ("mut", "&", "Tracked", "Ghost", "(", ")")]
                names.append(" ".join(head))
            cur = []
        else:
            if t.text in ("(", "[", "<"):
                depth += 1
            elif t.text in (")", "]", ">"):
                depth -= 1
            elif t.text == ">>":
                depth -= 2
            cur.append(t)
    return names


# ----------------------------------------------------------------------------- rewrite rules
class Body:
    """a fragment of source text under rewriting; keeps the list of rules applied"""

    def __init__(self, text):
        self.text = text
        self.rules = []

    def toks(self):
        return tokenize(self.text)

    def edit(self, edits, rule):
        if edits:
            self.text = apply_edits(self.text, edits)
            self.rules.append(rule)


def r1_strip_attrs(b):
    toks = b.toks()
    edits = []
    for i, t in enumerate(toks):
        if t.text == "#" and i + 1 < len(toks) and toks[i + 1].text == "[":
            e = match_close(toks, i + 1)
            edits.append((t.start, toks[e].end, ""))
    b.edit(edits, "R1")
    # comments are dropped by re-emitting through tokens only where needed; plain // comments are harmless


def r10_self(b, inside_closure=False):
    edits = [(t.start, t.end, "this") for t in b.toks() if t.kind == "id" and t.text == "self"]
    b.edit(edits, "R10")


def r3_types(b, table):
    """table: list of (from_tokens, to_text), longest first"""
    if not table:
        return
    toks = b.toks()
    edits = []
    i = 0
    pats = [([x.text for x in tokenize(k)], v) for k, v in table]
    pats.sort(key=lambda p: -len(p[0]))
    while i < len(toks):
        hit = False
        for pat, rep in pats:
            m = len(pat)
            if [x.text for x in toks[i:i + m]] == pat:
                # only whole identifiers; do not rewrite field/method names (preceded by '.')
                if i > 0 and toks[i - 1].text == "." and m == 1:
                    break
                # path continuation `T::something` where T alone is the pattern: wrap in <..>
                nxt = toks[i + m].text if i + m < len(toks) else ""
                r = rep
                if nxt == "::" and not re.fullmatch(r"[A-Za-z_][A-Za-z0-9_]*", rep):
                    r = f"<{rep}>"
                edits.append((toks[i].start, toks[i + m - 1].end, r))
                i += m
                hit = True
                break
        if not hit:
            i += 1
    b.edit(edits, "R3")


def r2_turbofish(b, names=None):
    toks = b.toks()
    edits = []
    for i, t in enumerate(toks):
        if t.text == "::" and i + 1 < len(toks) and toks[i + 1].text == "<" and i > 0 and toks[i - 1].kind == "id":
            if names is None or toks[i - 1].text in names:
                e = match_angle(toks, i + 1)
                edits.append((t.start, toks[e].end, ""))
    b.edit(edits, "R2")


def r5_callbacks(b, names):
    toks = b.toks()
    edits = []
    for i, t in enumerate(toks):
        if t.kind == "id" and t.text in names and i + 1 < len(toks) and toks[i + 1].text == "(":
            if i > 0 and toks[i - 1].text in (".", "::", "fn"):
                continue
            edits.append((t.end, t.end, ".call"))
    b.edit(edits, "R5")


def r6_enumerate(b):
    """for (A, B) in (RANGE).enumerate() { BODY }  ->  let mut A = 0usize; for B in RANGE { BODY A = A + 1; }"""
    while True:
        toks = b.toks()
        done = True
        for i, t in enumerate(toks):
            if t.text == "for" and toks[i + 1].text == "(":
                pc = match_close(toks, i + 1)
                inner = toks[i + 2:pc]
                if len(inner) == 3 and inner[1].text == "," and toks[pc + 1].text == "in" and toks[pc + 2].text == "(":
                    rc = match_close(toks, pc + 2)
                    if [x.text for x in toks[rc + 1:rc + 5]] == [".", "enumerate", "(", ")"] and toks[rc + 5].text == "{":
                        a, bb = inner[0].text, inner[2].text
                        bo = rc + 5
                        bc = match_close(toks, bo)
                        rng = b.text[toks[pc + 2].start + 1:toks[rc].start]
                        edits = [
                            (t.start, toks[rc + 4].end, f"let mut {a} = 0usize; for {bb} in {rng}"),
                            (toks[bc].start, toks[bc].start, f" {a} = {a} + 1; "),
                        ]
                        b.edit(edits, "R6")
                        done = False
                        break
        if done:
            return


def r7_destructuring_assign(b):
    """(a, b) = (x, y);  ->  { let __t = (x, y); a = __t.0; b = __t.1; }"""
    while True:
        toks = b.toks()
        done = True
        for i, t in enumerate(toks):
            if t.text == "(" and (i == 0 or toks[i - 1].text in ("{", ";", "}")):
                pc = match_close(toks, i)
                if pc + 1 < len(toks) and toks[pc + 1].text == "=":
                    names = [x.text for x in toks[i + 1:pc] if x.text != ","]
                    if all(re.fullmatch(r"[A-Za-z_][A-Za-z0-9_]*", x) for x in names):
                        # rhs up to ';' at depth 0
                        j = pc + 2
                        while toks[j].text != ";":
                            if toks[j].text in rtok.OPEN:
                                j = match_close(toks, j)
                            j += 1
                        rhs = b.text[toks[pc + 2].start:toks[j].start]
                        rep = "{ let __t = " + rhs + "; " + " ".join(f"{nm} = __t.{k};" for k, nm in enumerate(names)) + " }"
                        b.edit([(t.start, toks[j].end, rep)], "R7")
                        done = False
                        break
        if done:
            return


def r8_compound_assign(b):
    """x OP= e;  ->  x = x OP (e);   (simple place expressions only)"""
    ops = {"+=": "+", "-=": "-", "*=": "*", "/=": "/"}
    while True:
        toks = b.toks()
        done = True
        for i, t in enumerate(toks):
            if t.kind == "punct" and t.text in ops:
                # lhs: identifier (possibly with .field / .0) back to statement start
                k = i - 1
                while k >= 0 and (toks[k].kind in ("id", "num") or toks[k].text == "."):
                    k -= 1
                lhs_toks = toks[k + 1:i]
                if not lhs_toks or (k >= 0 and toks[k].text not in ("{", ";", "}", "=>")):
                    raise ExtractError("unsupported construct: compound assignment with complex place")
                lhs = b.text[lhs_toks[0].start:lhs_toks[-1].end]
                # rhs to ';' or closing '}' at depth 0
                j = i + 1
                while j < len(toks) and toks[j].text not in (";", "}", ","):
                    if toks[j].text in rtok.OPEN:
                        j = match_close(toks, j)
                    j += 1
                rhs = b.text[toks[i + 1].start:toks[j - 1].end]
                b.edit([(lhs_toks[0].start, toks[j - 1].end, f"{lhs} = {lhs} {ops[t.text]} ({rhs})")], "R8")
                done = False
                break
        if done:
            return


def r11_panics(b):
    """panic entry points -> vpanic(); error constructions -> TError::any()"""
    while True:
        toks = b.toks()
        done = True
        for i, t in enumerate(toks):
            if t.text == "::" and i + 5 < len(toks):
                path = []
                j = i
                while j + 1 < len(toks) and toks[j].text == "::" and toks[j + 1].kind == "id":
                    path.append(toks[j + 1].text)
                    j += 2
                p = "::".join(path)
                if (p.startswith("core::panicking::") or p.startswith("std::rt::begin_panic")
                        or p.startswith("std::rt::panic")):
                    if toks[j].text == "(":
                        e = match_close(toks, j)
                        b.edit([(t.start, toks[e].end, "vpanic()")], "R11")
                        done = False
                        break
                if p == "tea_error::__private::must_use" and toks[j].text == "(":
                    e = match_close(toks, j)
                    b.edit([(t.start, toks[e].end, "TError::any()")], "R11")
                    done = False
                    break
        if done:
            return


def r17_float_casts(b):
    """`E as f64` (E an integer postfix expression) -> as_f64(E); `f64::NAN` -> f64_nan()  (Verus supports neither)"""
    while True:
        toks = b.toks()
        done = True
        for i, t in enumerate(toks):
            if t.text == "f64" and i + 2 < len(toks) and toks[i + 1].text == "::" and toks[i + 2].text == "NAN":
                b.edit([(t.start, toks[i + 2].end, "f64_nan()")], "R17")
                done = False
                break
            if t.text == "as" and i + 1 < len(toks) and toks[i + 1].text == "f64" and i > 0:
                # operand: postfix expression ending at i-1
                k = i - 1
                while True:
                    if toks[k].text in (")", "]"):
                        depth = 0
                        while True:
                            if toks[k].text in rtok.CLOSE:
                                depth += 1
                            elif toks[k].text in rtok.OPEN:
                                depth -= 1
                                if depth == 0:
                                    break
                            k -= 1
                        if k > 0 and toks[k - 1].kind == "id" and toks[k - 1].text not in ("if", "while", "match", "return", "in"):
                            k -= 1
                        else:
                            break
                    elif toks[k].kind in ("id", "num"):
                        pass
                    else:
                        raise ExtractError("unsupported construct: operand of `as f64`")
                    if k > 0 and toks[k - 1].text in (".", "::"):
                        k -= 2
                        continue
                    break
                operand = b.text[toks[k].start:toks[i - 1].end]
                b.edit([(toks[k].start, toks[i + 1].end, f"as_f64({operand})")], "R17")
                done = False
                break
        if done:
            return


def r21_vec_macro(b):
    """the expansion of `vec![a, b, ..]` (std's box_assume_init_into_vec_unsafe(write_box_via_move(Box::new_uninit(), [..])))
    ->  vec_from_array([..])"""
    pat = [t.text for t in tokenize("::alloc::boxed::box_assume_init_into_vec_unsafe(::alloc::intrinsics::write_box_via_move(::alloc::boxed::Box::new_uninit(),")]
    while True:
        toks = b.toks()
        hits = _find_seq(toks, pat)
        if not hits:
            return
        h = hits[0]
        outer_open = h + [t.text for t in toks[h:]].index("(")
        outer_close = match_close(toks, outer_open)
        arr_open = h + len(pat)
        if toks[arr_open].text != "[":
            raise ExtractError("unsupported construct: vec! expansion without an array literal")
        arr_close = match_close(toks, arr_open)
        arr = b.text[toks[arr_open].start:toks[arr_close].end]
        b.edit([(toks[h].start, toks[outer_close].end, f"vec_from_array({arr})")], "R21")


def r20_for_iter(b):
    """for P in E { BODY }  with E an iterator expression (not a range)  ->  let mut __forK = E; while let Some(P) = __forK.next() { BODY }
    (then R15).  `for i in a..b` is left alone: Verus handles ranges natively."""
    k = 0
    while True:
        toks = b.toks()
        done = True
        for i, t in enumerate(toks):
            if t.kind == "id" and t.text == "for" and (i == 0 or toks[i - 1].text not in (".", "::")) and toks[i + 1].text != "<":
                # pattern up to the top-level `in`
                j = i + 1
                while toks[j].text != "in":
                    if toks[j].text in ("(", "["):
                        j = match_close(toks, j)
                    j += 1
                e0 = j + 1
                m = e0
                is_range = False
                while toks[m].text != "{":
                    if toks[m].text in ("(", "["):
                        m = match_close(toks, m)
                    m += 1
                is_range = any(x.text in ("..", "..=") for x in toks[e0:m])
                if is_range:
                    continue
                k += 1
                pat = b.text[toks[i + 1].start:toks[j].start].strip()
                expr = b.text[toks[e0].start:toks[m].start].strip()
                b.edit([(t.start, toks[m].end, f"let mut __for{k} = {expr}; while let Some({pat}) = __for{k}.next() {{")], "R20")
                done = False
                break
        if done:
            return


def r15_while_let(b):
    """while let Some(P) = E { BODY }  ->  loop { let __wl = E; if __wl.is_none() { break; } let P = __wl.unwrap(); BODY }"""
    while True:
        toks = b.toks()
        done = True
        for i, t in enumerate(toks):
            if t.text == "while" and i + 1 < len(toks) and toks[i + 1].text == "let":
                if toks[i + 2].text != "Some" or toks[i + 3].text != "(":
                    raise ExtractError("unsupported construct: `while let` with a pattern other than Some(..)")
                pc = match_close(toks, i + 3)
                if toks[pc + 1].text != "=":
                    raise ExtractError("unsupported construct: `while let` shape")
                j = pc + 2
                while toks[j].text != "{":
                    if toks[j].text in ("(", "["):
                        j = match_close(toks, j)
                    j += 1
                pat = b.text[toks[i + 3].end:toks[pc].start]
                expr = b.text[toks[pc + 2].start:toks[j].start].strip()
                b.edit([(t.start, toks[j].end, f"loop {{ let __wl = {expr}; if __wl.is_none() {{ break; }} let {pat} = __wl.unwrap();")], "R15")
                done = False
                break
        if done:
            return


def _char_lits(strtok):
    body = strtok[1:-1]
    out, k = [], 0
    while k < len(body):
        c = body[k]
        if c == "\\":
            out.append("'" + body[k:k + 2] + "'")
            k += 2
        else:
            out.append("'" + (c if c != "'" else "\\'") + "'")
            k += 1
    return "seq![" + ", ".join(out) + "]"


def r19_match_str(b):
    """match X.as_str() { "a" => A, "b" => B, name => C }  ->  match str_match_index(X.as_str(), Ghost(table)) { 0 => A, 1 => B, _ => { let name = X.as_str(); C } }"""
    while True:
        toks = b.toks()
        done = True
        for i, t in enumerate(toks):
            if t.text == "match":
                j = i + 1
                while toks[j].text != "{":
                    if toks[j].text in ("(", "["):
                        j = match_close(toks, j)
                    j += 1
                scrut = toks[i + 1:j]
                if [x.text for x in scrut[-4:]] != [".", "as_str", "(", ")"]:
                    continue
                bc = match_close(toks, j)
                # arms
                arms, k = [], j + 1
                while k < bc:
                    ps = k
                    while toks[k].text != "=>":
                        k += 1
                    pat = toks[ps:k]
                    k += 1
                    es = k
                    while k < bc and toks[k].text != ",":
                        if toks[k].text in rtok.OPEN:
                            k = match_close(toks, k)
                        k += 1
                    arms.append((pat, es, k))
                    k += 1
                if not any(a[0][0].kind == "str" for a in arms):
                    continue
                lits, edits = [], []
                for (pat, es, ke) in arms:
                    if len(pat) == 1 and pat[0].kind == "str":
                        edits.append((pat[0].start, pat[0].end, str(len(lits))))
                        lits.append(_char_lits(pat[0].text))
                    elif len(pat) == 1 and pat[0].kind == "id":
                        nm = pat[0].text
                        sc = b.text[scrut[0].start:scrut[-1].end]
                        expr_txt = b.text[toks[es].start:toks[ke - 1].end]
                        edits.append((pat[0].start, toks[ke - 1].end, "_ => { let " + nm + " = " + sc + "; " + expr_txt + " }"))
                    else:
                        raise ExtractError("unsupported construct: string match with a complex pattern")
                sc = b.text[scrut[0].start:scrut[-1].end]
                table = "seq![" + ", ".join(lits) + "]"
                edits.append((scrut[0].start, scrut[-1].end, f"str_match_index({sc}, Ghost(__tbl))"))
                edits.append((t.start, t.start, f"{{ let ghost __tbl: Seq<Seq<char>> = {table}; "))
                edits.append((toks[bc].end, toks[bc].end, " }"))
                b.edit(edits, "R19")
                done = False
                break
        if done:
            return


def find_loops(toks):
    """indices of loop keywords (for/while/loop) in source order, with the index of their body '{'"""
    res = []
    for i, t in enumerate(toks):
        if t.kind == "id" and t.text in ("for", "while", "loop"):
            if i > 0 and toks[i - 1].text in (".", "::"):
                continue
            if t.text == "for" and i + 1 < len(toks) and toks[i + 1].text == "<":
                continue  # for<'a> bounds
            j = i + 1
            while j < len(toks) and toks[j].text != "{":
                if toks[j].text in ("(", "["):
                    j = match_close(toks, j)
                j += 1
            if j < len(toks):
                res.append((i, j))
    return res


def find_closures(toks):
    """(start_tok, params_open, params_close, body_start, body_end) for each closure in source order
    (outermost only are returned in order; nested ones are found when the body is re-scanned)"""
    res = []
    i = 0
    n = len(toks)
    while i < n:
        t = toks[i]
        is_start = False
        if t.text in ("|", "||"):
            prev = toks[i - 1] if i > 0 else None
            if prev is None or prev.text in ("(", ",", "=", "move", "{", ";", "return", "=>"):
                is_start = True
        if is_start:
            s = i - 1 if (i > 0 and toks[i - 1].text == "move") else i
            if t.text == "||":
                po, pc = i, i
            else:
                po = i
                j = i + 1
                while toks[j].text != "|":
                    if toks[j].text in rtok.OPEN:
                        j = match_close(toks, j)
                    j += 1
                pc = j
            bs = pc + 1
            if toks[bs].text == "->":
                # explicit return type then block
                while toks[bs].text != "{":
                    bs += 1
            if toks[bs].text == "{":
                be = match_close(toks, bs)
            else:
                # expression body: up to ',' or ')' at depth 0
                j = bs
                while j < n and toks[j].text not in (",", ")", ";", "}"):
                    if toks[j].text in rtok.OPEN:
                        j = match_close(toks, j)
                    j += 1
                be = j - 1
            res.append((s, po, pc, bs, be))
            i = be + 1
            continue
        i += 1
    return res



def annotate_closure(blk, key, ca, src, toks_b, s_i, po, pc, bs, be, name, MARK):
    """R18 replacement text for one closure (see emit_fn)"""
    cbody = src[toks_b[bs].start:toks_b[be].end]
    cparams = src[toks_b[po].end:toks_b[pc].start] if pc > po else ""
    real_pats = split_top(cparams)
    decl = split_top(ca.get("params", ""))
    if len(real_pats) != len(decl):
        raise ExtractError(f"lost anchor: closure {key} of {name} has {len(real_pats)} parameters, contract {len(decl)}")
    binds = ""
    for pat, d in zip(real_pats, decl):
        dn = d.split(":")[0].strip()
        pn = pat.split(":")[0].strip() if not pat.strip().startswith("(") else pat.strip()
        if pn != dn:
            binds += f"let {pn} = {dn}; "
    mv = "move " if toks_b[s_i].text == "move" else ""
    spec = MARK.format(f"closure {key} spec") if f"closure {key} spec" in blk.sections else ""
    if f"at closure {key} first" in blk.sections:
        binds = MARK.format(f"at closure {key} first") + binds
    return f"{mv}|{ca.get('params', '')}| -> {ca['ret']} {spec} {{ {binds}{cbody} }}"


def apply_nested_annotations(blk, k, cbody, name, MARK):
    """closures inside the body of converted closure k, addressed as `k.j` (j-th closure inside, source order)"""
    nested = sorted(key for key in blk.closures if isinstance(key, str) and key.startswith(f"{k}."))
    if not nested:
        return cbody
    toks_c = tokenize(cbody)
    inner = toks_c[1:-1] if toks_c and toks_c[0].text == "{" else toks_c
    base = 1 if toks_c and toks_c[0].text == "{" else 0
    cls = find_closures(inner)
    edits = []
    for key in nested:
        j = int(key.split(".")[1])
        if j > len(cls):
            raise ExtractError(f"lost anchor: contract of {name} annotates closure {key}, only {len(cls)} closures inside closure {k}")
        (s_i, po, pc, bs, be) = cls[j - 1]
        rep = annotate_closure(blk, key, blk.closures[key], cbody, inner, s_i, po, pc, bs, be, name, MARK)
        edits.append((inner[s_i].start, inner[be].end, rep))
    return apply_edits(cbody, edits)



BLOCKLIKE = ("if", "for", "while", "loop", "match", "unsafe", "{")


def tail_start(it):
    """offset (in the text `it` was tokenized from) where the tail expression of a block starts, or None if the block
    ends with a statement.  Statements: `...;`, or a block-like expression statement (if/for/while/loop/match/unsafe/{})."""
    pos, n = 0, len(it)
    last_start = None
    while pos < n:
        start = pos
        t = it[pos]
        if t.text in BLOCKLIKE and not (t.text == "{" and False):
            j = pos
            while True:
                # advance to the block of this construct
                while j < n and it[j].text != "{":
                    if it[j].text in ("(", "["):
                        j = match_close(it, j)
                    j += 1
                if j >= n:
                    return it[start].start
                j = match_close(it, j)
                if j + 1 < n and it[j + 1].text == "else":
                    j += 2
                    continue
                break
            nxt = it[j + 1].text if j + 1 < n else None
            if nxt is None:
                return it[start].start          # block-like construct is the tail
            if nxt == ";":
                pos = j + 2
                continue
            if nxt in (".", "?", "as", "+", "-", "*", "/", "==", "&&", "||"):
                pass                             # part of a larger expression: fall through to the `;` scan
            else:
                pos = j + 1
                continue
        j = pos
        while j < n and it[j].text != ";":
            if it[j].text in rtok.OPEN:
                j = match_close(it, j)
            j += 1
        if j >= n:
            return it[start].start
        pos = j + 1
    return None


# ----------------------------------------------------------------------------- template processing
class Clause:
    def __init__(self):
        self.lines = []  # (text, origin_line)


class FnBlock:
    def __init__(self, attrs, origin):
        self.attrs = attrs
        self.origin = origin
        self.sections = {}  # key -> list of (line_text, origin_lineno)
        self.types = []
        self.sig = None
        self.callbacks = []
        self.strip_turbofish = None
        self.replaces = []
        self.closures = {}  # k -> attrs


def parse_attrs(s):
    out = {}
    for tok in shlex.split(s):
        if "=" in tok:
            k, v = tok.split("=", 1)
            out[k] = v
        else:
            out[tok] = True
    return out


class LineMap:
    """generated line -> origin info"""

    def __init__(self):
        self.entries = []  # index = line-1

    def add(self, n, info):
        for _ in range(n):
            self.entries.append(info)

    def get(self, line):
        if 1 <= line <= len(self.entries):
            return self.entries[line - 1]
        return None


class Unit:
    def __init__(self, name, inst=None):
        self.name = name
        self.inst = inst or {}
        self.out_lines = []
        self.linemap = []  # per generated line: dict
        self.functions = []  # dicts: name, crate, ctx, props, src_file, rules
        self.dropped = {}

    def emit(self, text, info):
        for ln in text.split("\n"):
            self.out_lines.append(ln)
            self.linemap.append(info)

    def text(self):
        return "\n".join(self.out_lines) + "\n"


TAG_RE = re.compile(r"//\s*#(.*)$")


def parse_tags(line):
    m = TAG_RE.search(line)
    if not m:
        return None, None
    props, label = [], None
    for w in m.group(1).split():
        if re.fullmatch(r"C\d\d(,C\d\d)*", w):
            props += w.split(",")
        else:
            label = w
    return props or None, label


def subst_inst(text, inst):
    for k, v in inst.items():
        text = text.replace("${" + k + "}", v)
    return text


def process_template(unit_name, path, inst=None, vacuity=False):
    """vacuity=False: the unit proper.  vacuity=True: the same text plus the reachability / consistency guards (twin functions
    `vacuity_*`); it goes to a file of its own, so that the guards cannot perturb the solver on the real obligations"""
    unit = Unit(unit_name, inst)
    unit.vacuity = vacuity
    _process_file(unit, path, inst or {}, top=True)
    if vacuity:
        _emit_axiom_guard(unit)
    return unit


def _emit_axiom_guard(unit):
    """consistency guard for everything ASSUMED in the unit (DESIGN 7): with every broadcast axiom group in scope and every
    parameterless axiom invoked, `false` must not be provable.  Verus must FAIL this function."""
    txt = "\n".join(unit.out_lines)
    groups = re.findall(r"\bbroadcast\s+group\s+(\w+)\s*\{", txt)
    bcast = re.findall(r"\bbroadcast\s+axiom\s+fn\s+(\w+)\s*[(<]", txt)
    zero = [z for z in re.findall(r"\baxiom\s+fn\s+(\w+)\s*\(\s*\)", txt) if z not in bcast]
    groups = groups + bcast
    end = [i for i, ln in enumerate(unit.out_lines) if ln.strip().startswith("} // verus!")]
    if not end:
        return
    lines = ["#[verifier::rlimit(4)]", "proof fn vacuity_axioms()", "    ensures false,", "{"]
    lines += [f"    broadcast use {g};" for g in dict.fromkeys(groups)]
    lines += [f"    {z}();" for z in dict.fromkeys(zero)]
    lines += ["}"]
    b = dict(kind="glue", fn="vacuity_axioms", props=[])
    at = end[-1]
    unit.out_lines[at:at] = lines
    unit.linemap[at:at] = [b] * len(lines)


def _process_file(unit, path, inst, top=False):
    with open(path) as fh:
        lines = fh.read().split("\n")
    rel = os.path.relpath(path, VERIF)
    i = 0
    cur_fn_ctx = {"fn": None, "props": None}  # for verbatim verus text: tracked by scanning `fn name`
    while i < len(lines):
        ln = lines[i]
        s = ln.strip()
        if s.startswith("//@include "):
            inc = os.path.join(CONTRACTS, s.split(None, 1)[1].strip())
            _process_file(unit, inc, inst)
            i += 1
            continue
        if s.startswith("//@props "):
            # default property tags for the verbatim text that follows (lemmas, prelude)
            cur_fn_ctx["props"] = s.split(None, 1)[1].strip().split(",")
            i += 1
            continue
        if s.startswith("//@const "):
            a = parse_attrs(s[len("//@const "):])
            src, toks = crate_tokens(a["crate"])
            hits = [h for h in _find_seq(toks, ["const", a["name"], ":"])]
            if len(hits) != 1:
                raise ExtractError(f"lost anchor: const {a['name']} in crate {a['crate']}")
            j = hits[0]
            while toks[j].text != ";":
                # a `;` inside brackets (`[&str; 11]`) is not the end of the item
                j = match_close(toks, j) + 1 if toks[j].text in rtok.OPEN else j + 1
            ctext = src[toks[hits[0]].start:toks[j].end]
            # inside verus! an elided lifetime of a const's type is not accepted: `&str` is `&'static str` there (Rust's own rule)
            ctext = re.sub(r"&\s*str\b", "&'static str", ctext)
            unit.emit("pub " + ctext + f"   // extracted from {a['crate']}",
                      dict(kind="code", fn=a["name"], crate=a["crate"], src_fn=a["name"], props=[], file=rel))
            i += 1
            continue
        if s.startswith("//@fn "):
            blk = FnBlock(parse_attrs(s[len("//@fn "):]), (rel, i + 1))
            i += 1
            cur = None
            while i < len(lines) and lines[i].strip() != "//@end":
                l2 = lines[i]
                s2 = l2.strip()
                if s2.startswith("//@"):
                    d = s2[3:]
                    head = d.split(None, 1)[0]
                    rest = d[len(head):].strip()
                    cur = None
                    if head == "types":
                        for kv in rest.split(";"):
                            if kv.strip():
                                k, v = kv.split("=", 1)
                                blk.types.append((k.strip(), subst_inst(v.strip(), inst)))
                    elif head == "sig":
                        blk.sig = subst_inst(rest, inst)
                        cur = "sig"
                        blk.sections.setdefault("sig", [])
                    elif head == "callbacks":
                        blk.callbacks = rest.split()
                    elif head == "strip_turbofish":
                        blk.strip_turbofish = rest.split() if rest else []
                    elif head == "replace":
                        a, bb = rest.split("=>", 1)
                        blk.replaces.append((a.strip(), subst_inst(bb.strip(), inst)))
                    elif head == "spec":
                        cur = "spec"
                    elif head == "loop":
                        cur = f"loop {rest.strip()}"
                    elif head == "at":
                        cur = f"at {rest.strip()}"
                    elif head == "closure":
                        parts = rest.split(None, 1)
                        k = parts[0] if "." in parts[0] else int(parts[0])
                        tail = parts[1] if len(parts) > 1 else ""
                        if tail.strip() in ("inv", "spec", "extra"):
                            cur = f"closure {k} {tail.strip()}"
                        else:
                            blk.closures.setdefault(k, {}).update(parse_attrs(subst_inst(tail, inst)))
                    else:
                        raise ExtractError(f"{rel}:{i+1}: unknown directive {head}")
                    if cur:
                        blk.sections.setdefault(cur, [])
                else:
                    if cur is None:
                        if s2:
                            raise ExtractError(f"{rel}:{i+1}: text outside a section in //@fn block")
                    else:
                        blk.sections[cur].append((subst_inst(l2, inst), i + 1))
                i += 1
            i += 1  # skip //@end
            emit_fn(unit, blk, rel)
            continue
        # verbatim line
        m = re.match(r"\s*(pub\s+)?(open\s+|closed\s+|uninterp\s+|broadcast\s+)*(proof|spec|exec)?\s*(axiom\s+)?fn\s+([A-Za-z_0-9]+)", ln)
        if m:
            cur_fn_ctx["fn"] = m.group(5)
        props, label = parse_tags(ln)
        unit.emit(subst_inst(ln, inst), dict(kind="verbatim", file=rel, line=i + 1, fn=cur_fn_ctx["fn"],
                                              props=props or cur_fn_ctx["props"], label=label))
        i += 1


def _section_text(blk, key):
    return blk.sections.get(key, [])


def _emit_section(unit, blk, key, base):
    for (txt, ol) in _section_text(blk, key):
        props, label = parse_tags(txt)
        info = dict(base, kind="contract", section=key, cline=ol, props=props or base.get("props"), label=label)
        unit.emit(txt, info)


def emit_fn(unit, blk, rel):
    a = blk.attrs
    name = a["name"]
    crate = a["crate"]
    ctx = a.get("ctx", "")
    nth = int(a["nth"]) if "nth" in a else None
    feats = a["features"].split(",") if "features" in a else None
    newname = a.get("as", name)
    props = a.get("props", "").split(",") if a.get("props") else []
    arith = a.get("arith", "").split(",") if a.get("arith") else props
    info = find_fn(crate, ctx, name, nth, feats)
    toks, src = info["toks"], info["src"]
    # signature check (parameter names and order)
    real = [("this" if p == "self" else p) for p in real_param_names(info)]
    if blk.sig is None:
        raise ExtractError(f"{rel}: //@fn {name} has no //@sig")
    sig_text = blk.sig + "\n" + "\n".join(t for t, _ in blk.sections.get("sig", []))
    want = [("this" if p == "self" else p) for p in sig_param_names(sig_text)]
    keep_self = "self" in sig_param_names(sig_text)
    ghost_extra = [p for p in want if p.startswith("__g")]
    want_real = [p for p in want if not p.startswith("__g")]
    if real != want_real:
        raise ExtractError(f"lost anchor: parameters of {crate}::{name} are {real}, contract expects {want_real}")
    body = Body(src[toks[info["body_open"]].start:toks[info["body_close"]].end])
    base = dict(fn=newname, src_fn=name, crate=crate, ctx=ctx, props=props, arith=arith, file=rel)
    # --- rewrite rules on the body (order matters only where stated)
    r1_strip_attrs(body)
    r11_panics(body)
    if not keep_self:
        r10_self(body)
    if blk.strip_turbofish is not None:
        r2_turbofish(body, blk.strip_turbofish or None)
    r21_vec_macro(body)
    # R12: the std / tevec iterator constructors are always mapped to the A-ITER model functions
    default_r12 = [("std::iter::repeat_n", "repeat_n"), ("std::iter::repeat", "repeat"), ("TrustIter::new", "trust_iter_new")]
    for (frm, to) in blk.replaces + [d for d in default_r12 if d[0] not in [r[0] for r in blk.replaces]]:
        toks_b = body.toks()
        pat = [t.text for t in tokenize(frm)]
        hits = _find_seq(toks_b, pat)
        if not hits:
            continue   # a declared substitution that does not occur changes nothing; Verus will reject any leftover it cannot resolve
        body.edit([(toks_b[h].start, toks_b[h + len(pat) - 1].end, to) for h in hits], "R12")
    r3_types(body, blk.types)
    r6_enumerate(body)
    r20_for_iter(body)
    r15_while_let(body)
    r19_match_str(body)
    r6_enumerate(body)
    r7_destructuring_assign(body)
    r8_compound_assign(body)
    r17_float_casts(body)
    if blk.callbacks:
        r5_callbacks(body, blk.callbacks)
    # --- loop contracts (by ordinal, before closures are moved)
    MARK = "/*@@{}@@*/"
    toks_b = body.toks()
    loops = find_loops(toks_b)
    want_loops = sorted({int(k.split()[1]) for k in blk.sections if k.startswith("loop ")} |
                        {int(k.split()[2]) for k in blk.sections if k.startswith("at loop ")})
    if want_loops and max(want_loops) > len(loops):
        raise ExtractError(f"lost anchor: contract of {name} has a clause for loop {max(want_loops)}, body has {len(loops)} loops")
    nloops_decl = a.get("loops")
    if nloops_decl is not None and int(nloops_decl) != len(loops):
        raise ExtractError(f"lost anchor: {name} has {len(loops)} loops, contract written for {nloops_decl}")
    edits = []
    for k, (li, lb) in enumerate(loops, 1):
        if f"loop {k}" in blk.sections:
            edits.append((toks_b[lb].start, toks_b[lb].start, MARK.format(f"loop {k}")))
        bc = match_close(toks_b, lb)
        if f"at loop {k} first" in blk.sections:
            edits.append((toks_b[lb].end, toks_b[lb].end, MARK.format(f"at loop {k} first")))
        if f"at loop {k} last" in blk.sections:
            edits.append((toks_b[bc].start, toks_b[bc].start, MARK.format(f"at loop {k} last")))
    body.edit(edits, None)
    # --- `at let NAME after`: ghost text right after the statement `let [mut] NAME .. ;` (first binding of that name)
    for key in [k for k in blk.sections if k.startswith("at let ")]:
        parts = key.split()
        if len(parts) != 4 or parts[3] != "after":
            raise ExtractError(f"unsupported directive `{key}` in contract of {name}")
        toks_b = body.toks()
        pos = None
        for i2, t in enumerate(toks_b):
            if t.text == "let":
                j2 = i2 + 1
                if toks_b[j2].text == "mut":
                    j2 += 1
                if toks_b[j2].text == parts[2]:
                    pos = j2
                    break
        if pos is None:
            raise ExtractError(f"lost anchor: contract of {name} has ghost text after `let {parts[2]}`, the body has no such binding")
        j2 = pos
        while toks_b[j2].text != ";":
            if toks_b[j2].text in rtok.OPEN:
                j2 = match_close(toks_b, j2)
            j2 += 1
        body.edit([(toks_b[j2].end, toks_b[j2].end, MARK.format(key))], None)
    # --- closures (R9)
    closure_defs = []
    if blk.closures:
        toks_b = body.toks()
        cls = find_closures(toks_b)
        conv = [k for k in blk.closures if isinstance(k, int) and blk.closures[k].get("mode") != "annotate"]
        if conv and max(conv) > len(cls):
            raise ExtractError(f"lost anchor: contract of {name} converts closure {max(conv)}, body has {len(cls)}")
        edits = []
        top = sorted(k for k in blk.closures if isinstance(k, int))
        # a directive with key="text" addresses the first not yet claimed closure (in source order) whose text contains `text`,
        # instead of the k-th closure: annotations then survive the removal / insertion of unrelated closures
        claimed, by_key = set(), {}
        for k in top:
            key = blk.closures[k].get("key")
            if key:
                nk = rtok.norm(key)
                for ci, (s_, po_, pc_, bs_, be_) in enumerate(cls):
                    if ci not in claimed and nk in rtok.norm(body.text[toks_b[s_].start:toks_b[be_].end]):
                        claimed.add(ci)
                        by_key[k] = ci
                        break
        for k in top:
            ca = blk.closures[k]
            if ca.get("key"):
                if k not in by_key:
                    if ca.get("mode") != "annotate":
                        raise ExtractError(f"lost anchor: no closure of {name} contains `{ca['key']}` (closure {k})")
                    continue  # an annotation for a closure that no longer exists
                (s, po, pc, bs, be) = cls[by_key[k]]
            else:
                if k > len(cls):
                    continue      # an annotation (R18) for a closure that no longer exists: nothing to annotate
                (s, po, pc, bs, be) = cls[k - 1]
            cbody = body.text[toks_b[bs].start:toks_b[be].end]
            cparams = body.text[toks_b[po].end:toks_b[pc].start] if pc > po else ""
            if ca.get("mode") == "annotate":
                # R18: a closure without mutable captures stays a closure; the contract supplies its parameter types,
                # return name and requires/ensures, tuple patterns become let-bindings; the BODY is verbatim and is verified
                rep = annotate_closure(blk, k, ca, body.text, toks_b, s, po, pc, bs, be, name, MARK)
                edits.append((toks_b[s].start, toks_b[be].end, rep))
                continue
            cbody = apply_nested_annotations(blk, k, cbody, name, MARK)
            if f"at closure {k} tail" in blk.sections:
                # ghost text INSIDE the closure's block, after its tail expression has been bound to `__r`: the block's locals
                # (e.g. an inner closure value) are still in scope there, unlike in `at closure k last`
                if not cbody.lstrip().startswith("{"):
                    raise ExtractError(f"lost anchor: contract of {name} has text at the tail of closure {k}, whose body is not a block")
                cb = cbody.strip()
                inner_c = cb[1:-1]
                cut_c = tail_start(tokenize(inner_c))
                if cut_c is None:
                    raise ExtractError(f"lost anchor: contract of {name} has text at the tail of closure {k}, whose block has no tail expression")
                cbody = "{" + inner_c[:cut_c] + " let __r = " + inner_c[cut_c:].rstrip() + ";" + MARK.format(f"at closure {k} tail") + " __r }"
            closure_defs.append(make_closure(unit, blk, k, ca, cparams, cbody, body.text, toks_b, s, base))
            edits.append((toks_b[s].start, toks_b[be].end, f"&mut __clo{k}"))
        body.edit(edits, "R9")
        # declare the closure objects right before the statement that contains them
        for k in sorted(k for k in blk.closures if isinstance(k, int)):
            if blk.closures[k].get("mode") == "annotate":
                continue
            toks_b = body.toks()
            pos = None
            for i2, t in enumerate(toks_b):
                if t.text == f"__clo{k}":
                    pos = i2
                    break
            # walk back to the start of the enclosing top-level statement
            depth = 0
            j = pos
            while j > 0:
                tt = toks_b[j].text
                if tt in rtok.CLOSE:
                    depth += 1
                elif tt in rtok.OPEN:
                    if depth == 0:
                        if tt == "{":
                            break
                        # inside the argument list of a call: keep walking out to the statement
                    else:
                        depth -= 1
                elif tt == ";" and depth == 0:
                    break
                j -= 1
            ca = blk.closures[k]
            caps = parse_caps(ca.get("caps", ""))
            init = ", ".join(f"{nm}: {nm}" for (_, nm, _) in caps)
            ghost_init = ca.get("ghost_init", "h: Ghost(Seq::empty())")
            if needs_typing_pad(caps):
                ghost_init += ", __pad: Ghost(0)"
            decl = f" let mut __clo{k} = {ca['name']} {{ {init}{', ' if init else ''}{ghost_init} }}; " + \
                   (MARK.format(f"at closure {k} decl") if f"at closure {k} decl" in blk.sections else "")
            body.edit([(toks_b[j].end, toks_b[j].end, decl)], None)
            if ca.get("writeback"):
                # the closure borrows its mutable captures (no `move`): after the statement that runs it, the enclosing
                # function sees the updated values.  R9 copies them back from the closure object.
                toks_b = body.toks()
                pos = [i2 for i2, t in enumerate(toks_b) if t.text == f"__clo{k}"][-1]
                depth, j2 = 0, pos
                while j2 < len(toks_b):
                    tt = toks_b[j2].text
                    if tt in rtok.OPEN:
                        depth += 1
                    elif tt in rtok.CLOSE:
                        if depth == 0:
                            if tt == "}":
                                break
                            # leaving the argument list the closure object is passed in
                        else:
                            depth -= 1
                    elif tt == ";" and depth == 0:
                        break
                    j2 += 1
                if j2 >= len(toks_b) or toks_b[j2].text != ";":
                    raise ExtractError(f"unsupported construct: closure {k} of {name} with writeback is not inside a `;`-terminated statement")
                wb = " ".join(f"{nm} = __clo{k}.{nm};" for (m, nm, _) in caps if m)
                extra = MARK.format(f"at closure {k} after") if f"at closure {k} after" in blk.sections else ""
                body.edit([(toks_b[j2].end, toks_b[j2].end, " " + wb + " " + extra)], None)
    # --- body first/last
    txt = body.text
    inner = txt[1:-1] if txt.startswith("{") else txt
    # tail expression handling for `at body last`
    first = MARK.format("at body first") if "at body first" in blk.sections else ""
    if "at body last" in blk.sections:
        it = tokenize(inner)
        cut = tail_start(it)
        has_ret = "->" in blk.sig
        if cut is None or not has_ret:
            inner = inner + MARK.format("at body last")
        else:
            mret = re.search(r"->\s*\(\s*\w+\s*:\s*(.*)\)\s*$", blk.sig.strip(), flags=re.S)
            rty = (": " + mret.group(1).strip()) if mret else ""
            inner = inner[:cut] + f" let __ret{rty} = " + inner[cut:].rstrip() + ";" + MARK.format("at body last") + " __ret"
    final = "{" + first + inner + "}"
    # --- emit
    unit.emit(f"// ==== extracted: {crate} :: {ctx} :: fn {name}   rules applied: {sorted(set(r for r in body.rules if r))}",
              dict(base, kind="meta"))
    for cd in closure_defs:
        cd()
    hdr = dict(base, kind="sig")
    unit.emit(sig_text.rstrip(), hdr)
    _emit_section(unit, blk, "spec", base)
    emit_marked(unit, blk, final, base)
    emit_vacuity_twin(unit, blk, sig_text, newname, base)
    unit.functions.append(dict(name=newname, src_fn=name, crate=crate, ctx=ctx, props=props,
                               rules=sorted(set(r for r in body.rules if r)), template=rel,
                               closures=[blk.closures[k].get("name", f"closure{k}") for k in sorted(blk.closures, key=str)]))


def emit_vacuity_twin(unit, blk, sig_text, newname, base):
    """reachability guard behind the precondition of a contracted function (DESIGN 7): a twin with the same signature and the
    same `requires`, whose body asserts false.  Verus must FAIL it; if it verifies, the precondition is unsatisfiable (or the
    axioms in scope are contradictory) and every postcondition of the real function holds vacuously: the run ends UNDECIDED."""
    if not getattr(unit, "vacuity", False):
        return
    spec = [t for t, _ in _section_text(blk, "spec")]
    req, on = [], False
    for t in spec:
        w = t.strip().split(None, 1)[0] if t.strip() else ""
        if w == "requires":
            on = True
        elif w in ("ensures", "decreases", "recommends", "opens_invariants", "no_unwind"):
            on = False
        if on:
            req.append(t)
    if not req:
        return
    m = re.search(r"\bfn\s+" + re.escape(newname) + r"\b", sig_text)
    if not m:
        return
    tsig = sig_text[:m.start()] + "fn vacuity_" + newname + sig_text[m.end():]
    has_ret = "->" in tsig
    b = dict(base, kind="glue", fn="vacuity_" + newname, props=[])
    unit.emit("#[verifier::rlimit(4)]", b)
    unit.emit(tsig.rstrip(), b)
    for t in req:
        unit.emit(t.split("// #")[0].rstrip(), b)
    unit.emit("{ proof { assert(false); } " + ("unreached() }" if has_ret else "}"), b)


def emit_marked(unit, blk, text, base):
    """emit code text, replacing /*@@key@@*/ markers with the contract sections (with line map)"""
    parts = re.split(r"/\*@@(.*?)@@\*/", text)
    for idx, part in enumerate(parts):
        if idx % 2 == 0:
            if part.strip():
                unit.emit(part.strip("\n"), dict(base, kind="code"))
        else:
            _emit_section(unit, blk, part, base)


class Caps(list):
    """captured variables (mut, name, type); `refs` = names declared `ref x: T`: not Copy, read through a reference in `call`"""
    def __init__(self):
        super().__init__()
        self.refs = set()


def parse_caps(s):
    caps = Caps()
    for c in s.split(","):
        c = c.strip()
        if not c:
            continue
        mut = c.startswith("mut ")
        if mut:
            c = c[4:]
        ref = c.startswith("ref ")
        if ref:
            c = c[4:]
        nm, ty = c.split(":", 1)
        caps.append((mut, nm.strip(), ty.strip()))
        if ref:
            caps.refs.add(nm.strip())
    return caps


def needs_typing_pad(caps):
    """Verus emits the field-typing axiom of a struct only when some field has a bounded integer type; a closure object
    whose captures are all floats would leave `self.m: f64` untyped and the A-REAL broadcast axioms unusable on it.
    A ghost nat field (glue, erased at run time) restores the axiom."""
    return bool(caps) and not any(re.search(r"\b(usize|isize|u\d+|i\d+|nat)\b", ty) for (_, _, ty) in caps)


def make_closure(unit, blk, k, ca, cparams, cbody, ftext, ftoks, start_idx, base):
    """closure conversion (R9): returns a thunk that emits the struct + impl"""
    caps = parse_caps(ca.get("caps", ""))
    name = ca["name"]
    # cross-check the captured set: identifiers of the closure body that are `let`-bound or parameters of the
    # enclosing function before the closure, minus the closure's own parameters
    body_ids = {t.text for t in tokenize(cbody) if t.kind == "id"}
    outer = set()
    for i, t in enumerate(ftoks[:start_idx]):
        if t.text == "let":
            j = i + 1
            if ftoks[j].text == "mut":
                j += 1
            if ftoks[j].kind == "id":
                outer.add(ftoks[j].text)
            elif ftoks[j].text == "(":
                e = match_close(ftoks, j)
                outer |= {x.text for x in ftoks[j:e] if x.kind == "id" and x.text != "mut"}
    outer |= {p for p in sig_param_names(blk.sig)}
    pnames = {t.text for t in tokenize(cparams) if t.kind == "id"}
    used = (body_ids & outer) - pnames
    # a name whose first occurrence in the closure body is its own `let` binding is a local, not a capture
    ctoks = tokenize(cbody)
    for nm in list(used):
        for ci, ct in enumerate(ctoks):
            if ct.kind == "id" and ct.text == nm:
                prev = [x.text for x in ctoks[max(0, ci - 2):ci]]
                if prev[-1:] == ["let"] or prev[-2:] == ["let", "mut"]:
                    used.discard(nm)
                break
    declared = {nm for (_, nm, _) in caps}
    if used != declared:
        raise ExtractError(f"lost anchor: closure {k} of {base['src_fn']} captures {sorted(used)}, contract declares {sorted(declared)}")
    # mutability cross-check
    muts = set()
    for i, t in enumerate(ftoks[:start_idx]):
        if t.text == "let" and ftoks[i + 1].text == "mut" and ftoks[i + 2].kind == "id":
            muts.add(ftoks[i + 2].text)
        elif t.text == "let" and ftoks[i + 1].text == "(":
            e = match_close(ftoks, i + 1)
            muts |= {ftoks[j2 + 1].text for j2 in range(i + 1, e) if ftoks[j2].text == "mut" and ftoks[j2 + 1].kind == "id"}
    for (m, nm, _) in caps:
        if m != (nm in muts) and nm != "this":
            raise ExtractError(f"lost anchor: capture `{nm}` of closure {k} in {base['src_fn']}: mutability differs from contract")
    # parameter binding: the contract gives the trait-level parameter list; the closure's own patterns are bound by let
    params = ca["params"]
    real_pats = split_top(cparams)
    decl_names = [p.split(":")[0].strip() for p in split_top(params)]
    if len(real_pats) != len(decl_names):
        raise ExtractError(f"lost anchor: closure {k} of {base['src_fn']} has {len(real_pats)} parameters, contract {len(decl_names)}")
    binds = []
    for pat, dn in zip(real_pats, decl_names):
        pat = pat.strip()
        pat_nm = pat.split(":")[0].strip()
        if pat_nm != dn:
            binds.append(f"let {pat_nm} = {dn};")

    def thunk():
        b = dict(base, fn=f"{name}::call", closure=k)
        fields = " ".join(f"pub {nm}: {ty}," for (_, nm, ty) in caps)
        ghost_fields = ca.get("ghost_fields", f"pub h: Ghost<Seq<{ca.get('callty', 'Call<T, U>')}>>,")
        if needs_typing_pad(caps):
            ghost_fields += " pub __pad: Ghost<nat>,"
        unit.emit(f"pub struct {name}{ca.get('struct_generics', ca.get('generics', ''))} {{ {fields} {ghost_fields} }}", dict(b, kind="meta"))
        unit.emit(f"impl{ca.get('generics', '')} {ca['trait']} for {name}{ca.get('generics_use', '')} {{", dict(b, kind="meta"))
        for (txt, ol) in blk.sections.get(f"closure {k} extra", []):
            unit.emit(txt, dict(b, kind="contract", section="extra", cline=ol))
        imm = [(nm, ty) for (m, nm, ty) in caps if not m]
        # ghost fields that are part of the configuration (never assigned by `call`): `cfg_extra="name: Type, .."`
        for ce in split_top(ca.get("cfg_extra", "")):
            imm.append((ce.split(":")[0].strip(), ce.split(":", 1)[1].strip()))
        cfg_ty = "(" + "".join(f"{ty}, " for _, ty in imm) + ")"
        cfg_val = "(" + "".join(f"self.{nm}, " for nm, _ in imm) + ")"
        unit.emit(f"    type Cfg = {cfg_ty};", dict(b, kind="glue"))
        unit.emit(f"    open spec fn cfg(&self) -> {cfg_ty} {{ {cfg_val} }}", dict(b, kind="glue"))
        unit.emit("    open spec fn inv(&self) -> bool {", dict(b, kind="meta"))
        _emit_section(unit, blk, f"closure {k} inv", b)
        unit.emit("    }", dict(b, kind="meta"))
        unit.emit(f"    fn call(&mut self, {params}) -> {ca['ret']}", dict(b, kind="sig"))
        _emit_section(unit, blk, f"closure {k} spec", b)
        unit.emit("    {", dict(b, kind="meta"))
        for (m, nm, ty) in caps:
            amp = "&" if nm in caps.refs else ""
            unit.emit(f"        let {'mut ' if m else ''}{nm} = {amp}self.{nm};", dict(b, kind="glue"))
        for bnd in binds:
            unit.emit("        " + bnd, dict(b, kind="glue"))
        _emit_section(unit, blk, f"at closure {k} first", b)
        unit.emit("        let __r = ", dict(b, kind="glue"))
        emit_marked(unit, blk, cbody, b)
        unit.emit("        ;", dict(b, kind="glue"))
        _emit_section(unit, blk, f"at closure {k} last", b)
        push = ca.get("push")
        if push:
            unit.emit(f"        proof {{ self.h = Ghost(self.h@.push({push})); }}", dict(b, kind="glue"))
        for (m, nm, ty) in caps:
            if m:
                unit.emit(f"        self.{nm} = {nm};", dict(b, kind="glue"))
        unit.emit("        __r", dict(b, kind="glue"))
        unit.emit("    }", dict(b, kind="meta"))
        unit.emit("}", dict(b, kind="meta"))

    return thunk


def split_top(s):
    toks = tokenize(s)
    out, cur, depth = [], [], 0
    start = 0
    for i, t in enumerate(toks):
        if t.text in ("(", "[", "<", "{"):
            depth += 1
        elif t.text in (")", "]", ">", "}"):
            depth -= 1
        elif t.text == ">>":
            depth -= 2
        elif t.text == "," and depth == 0:
            out.append(s[start:t.start])
            start = t.end
    if s[start:].strip():
        out.append(s[start:])
    return [x.strip() for x in out]
