"""Witness search on the real code, run only after an obligation failed (DESIGN 2.6)."""


def search(prop, diag):
    return dict(found=False, note="no witness search implemented for this function family yet")


def replay(prop, rec):
    print(f"replay: obligation {rec.get('obligation')} — re-run ./check {prop}")
    return 0
