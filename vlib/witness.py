"""Replay of a recorded violation (the native witness search planned in DESIGN 2.6 was not built, DESIGN 11.5).

A Verus obligation has no counterexample to replay: the replay re-runs the check on /repo's current tree and reports whether
the SAME named obligation still fails.  A Kani violation carries concrete playback values; the replay re-runs that one harness
(exactly the recorded one) on the real crates."""
import os
import subprocess

from .expand import VERIF


def search(prop, diag):
    return dict(found=False, note="Verus gives no counterexample and no native witness search is implemented: no-failing-input-found")


def replay(prop, rec):
    oid = rec.get("obligation")
    if rec.get("engine") == "kani":
        from . import kani
        cmd, rc, out, wall = kani._run([rec["harness"]], extra=["--exact"], timeout=1800, jobs=1)
        res = [r for r in kani.parse(out) if r["harness"] == rec["harness"]]
        if res and res[0]["failed"] and res[0]["failed_checks"] > 0:
            print(f"replay: harness {rec['harness']} still fails on the current tree ({res[0]['failed_checks']} failed checks)")
            w = rec.get("witness") or {}
            if w.get("values"):
                print("recorded counterexample values: " + ", ".join(v["value"] for v in w["values"]))
            print(f"VIOLATION property={prop} replay={rec.get('_path', '?')}")
            return 1
        if res and res[0]["ok"]:
            print(f"replay: harness {rec['harness']} passes on the current tree")
            return 0
        print(f"UNDECIDED property={prop} reason=replay of {rec['harness']} gave no verdict")
        return 2
    p = subprocess.run([os.path.join(VERIF, "check"), prop, "--tier", "quick"], capture_output=True, text=True, cwd=VERIF)
    still = any(ln.startswith("FAILED-OBLIGATION " + str(oid)) for ln in p.stdout.splitlines())
    if still:
        print(f"replay: obligation {oid} still fails on the current tree")
        print(f"VIOLATION property={prop} replay={rec.get('_path', '?')} no-failing-input-found")
        return 1
    print(f"replay: obligation {oid} is discharged on the current tree (check exit {p.returncode})")
    return 0 if p.returncode == 0 else p.returncode
