"""Run Verus on a generated unit and turn its diagnostics into named obligations."""
import hashlib
import json
import os
import re
import subprocess
import time

from . import rtok
from .gen import parse_tags as gen_parse_tags

UNDECIDED_PATTERNS = (
    "Resource limit (rlimit) exceeded",
    "rlimit",
)

OBLIGATION_MESSAGES = {
    "postcondition not satisfied": "post",
    "precondition not satisfied": "pre",
    "invariant not satisfied before loop": "inv_init",
    "invariant not satisfied at end of loop body": "inv_step",
    "assertion failed": "assert",
    "possible arithmetic underflow/overflow": "arith",
    "possible division by zero": "div0",
    "decreases not satisfied at end of loop": "decreases",
    "decreases not satisfied at continue": "decreases",
    "could not prove termination": "decreases",
    "unable to prove assertion safety condition": "assert",
    "loop invariant not satisfied": "inv_step",
    "unable to prove post-condition of closure": "post",
    "unable to prove pre-condition of closure": "pre",
    "recommendation not met": None,  # not an obligation
}


class Diag:
    def __init__(self, unit, kind, msg, gen_line, info, clause_info, text, rendered):
        self.unit, self.kind, self.msg = unit, kind, msg
        self.gen_line, self.info, self.clause_info = gen_line, info, clause_info
        self.text, self.rendered = text, rendered

    def props(self):
        ci = self.clause_info or {}
        info = self.info or {}
        if self.kind in ("arith", "div0"):
            return info.get("arith") or info.get("props") or []
        # an explicitly tagged clause (`// #C09 label`) names the property it states.  A clause that only carries the
        # default tags of the proof-library file it lives in (a lemma's `requires`) says nothing about WHICH property the
        # failing site belongs to: that is the function the obligation arose in.
        if ci.get("props") and (ci.get("label") or not info.get("props")):
            return ci["props"]
        return info.get("props") or ci.get("props") or []

    def oid(self):
        info = self.info or {}
        ci = self.clause_info or {}
        fn = info.get("fn") or "?"
        label = ci.get("label")
        if not label:
            label = hashlib.sha1(rtok.norm(self.text or "").encode()).hexdigest()[:8]
        return f"{self.unit}.{fn}.{self.kind}.{label}"


def run_verus(unit, path, rlimit=None, timeout=600, extra=None):
    """returns dict(ok, diags=[Diag], undecided=[str], times, nfuncs, raw)"""
    cmd = ["verus", path, "--output-json", "--time", "--multiple-errors", "10"]
    if rlimit:
        cmd += ["--rlimit", str(rlimit)]
    if extra:
        cmd += extra
    cmd += ["--", "--error-format=json"]
    t0 = time.time()
    try:
        p = subprocess.run(cmd, capture_output=True, text=True, timeout=timeout, cwd=os.path.dirname(path))
    except subprocess.TimeoutExpired:
        return dict(ok=False, diags=[], undecided=[f"verus timeout after {timeout}s on {unit.name}"], times={}, funcs=[],
                    wall=time.time() - t0, cmd=" ".join(cmd), raw="")
    wall = time.time() - t0
    diags, undecided = [], []
    for ln in p.stderr.splitlines():
        ln = ln.strip()
        if not ln.startswith("{"):
            continue
        try:
            d = json.loads(ln)
        except Exception:
            continue
        if d.get("level") not in ("error",):
            continue
        msg = d.get("message", "")
        if msg.startswith("aborting due to"):
            continue
        kind = None
        for k, v in OBLIGATION_MESSAGES.items():
            if msg.startswith(k):
                kind = v
                break
        else:
            kind = "other"
        if kind is None:
            continue
        spans = d.get("spans", [])
        prim = [s for s in spans if s.get("is_primary")]
        sec = [s for s in spans if not s.get("is_primary")]
        if kind == "other":
            if any(pat in msg for pat in UNDECIDED_PATTERNS):
                where = prim[0]["line_start"] if prim else 0
                info = unit.linemap[where - 1] if 0 < where <= len(unit.linemap) else {}
                # a vacuity guard that runs out of resources could not prove `false`: that is the expected outcome
                if not str(info.get('fn') or "").startswith("vacuity_"):
                    undecided.append(f"rlimit exceeded in {info.get('fn')} ({unit.name}:{where})")
            else:
                where = prim[0]["line_start"] if prim else 0
                undecided.append(f"verus front-end error at {unit.name}:{where}: {msg}")
            continue
        pl = prim[0]["line_start"] if prim else 0
        info = unit.linemap[pl - 1] if 0 < pl <= len(unit.linemap) else {}
        clause_info = None
        text = prim[0]["text"][0]["text"].strip() if prim and prim[0].get("text") else ""
        if kind in ("post", "inv_init", "inv_step", "assert", "decreases"):
            clause_info = dict(info)
            if prim:
                # a clause may span several lines: union of the tags of all its lines, first label wins
                props, label = [], None
                for ln_no in range(prim[0]["line_start"], prim[0]["line_end"] + 1):
                    li = unit.linemap[ln_no - 1] if 0 < ln_no <= len(unit.linemap) else {}
                    tagged, lab = gen_parse_tags(unit.out_lines[ln_no - 1]) if 0 < ln_no <= len(unit.out_lines) else (None, None)
                    if tagged:
                        props += [t for t in tagged if t not in props]
                    label = label or lab
                if props:
                    clause_info["props"] = props
                if label:
                    clause_info["label"] = label
            if kind == "post" and info.get("kind") == "verbatim":
                # postcondition declared in a trait (prelude): attribute to the function whose body ends at the secondary span
                for s in sec:
                    sl = s["line_end"]
                    si = unit.linemap[sl - 1] if 0 < sl <= len(unit.linemap) else {}
                    if si.get("kind") not in (None, "verbatim"):
                        info = dict(si)
                        break
            if prim and prim[0].get("text"):
                s0 = prim[0]
                # exact clause text
                try:
                    t = s0["text"][0]
                    text = t["text"][t["highlight_start"] - 1:t["highlight_end"] - 1] if s0["line_start"] == s0["line_end"] else t["text"].strip()
                except Exception:
                    pass
        elif kind == "pre":
            # secondary span labelled "failed precondition" is the requires clause
            for s in sec:
                if "failed precondition" in (s.get("label") or ""):
                    cl = s["line_start"]
                    clause_info = unit.linemap[cl - 1] if 0 < cl <= len(unit.linemap) else None
                    ctext = ""
                    try:
                        t = s["text"][0]
                        ctext = t["text"][t["highlight_start"] - 1:t["highlight_end"] - 1]
                    except Exception:
                        pass
                    text = f"{ctext} @ {text}"
        diags.append(Diag(unit.name, kind, msg, pl, info, clause_info, text, d.get("rendered", "")))
    times, funcs, ok_json = {}, [], None
    try:
        j = json.loads(p.stdout)
        ok_json = j.get("verification-results", {})
        tm = j.get("times-ms", {})
        times = dict(total_ms=tm.get("total"), smt_ms=tm.get("smt", {}).get("total"),
                     verify_ms=tm.get("total-verify"))
        for m in tm.get("smt", {}).get("smt-run-module-times", []):
            for fb in m.get("function-breakdown", []):
                funcs.append(dict(function=fb["function"], ms=fb["time"], rlimit=fb.get("rlimit"), success=fb.get("success")))
    except Exception:
        undecided.append(f"verus produced no JSON result for {unit.name}: {p.stderr[-800:]}")
    if ok_json is not None:
        if ok_json.get("encountered-vir-error"):
            undecided.append(f"verus VIR error in {unit.name}")
        if not ok_json.get("success") and not diags and not undecided:
            undecided.append(f"verus failed without diagnostics on {unit.name}: {p.stderr[-800:]}")
    return dict(ok=(ok_json or {}).get("success", False), diags=diags, undecided=undecided, times=times,
                funcs=funcs, wall=wall, cmd=" ".join(cmd), raw=p.stderr[-20000:], results=ok_json)
