"""Kani harness runner: real crates (path deps on /repo), one cargo-kani invocation per harness group."""
import os
import re
import shutil
import subprocess
import time

from .expand import VERIF, REPO

KDIR = os.path.join(VERIF, "kani")
KTARGET = os.path.join(VERIF, "build", "kani")

# group -> dict(filter=<--harness pattern>, bounded=<None or description>, props=[...])
GROUPS = {
    "dtype_isnone": dict(filter="k_dtype::isnone_", bounded=None),
    "dtype_cast": dict(filter="k_dtype::cast_", bounded=None),
    "dtype_sortcmp": dict(filter="k_dtype::sortcmp_", bounded=None),
    "nulls_bounded": dict(filter="k_agg::bounded_nulls_", bounded="BOUNDED: every logical series of length <= 3 over {null, -2..2} in the NaN and the None encoding, plus one inserted null at every position"),
    "backend_bounded": dict(filter="k_backend::bounded_", bounded="BOUNDED: 3-4 symbolic i32 elements; Vec, fixed array, VecDeque at head offsets 0..3 of a 4-slot buffer (contiguous and wrapped), Arc<Vec> (accessors and the forwarded drivers); the five Vec fast-path drivers on series of length 1 and 3, the three output paths (returned Vec, returned VecDeque, caller buffer) and the default slice driver (rolling_custom / rolling_custom_iter) on a VecDeque of length 0, 1, 3, windows 1..=len+2; the index drivers rolling_apply_idx / rolling2_apply_idx (returned path) on a 3-element VecDeque for windows 1..4; Polars not compiled"),
    "nd_accessors_bounded": dict(filter="k_nd::bounded_accessors_", bounded="BOUNDED: ndarray backend - owned Array1 of 4 symbolic i32 and ArrayView1 `[..;k]`, k in {1, 2, -1, -2}, over a base of 5 symbolic i32: len, get, uget, titer both ways, slice, uslice, try_as_slice against the logical sequence (about 2 min)"),
    "nd_drivers_bounded": dict(filter="k_nd::bounded_drivers_", bounded="BOUNDED: ndarray backend - the overridden rolling_apply, rolling_apply_idx, rolling2_apply, rolling_custom (returned path) on ArrayView1 `[..;k]`, k in {1, -1, -2}, of a 4-element base, windows 1..=len+1: arguments of every call (about 2 min)"),
    "rank_bounded": dict(filter="k_map::rank_bounded", bounded="BOUNDED: vrank on every NaN-encoded series of length 1..=3 over {null, -1, 0, 1}: average rank among the non-null elements (asc / desc, pct), null to nulls"),
    "time_listed_bounded": dict(filter="k_time::time_listed", bounded="BOUNDED: four listed times of day (midnight, one nanosecond, a general value, the last nanosecond of the day): components, calendar time type round trip"),
    "collect_bounded": dict(filter="k_collect::bounded_", bounded="BOUNDED: collectors and buffer writers on iterators of length <= 3 with symbolic items and an error possible at every position (Vec, VecDeque; generic error and TResult); buffer / iterator length pairs from a fixed list; `format!` stubbed on the error path of write"),
    "nd_out_bounded": dict(filter="k_nd::bounded_out_", bounded="BOUNDED: a caller-supplied ndarray out buffer that is a strided view (every second slot of a 6-slot parent), rolling_apply of a 3-element Vec, windows 1..=3: results in the logical elements, nothing outside the view touched"),
    "unique_bounded": dict(filter="k_cut::bounded_sorted_unique", bounded="BOUNDED: every sorted series of length <= 5 over {0,1,2} with a null block at the head or tail, ascending and descending"),
    "roll_c03_bounded": dict(filter="k_roll::bounded_rolling_c03_", bounded="BOUNDED: ts_vmin / vmax / vargmin / vargmax, ts_vrank (exact average rank, asc / desc, pct) and ts_vminmaxnorm incl. an integer instantiation (Vec, returned path) on every NaN-encoded series of length 4 over {null, -2..2}, windows 1..=5, explicit min_periods 0..=w, against a from-scratch evaluation of each window (about 3 min)"),
    "roll_bounded": dict(filter="k_roll::bounded_rolling_", bounded="BOUNDED: ts_vsum, ts_vmean, ts_vminmaxnorm, ts_vrank (Vec, returned path) on every NaN-encoded series of length 4 over {null, -2..2}, windows 1..=5, explicit min_periods 0..=w, against a from-scratch evaluation of each window (about 3 min)"),
    "order_bounded": dict(filter="k_agg::bounded_order_", bounded="BOUNDED: vpercentile_of (strict / weak / rank proportions) on every series of length <= 4 over {null, -3..3}, every score in that domain or null"),
    "map_bounded": dict(filter="k_map::bounded_", bounded="BOUNDED: vdiff / vshift (lags -4..=4, fill null / non-null) and ffill / bfill (default null / non-null) on every NaN-encoded series of length 3 over {null, -2..2}; backstop next to the Verus map unit"),
    "agg_bounded": dict(filter="k_agg::bounded_agg_", bounded="BOUNDED: every series of length <= 4 over {null, -3..3} resp. {null, false, true} (counts, sum, extrema, first / last, any / all, masked sum / mean with a null-able mask); a stand-in next to the Verus agg / aggb units, not a proof"),
    "gen_range": dict(filter="k_gen::range_", bounded="BOUNDED: a, b, step symbolic i32 within +-2^8; complete over that band, both step directions"),
    "gen_range_wide": dict(filter="k_gen::wide_range_", bounded="BOUNDED: a, b, step symbolic i32 within +-2^12; both step directions"),
    "gen_linspace": dict(filter="k_gen::linspace_", bounded="a, b symbolic i32 within +-2^24, n <= 2^20"),
    "time_calendar_bounded": dict(filter="k_time::calendar_conversion_", bounded="BOUNDED: millisecond / microsecond date-times within +-4096 units of the epoch (includes negative, non-whole-second instants), read back with chrono's accessors; and calendar values within +-4096 units of year 2300 (outside the i64-nanosecond window) converted to second / millisecond date-times, also through the parser's routes From<NaiveDateTime> / From<NaiveDate>"),
    "time_nat": dict(filter="k_time::nat_", bounded=None),
    "time_unit_identity": dict(filter="k_time::unit_identity", bounded=None),
    "time_components": dict(filter="k_time::time_components", bounded=None),
    "time_delta_group": dict(filter="k_time::timedelta_group", bounded="operands within +-1e8 months / +-1e12 s (no component overflow); complete over that range"),
    "time_delta_scaling": dict(filter="k_time::timedelta_scaling", bounded="scale factor k in {-1, 0, 1, 2}; operands symbolic within +-1e8 months / +-1e12 s"),
    "time_delta_scaling_k3": dict(filter="k_time::timedelta_xscaling", bounded="scale factor k = 3 (5 min of CBMC); operands symbolic within +-1e8 months / +-1e12 s"),
}


def _prepare():
    lock_src = os.path.join(REPO, "Cargo.lock")
    lock_dst = os.path.join(KDIR, "Cargo.lock")
    if not os.path.exists(lock_dst):
        shutil.copy(lock_src, lock_dst)


def _run(filters, extra=None, timeout=3600, jobs=16, harness_timeout=None):
    cmd = ["cargo", "kani", "--output-format", "terse", "--target-dir", KTARGET, "-j", str(jobs),
           "-Z", "function-contracts", "-Z", "stubbing"]
    if harness_timeout:
        # per-harness limit of the back end: a harness that CBMC does not finish ends UNDECIDED on its own ("CBMC timed out")
        # and the verdicts of the other harnesses of the run are kept
        cmd += ["-Z", "unstable-options", "--harness-timeout", f"{int(harness_timeout)}s"]
    for f in filters:
        cmd += ["--harness", f]
    if extra:
        cmd += extra
    env = dict(os.environ, CARGO_NET_OFFLINE="true", RUSTFLAGS="--cfg tevec_verif")
    t0 = time.time()
    p = subprocess.Popen(cmd, cwd=KDIR, env=env, stdout=subprocess.PIPE, stderr=subprocess.PIPE, text=True, start_new_session=True)
    try:
        so, se = p.communicate(timeout=timeout)
        out = so + "\n" + se
        rc = p.returncode
    except subprocess.TimeoutExpired:
        # kill the whole process group (cargo-kani, kani-driver and every cbmc) and keep what was printed so far
        try:
            os.killpg(p.pid, 9)
        except OSError:
            pass
        so, se = p.communicate()
        out = (so or "") + "\nTIMEOUT"
        rc = -9
    return " ".join(cmd), rc, out, time.time() - t0


def parse(out):
    """-> list of dict(harness, ok, failed, checks, failed_checks, covers_sat, covers_total, text).
    Handles both the sequential format and the `-j N` format (`Thread k: Checking harness ..`, `Thread k:` result blocks)."""
    cur = {}      # thread -> harness name
    blocks = []   # (harness, [lines])
    active = None
    for ln in out.splitlines():
        m = re.match(r"^(?:Thread (\d+): )?Checking harness (.+?)\.\.\.", ln)
        if m:
            th = m.group(1) or "-"
            cur[th] = m.group(2).strip()
            if m.group(1) is None:
                blocks.append((cur[th], []))
                active = blocks[-1][1]
            else:
                active = None
            continue
        m = re.match(r"^Thread (\d+): ?$", ln.rstrip())
        if m:
            th = m.group(1)
            blocks.append((cur.get(th, "?"), []))
            active = blocks[-1][1]
            continue
        if ln.startswith("Manual Harness Summary") or ln.startswith("Complete - "):
            active = None
            continue
        if active is not None:
            active.append(ln)
    res = []
    for name, lines in blocks:
        part = "\n".join(lines)
        m = re.search(r"\*\* (\d+) of (\d+) failed", part)
        c = re.search(r"\*\* (\d+) of (\d+) cover properties satisfied", part)
        ok = "VERIFICATION:- SUCCESSFUL" in part
        failed = "VERIFICATION:- FAILED" in part
        res.append(dict(harness=name, ok=ok, failed=failed,
                        checks=int(m.group(2)) if m else 0, failed_checks=int(m.group(1)) if m else 0,
                        covers_sat=int(c.group(1)) if c else 0, covers_total=int(c.group(2)) if c else 0,
                        text=part[:6000]))
    return res


def playback(harness):
    """re-run one failed harness with concrete playback to obtain the counterexample values"""
    cmd, rc, out, wall = _run([harness], extra=["--exact", "-Z", "concrete-playback", "--concrete-playback=print"], timeout=1800, jobs=1)
    m = re.search(r"```\n(.*?)```", out, flags=re.S)
    vals = re.findall(r"//\s*(.+)\n\s*vec!\[([^\]]*)\]", out)
    return dict(found=bool(m or vals), concrete_playback_test=(m.group(1) if m else None),
                values=[dict(value=a.strip(), bytes=b.strip()) for a, b in vals][:16],
                note="values are Kani's concrete counterexample for the harness inputs; the harness calls the real /repo code")


def run_harnesses(prop, groups, tier):
    _prepare()
    undecided, failed, samples, bounded, cmds = [], [], [], [], []
    checks = nh = 0
    covers = dict(satisfied=0, total=0)
    t0 = time.time()
    filters = [GROUPS[g]["filter"] for g in groups]
    ht = int(os.environ.get("VERIF_KANI_HARNESS_TIMEOUT", "1200" if tier == "quick" else "3000"))
    cmd, rc, out, wall = _run(filters, harness_timeout=ht, timeout=ht + 1800)
    cmds.append(cmd)
    res = parse(out)
    if rc == -9:
        undecided.append(f"kani timeout for {groups}")
    if not res:
        undecided.append(f"kani produced no harness results for {groups} (build failure?): {out[-1500:]}")
    for g in groups:
        if GROUPS[g].get("bounded"):
            bounded.append(dict(group=g, bound=GROUPS[g]["bounded"]))
    for r in res:
        nh += 1
        checks += r["checks"]
        covers["satisfied"] += r["covers_sat"]
        covers["total"] += r["covers_total"]
        if not r["ok"] and not r["failed"]:
            undecided.append(f"kani harness {r['harness']} gave no verdict")
            continue
        if r["ok"] and r["covers_sat"] < r["covers_total"]:
            undecided.append(f"kani harness {r['harness']}: {r['covers_total'] - r['covers_sat']} cover(s) unsatisfied (vacuous assumptions?)")
        if r["failed"]:
            fc = re.findall(r"Failed Checks: (.*)", r["text"])
            # CBMC's float checks "NaN on division / addition / .." flag the *creation* of a NaN.  In tevec NaN is the null value
            # (0/0 for an empty window is intended), so these are not assertions of a harness and never count as failures.
            nan_checks = [x for x in fc if x.strip().startswith("NaN on ")]
            fc = [x for x in fc if not x.strip().startswith("NaN on ")]
            if nan_checks and not fc and r["failed_checks"] == len(nan_checks):
                if len(samples) < 6:
                    samples.append(dict(kind="kani harness", harness=r["harness"], checks=r["checks"],
                                        note=f"{len(nan_checks)} NaN-creation check(s) of CBMC ignored: NaN is the null value"))
                continue
            # a verdict needs CBMC's result block with at least one failed check: a crash, a kill, memory exhaustion or a
            # timeout of the back end ("CBMC failed", no `** n of m failed`) decides nothing
            if r["failed_checks"] == 0 or not fc or "CBMC failed" in r["text"] or "out of memory" in r["text"]:
                undecided.append(f"kani harness {r['harness']}: back end gave no result ({(r['text'].strip().splitlines() or ['?'])[0][:120]})")
                continue
            # unwinding / unsupported-feature failures are tool limits, not violations
            if any("unwinding assertion" in x or "not currently supported" in x for x in fc):
                undecided.append(f"kani harness {r['harness']}: {fc[0]}")
                continue
            w = playback(r["harness"]) if len(failed) < 2 else dict(found=False, note="playback limited to the first two failed harnesses of a run")
            failed.append(dict(oid=f"kani.{r['harness']}", harness=r["harness"], summary="; ".join(fc[:3]),
                               output=r["text"], witness=w))
        elif len(samples) < 6:
            samples.append(dict(kind="kani harness", harness=r["harness"], checks=r["checks"],
                                covers=f"{r['covers_sat']}/{r['covers_total']}"))
    return dict(undecided=undecided, failed=failed, checks=checks, cmds=cmds, nharness=nh, wall=round(time.time() - t0, 1),
                covers=covers, bounded=bounded, samples=samples)
