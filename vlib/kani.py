"""Kani harness runner (filled in below)."""


def run_harnesses(prop, harnesses, tier):
    return dict(undecided=[], failed=[], checks=0, cmds=[], nharness=0, wall=0, covers=None, bounded=[], samples=[])
