"""Orchestration: generate units, run verifiers, attribute failed obligations, write evidence / replay."""
import json
import os
import re
import subprocess
import sys
import time
from concurrent.futures import ThreadPoolExecutor

from . import gen, plan, verus, kani
from .expand import ExtractError, VERIF, REPO
from .rtok import tokenize

BUILD = os.path.join(VERIF, "build")
VBUILD = os.path.join(BUILD, "verus")
EVID = os.path.join(VERIF, "evidence")
REPLAY = os.path.join(VERIF, "replay")
KNOWN = os.path.join(VERIF, "known_findings.json")


class Undecided(Exception):
    pass


# ------------------------------------------------------------------------------------------------
def generate(unit_name):
    tpl, inst = plan.UNITS[unit_name]
    try:
        u = gen.process_template(unit_name, os.path.join(VERIF, "contracts", tpl), plan.INST.get(inst) if inst else None)
    except ExtractError as e:
        raise Undecided(f"extraction of unit {unit_name}: {e}")
    os.makedirs(VBUILD, exist_ok=True)
    path = os.path.join(VBUILD, unit_name.replace(".", "_") + ".rs")
    with open(path, "w") as fh:
        fh.write(u.text())
    u.path = path
    # the vacuity twin of the unit (DESIGN 7 / 11.5): same text + guards that must fail, verified separately
    try:
        uv = gen.process_template(unit_name, os.path.join(VERIF, "contracts", tpl), plan.INST.get(inst) if inst else None, vacuity=True)
        uv.path = os.path.join(VBUILD, unit_name.replace(".", "_") + "_vacuity.rs")
        with open(uv.path, "w") as fh:
            fh.write(uv.text())
        u.vac = uv
    except ExtractError:
        u.vac = None
    return u


def count_obligations(unit, prop):
    """clause-level count of what Verus is asked to prove for `prop` in this unit (see DESIGN 2.7)"""
    # callee -> tags of its requires clauses
    callee_req = {}
    mode = None
    for info, ln in zip(unit.linemap, unit.out_lines):
        s = ln.strip()
        if info.get("kind") in ("verbatim", "contract", "sig"):
            w = s.split(None, 1)[0] if s else ""
            if re.match(r"(pub\s+)?(unsafe\s+)?(proof\s+|exec\s+)?fn\s", s) or info.get("kind") == "sig":
                mode = None
            if w in ("requires", "ensures", "invariant", "decreases", "recommends"):
                mode = w
                s = s[len(w):].strip()
            if mode == "requires" and s and not s.startswith("//"):
                fn = info.get("fn")
                props, _ = gen.parse_tags(ln)
                callee_req.setdefault(fn, []).append(props)
            if s.endswith("{") or s.endswith(";") and mode in ("ensures",):
                pass
    n = dict(ensures=0, invariants=0, asserts=0, call_pre=0, arith=0, decreases=0)
    samples = []
    mode = None
    for idx, (info, ln) in enumerate(zip(unit.linemap, unit.out_lines)):
        k = info.get("kind")
        s = ln.strip()
        if not s or s.startswith("//"):
            continue
        fn = info.get("fn") or ""
        if fn.startswith("vacuity_"):
            continue
        fprops = info.get("props") or []
        if k in ("contract", "verbatim"):
            w = s.split(None, 1)[0]
            body = s
            if w in ("requires", "ensures", "invariant", "decreases", "recommends", "invariant_except_break"):
                mode = w
                body = s[len(w):].strip()
            elif k == "verbatim" and re.match(r"(pub\s+)?(open\s+|closed\s+|broadcast\s+)*(unsafe\s+)?(proof\s+|exec\s+|spec\s+|axiom\s+)*fn\s", s):
                mode = None
            if k == "contract" and info.get("section", "").startswith("at "):
                mode = "proof"
            clause = body.split("//")[0].strip().rstrip(",")
            if not clause or clause in ("{", "}"):
                continue
            tagged, label = gen.parse_tags(ln)
            props = tagged or fprops
            if prop not in props:
                continue
            if mode == "ensures" and k == "contract":
                n["ensures"] += 1
                if len(samples) < 6:
                    samples.append(dict(kind="postcondition", function=fn, clause=clause, label=label,
                                        source=f"{info.get('crate')}::{info.get('src_fn')}"))
            elif mode in ("invariant", "invariant_except_break"):
                n["invariants"] += 2
            elif mode == "decreases":
                n["decreases"] += 1
            elif mode == "proof":
                n["asserts"] += clause.count("assert(") + clause.count("assert ")
            elif mode == "ensures" and k == "verbatim" and "proof fn" in "".join(unit.out_lines[max(0, idx - 12):idx + 1]):
                n["ensures"] += 1
        elif k in ("code", "glue"):
            toks = tokenize(s)
            for i, t in enumerate(toks):
                if t.kind == "id" and i + 1 < len(toks) and toks[i + 1].text == "(" and t.text in callee_req:
                    for tags in callee_req[t.text]:
                        if prop in (tags or fprops):
                            n["call_pre"] += 1
                            if len(samples) < 10 and t.text in ("uget", "uset", "call", "uslice", "assume_init"):
                                samples.append(dict(kind="call-site precondition", callee=t.text, function=fn,
                                                    site=s[:120], source=f"{info.get('crate')}::{info.get('src_fn')}"))
                if t.kind == "punct" and t.text in ("+", "-", "*", "/", "%") and i > 0 and toks[i - 1].text not in ("(", ",", "=", "==", "<", ">", "{", "return"):
                    if prop in (info.get("arith") or fprops):
                        n["arith"] += 1
    return n, samples


def load_known():
    if not os.path.exists(KNOWN):
        return []
    with open(KNOWN) as fh:
        return json.load(fh).get("findings", [])


# ------------------------------------------------------------------------------------------------
def _report_kani_violations(prop, kviol, idx=0):
    os.makedirs(REPLAY, exist_ok=True)
    for h in kviol:
        idx += 1
        rp = os.path.join(REPLAY, f"{prop}-{idx}.json")
        with open(rp, "w") as fh:
            json.dump(dict(property=prop, obligation=h["oid"], engine="kani", harness=h["harness"],
                           verifier_output=h["output"], witness=h.get("witness")), fh, indent=1)
        tail = "" if (h.get("witness") and h["witness"].get("found")) else " no-failing-input-found"
        print(f"FAILED-OBLIGATION {h['oid']} [kani harness {h['harness']}] {h.get('summary', '')}")
        print(f"VIOLATION property={prop} replay={rp}{tail}")


def check_property(prop, tier, seed):
    """A failed Kani harness is a concrete refutation on the real compiled code: it is reported as a violation even when the
    deductive side ends undecided (lost anchor, unsupported construct) - the two verdicts are independent."""
    holder = {}
    try:
        return _check_property(prop, tier, seed, holder)
    except Undecided as e:
        kres = holder.get("kres")
        if kres:
            known_ids = {k["obligation"] for k in load_known() if k.get("property") == prop and k.get("status") == "known"}
            kviol = [h for h in kres["failed"] if h["oid"] not in known_ids]
            if kviol:
                print(f"NOTE deductive side undecided ({e}); the failing harnesses below are independent of it")
                write_undecided_evidence(prop, tier, seed, f"{e}; plus {len(kviol)} failing Kani harnesses", violations=len(kviol))
                _report_kani_violations(prop, kviol)
                return 1
        raise


def _check_property(prop, tier, seed, holder):
    t0 = time.time()
    if prop not in plan.PLAN:
        raise Undecided(f"property {prop} has no check (see MANIFEST.not_applicable)")
    unit_names = plan.units_for(prop, tier)
    harnesses = plan.kani_for(prop, tier)
    # 1. generate (sequential: shares the expansion cache) then verify in parallel
    units, gen_undecided = [], []
    for un in unit_names:
        try:
            units.append(generate(un))
        except Undecided as e:
            gen_undecided.append(str(e))
    results = {}
    with ThreadPoolExecutor(max_workers=max(1, min(16, 2 * len(units) + 1))) as ex:
        futs = {ex.submit(verus.run_verus, u, u.path): u for u in units}
        vfuts = {ex.submit(verus.run_verus, u.vac, u.vac.path): u for u in units if getattr(u, "vac", None)}
        kfut = ex.submit(kani.run_harnesses, prop, harnesses, tier) if harnesses else None
        for f, u in futs.items():
            results[u.name] = f.result()
        vac_results = {u.name: f.result() for f, u in vfuts.items()}
        kres = kfut.result() if kfut else None
    holder["kres"] = kres
    if gen_undecided:
        raise Undecided("; ".join(gen_undecided[:4]))
    # stability retry: a function whose query hit the resource limit is re-run under other SMT seeds; a proof found under
    # any seed is a proof (recorded as unstable in the evidence), a real failure under another seed is reported as such
    unstable = []
    for u in units:
        r = results[u.name]
        rl = [x for x in r["undecided"] if x.startswith("rlimit exceeded in ")]
        if not rl:
            continue
        pending = {x.split()[3] for x in rl}
        for seed_k in (1, 2, 3):
            if not pending:
                break
            r2 = verus.run_verus(u, u.path, extra=["--smt-option", f"smt.random_seed={seed_k}"])
            rl2 = {x.split()[3] for x in r2["undecided"] if x.startswith("rlimit exceeded in ")}
            if [x for x in r2["undecided"] if not x.startswith("rlimit exceeded in ")]:
                continue
            for fn in sorted(pending - rl2):
                pending.discard(fn)
                unstable.append(dict(unit=u.name, function=fn, proved_with_seed=seed_k))
                r["undecided"] = [x for x in r["undecided"] if not x.startswith(f"rlimit exceeded in {fn} ")]
                r["diags"] += [d for d in r2["diags"] if ((d.info or {}).get("fn") == fn)]
                for f in r["funcs"]:
                    if f["function"].split("::")[-1] == fn.split("::")[-1]:
                        f["success"] = not any((d.info or {}).get("fn") == fn for d in r2["diags"])
    undecided, failed, other_failed = [], [], 0
    nfunc_ok = nfunc = 0
    vac_expected = vac_failed = 0
    counts = dict(ensures=0, invariants=0, asserts=0, call_pre=0, arith=0, decreases=0)
    samples, functions, slow, dropped, assumptions_scan = [], [], [], {}, {}
    solver_ms = 0
    for u in units:
        r = results[u.name]
        undecided += r["undecided"]
        # vacuity guards: every function named vacuity_* must FAIL
        # (they live in the unit's vacuity twin file; of that run only the guards are looked at)
        rv = vac_results.get(u.name)
        vac_fns = [f for f in (rv["funcs"] if rv else []) if "vacuity_" in f["function"]]
        for f in vac_fns:
            vac_expected += 1
            if f["success"]:
                undecided.append(f"vacuity guard {f['function']} verified: contradictory assumptions or unsatisfiable precondition")
            else:
                vac_failed += 1
        want_vac = sum(1 for ln in u.vac.out_lines if re.search(r"\bfn\s+vacuity_", ln)) if getattr(u, "vac", None) else 0
        if not r["undecided"] and len(vac_fns) < want_vac:
            front = [x for x in (rv["undecided"] if rv else []) if "front-end" in x or "VIR" in x or "no JSON" in x or "timeout" in x]
            undecided.append(f"unit {u.name}: {want_vac} vacuity guards generated, verus reported {len(vac_fns)} {front[:1]}")
        for d in r["diags"]:
            fn = (d.info or {}).get("fn") or ""
            if fn.startswith("vacuity_"):
                continue
            if (d.info or {}).get("kind") == "verbatim" and (d.clause_info or {}).get("kind") in (None, "verbatim"):
                # a failure inside the proof library itself (lemmas / prelude text that does not depend on /repo) is solver
                # instability, never evidence against the code: UNDECIDED
                undecided.append(f"proof-library obligation failed in {u.name}:{fn} ({d.msg}): solver instability, not a violation")
                continue
            if prop in d.props() or not d.props():
                failed.append(d)
            else:
                other_failed += 1
        for f in r["funcs"]:
            if "vacuity_" in f["function"]:
                continue
            nfunc += 1
            nfunc_ok += 1 if f["success"] else 0
            if not f["success"]:
                # consistency guard: a function under a contract of THIS property that Verus did not verify must show up as a
                # failed obligation of this property (or as undecided) - never be dropped by the attribution rules
                short = f["function"].split("::", 1)[-1]
                owns = [fn for fn in u.functions if prop in (fn["props"] or [prop]) and
                        (fn["name"] == short or short in [f"{c}::call" for c in fn.get("closures", [])] or short.split("::")[0] in fn.get("closures", []))]
                attributed = any(((d.info or {}).get("fn") or "") == short for d in failed)
                if owns and not attributed and not r["undecided"]:
                    undecided.append(f"{u.name}:{short} was not verified but no failed obligation is attributed to {prop} (attribution gap)")
            slow.append((f["ms"], f["function"]))
        c, smp = count_obligations(u, prop)
        for k in counts:
            counts[k] += c[k]
        samples += smp
        functions += [dict(f, unit=u.name) for f in u.functions if prop in f["props"] or not f["props"]]
        for f in u.functions:
            dropped[f"{u.name}:{f['name']}"] = f["rules"]
        txt = u.text()
        for pat in ("assume(", "admit(", "external_body", "assume_specification", "axiom fn", "uninterp spec fn"):
            assumptions_scan[pat] = assumptions_scan.get(pat, 0) + txt.count(pat)
        solver_ms += (r["times"].get("smt_ms") or 0)
    if kres:
        undecided += kres["undecided"]
    if undecided:
        raise Undecided("; ".join(undecided[:4]))
    n_obl = sum(counts.values()) + (kres["checks"] if kres else 0)
    if n_obl == 0:
        raise Undecided(f"no obligation tagged {prop} was generated (generator regression?)")
    # 2. known findings
    known = [k for k in load_known() if k.get("property") == prop and k.get("status") == "known"]
    known_ids = {k["obligation"] for k in known}
    viol, known_hit = [], []
    seen = set()
    for d in failed:
        oid = d.oid()
        if oid in seen:
            continue
        seen.add(oid)
        (known_hit if oid in known_ids else viol).append(d)
    kviol = []
    if kres:
        for h in kres["failed"]:
            oid = h["oid"]
            if oid in known_ids:
                known_hit.append(h)
            else:
                kviol.append(h)
    for k in known_hit:
        oid = k.oid() if hasattr(k, "oid") else k["oid"]
        what = next((x.get("what", "") for x in known if x["obligation"] == oid), "")
        print(f"KNOWN-FINDING: property={prop} {oid} {what}")
    n_failed = len(viol) + len(kviol) + len(known_hit)
    # 3. evidence
    slow.sort(reverse=True)
    ev = dict(
        property_id=prop, tier=tier, seed=seed, level=plan.PLAN[prop].get("level", "proof"),
        coverage=dict(
            obligations=n_obl, discharged=n_obl - min(n_obl, n_failed),
            checker_cmd="; ".join([results[u.name]["cmd"] for u in units] + (kres["cmds"][:2] if kres else [])),
            trusted_base=plan.PLAN[prop].get("trusted", ["A-EXTRACT", "A-TOOLS"]),
            obligation_breakdown=dict(counts, kani_checks=(kres["checks"] if kres else 0)),
            counting_rule="clause-level count by the generator over the line map of the generated units: ensures clauses, "
                          "2 per loop-invariant clause (entry+preservation), decreases, proof asserts, one per (call site x callee "
                          "precondition), one per integer arithmetic site (overflow/underflow), plus Kani property checks reported by CBMC",
            functions_verified=nfunc_ok, functions_total=nfunc,
            functions_under_contract=functions[:80],
            backends={"verus/z3": nfunc, "kani/cbmc": (kres["nharness"] if kres else 0)},
            solver_time_ms=solver_ms, kani_time_s=(kres["wall"] if kres else 0),
            slowest_functions=[dict(function=f, ms=ms) for ms, f in slow[:5]],
            unstable_functions=unstable,
            extraction_dropped=dropped,
            assumptions_scan=assumptions_scan,
            vacuity=dict(guards_expected_to_fail=vac_expected, guards_failed_as_expected=vac_failed,
                         kani_covers=(kres["covers"] if kres else None)),
            bounded=(kres["bounded"] if kres else []),
            failed_obligations_attributed_to_other_properties=other_failed,
            known_findings_hit=[(k.oid() if hasattr(k, "oid") else k["oid"]) for k in known_hit],
            not_covered=plan.PLAN[prop].get("not_covered", []),
            samples=samples[:12] + ((kres["samples"][:6]) if kres else []),
        ),
        assumptions=plan.PLAN[prop].get("assumptions", []),
        wall_s=round(time.time() - t0, 2),
        violations=len(viol) + len(kviol),
    )
    os.makedirs(EVID, exist_ok=True)
    with open(os.path.join(EVID, f"{prop}.json"), "w") as fh:
        json.dump(ev, fh, indent=1, default=str)
    if not viol and not kviol:
        print(f"OK property={prop} tier={tier} obligations={n_obl} discharged={n_obl - len(known_hit)} "
              f"verus_functions={nfunc_ok}/{nfunc} kani_harnesses={(kres['nharness'] if kres else 0)} wall={ev['wall_s']}s")
        return 0
    # 4. violations: witness search + replay files
    os.makedirs(REPLAY, exist_ok=True)
    from . import witness
    idx = 0
    for d in viol:
        idx += 1
        oid = d.oid()
        info = d.info or {}
        src = locate_source(info)
        w = witness.search(prop, d)
        rp = os.path.join(REPLAY, f"{prop}-{idx}.json")
        with open(rp, "w") as fh:
            json.dump(dict(property=prop, obligation=oid, engine="verus", kind=d.kind, message=d.msg,
                           function=info.get("fn"), source=src, clause=d.text, unit=d.unit,
                           generated_file=os.path.join(VBUILD, d.unit.replace('.', '_') + ".rs"), generated_line=d.gen_line,
                           verifier_output=d.rendered, witness=w), fh, indent=1)
        tail = "" if (w and w.get("found")) else " no-failing-input-found"
        print(f"FAILED-OBLIGATION {oid} [{d.msg}] at {src} :: {d.text[:160]}")
        print(f"VIOLATION property={prop} replay={rp}{tail}")
    _report_kani_violations(prop, kviol, idx)
    return 1


def locate_source(info):
    """best effort /repo file:line of the function an obligation belongs to"""
    crate, fn, ctx = info.get("crate"), info.get("src_fn"), info.get("ctx") or ""
    if not crate or not fn:
        return f"{info.get('file')}:{info.get('line', info.get('cline', '?'))}"
    root = os.path.join(REPO, crate, "src")
    names = [fn] + ([fn[:-3]] if fn.endswith("_to") else [])
    pats = [re.compile(r"\bfn\s+" + re.escape(n) + r"\b") for n in names]
    m = re.match(r"\s*(?:pub\s+)?mod\s+(\w+)", ctx)
    want_file = (m.group(1) + ".rs") if m else None
    key = re.sub(r"<[^>]*>", "", ctx)
    key_ids = [w for w in re.findall(r"[A-Za-z_]\w*", key) if w not in ("pub", "trait", "impl", "for", "mod", "U", "T")]
    best = None
    for dp, _, files in os.walk(root):
        for f in sorted(files):
            if not f.endswith(".rs"):
                continue
            p = os.path.join(dp, f)
            try:
                txt = open(p).read()
            except Exception:
                continue
            for i, ln in enumerate(txt.splitlines(), 1):
                if any(pt.search(ln) for pt in pats):
                    score = (2 if want_file == f else 0) + sum(1 for k in key_ids if k in txt)
                    if key_ids and re.search(r"(impl(<[^>]*>)?|trait|for)\s+" + re.escape(key_ids[-1]) + r"\b[^;]*\{", txt):
                        score += 3
                    if best is None or score > best[0]:
                        best = (score, f"{os.path.relpath(p, REPO)}:{i} (fn {fn})")
                    break
    return best[1] if best else f"{crate}::{fn}"


def write_undecided_evidence(prop, tier, seed, reason, violations=0):
    os.makedirs(EVID, exist_ok=True)
    ev = dict(property_id=prop, tier=tier, seed=seed, level="other",
              coverage=dict(explanation=f"UNDECIDED: {reason}", obligations=0, discharged=0),
              wall_s=0.0, violations=violations)
    with open(os.path.join(EVID, f"{prop}.json"), "w") as fh:
        json.dump(ev, fh, indent=1)


def replay(prop, path):
    from . import witness
    with open(path) as fh:
        r = json.load(fh)
    r["_path"] = path
    return witness.replay(prop, r)
