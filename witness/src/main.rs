use std::collections::VecDeque;
use tevec::prelude::*;
fn main() {
    let a: VecDeque<f64> = vec![1., 2., 3., 4.].into();
    let b: VecDeque<f64> = vec![1., 5.].into();
    let r: Vec<f64> = a.ts_vcov(&b, 2, None);
    println!("VecDeque: 4 inputs, second series of 2 -> {} outputs: {:?}", r.len(), r);
    let r2 = std::panic::catch_unwind(|| { let r: Vec<f64> = vec![1., 2., 3., 4.].ts_vcov(&vec![1., 5.], 2, None); r });
    println!("Vec: {:?}", r2.map(|v| v.len()));
}
