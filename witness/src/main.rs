use tevec::prelude::*;
fn main() {
    let s: Vec<f64> = (0..40).map(|i| (i as f64 * 0.05).sin()).collect();
    println!("half_life = {}", s.half_life(Some(1)));
}
