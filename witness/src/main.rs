use tevec::prelude::*;
fn main() {
    let v: Vec<i64> = Vec1Create::range(Some(0), 5, Some(2)); println!("range(0,5,2) = {:?}", v);
    let v: Vec<i64> = Vec1Create::range(Some(5), 0, Some(-2)); println!("range(5,0,-2) = {:?}", v);
    let v: Vec<i64> = Vec1Create::range(Some(0), 6, Some(2)); println!("range(0,6,2) = {:?}", v);
    let v: Vec<f64> = Vec1Create::range(Some(0.), 1., Some(0.25)); println!("range(0,1,.25) = {:?}", v);
    let v: Vec<f64> = Vec1Create::range(Some(0.), 1., Some(0.3)); println!("range(0,1,.3) = {:?}", v);
    let v: Vec<i64> = Vec1Create::range(Some(5), 0, Some(1)); println!("range(5,0,1) = {:?}", v);
    let v: Vec<usize> = Vec1Create::range(Some(5), 0, Some(1)); println!("usize range(5,0,1) = {:?}", v);
}
