use tevec::prelude::*;
fn main() {
    let v = vec![1.0f64, 2.0, 3.0];
    let r: Vec<f64> = v.ts_vsum(0, None);
    println!("ts_vsum(window = 0) on Vec -> {:?}", r);
}
