use tevec::prelude::*;
fn main() {
    let v = vec![1i32, 2, 3, 4];
    let mut it = v.titer().vshift(1, Some(0));
    let _first = Iterator::next(&mut it);
    let out: Vec<i32> = it.collect_trusted_vec1();      // safe code: allocates size_hint (4), writes 3, set_len(4)
    println!("{:?}", out);
}
