use tevec::prelude::*;
fn main() {
    let a = vec![1.0f64, 2.0, 3.0, 4.0];
    let b = vec![1.0f64];
    let r: Vec<f64> = a.ts_vcov(&b, 2, None);
    println!("{:?}", r);
}
