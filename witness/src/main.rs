use tevec::prelude::*;
fn main() {
    let x: Vec<f64> = (0..20).map(|i| i as f64).collect();
    println!("half_life(0..20) = {}", x.half_life(None));
    for lag in 8..14 { let c: f64 = x.titer().vcorr_pearson(x.titer().vshift(lag, None), 10); println!("  corr(lag {}) = {}", lag, c); }
}
