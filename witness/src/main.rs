use tevec::prelude::*;
fn main() {
    let a = vec![f64::NAN, 2., 3., 5.];
    let b = vec![1., 2., 4., 4.];
    let r = std::panic::catch_unwind(|| { let r: Vec<f64> = a.ts_vcov(&b, 3, Some(0)); r });
    println!("ts_vcov mp=0: {:?}", r.map_err(|_| "PANIC"));
    let r: Vec<f64> = a.ts_vcov(&b, 3, Some(1)); println!("ts_vcov mp=1: {:?}", r);
}
