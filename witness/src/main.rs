use tevec::prelude::*;
fn main() {
    let x = vec![1., 2., 3., 4., 5.];
    let r: Vec<f64> = x.ts_vreg_resid_mean(3, None); println!("resid_mean of a perfect line = {:?}", r);
    let r: Vec<f64> = x.ts_vreg_slope(3, None); println!("slope = {:?}", r);
    let big: Vec<f64> = (0..60000).map(|i| (i % 7) as f64).collect();
    let r = std::panic::catch_unwind(|| { let r: Vec<f64> = big.ts_vreg_slope(60000, Some(2)); r[59999] });
    println!("slope n=60000: {:?}", r.map_err(|_| "PANIC"));
}
