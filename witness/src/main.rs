use tevec::prelude::*;
fn main() {
    for s in ["ab", "99999999999999999999d", "9223372036854775807w", "+-5d", "1d h", "3000000000mo", "9223372036854775807s", "1h30m", "-2y1mo", "", "12", "é1d", "1é"] {
        let r = std::panic::catch_unwind(|| TimeDelta::parse(s));
        match r { Ok(v) => println!("{:?} -> {:?}", s, v.map(|t| (t.months, t.inner.num_nanoseconds()))), Err(_) => println!("{:?} -> PANIC", s) }
    }
}
