use tevec::prelude::*;
fn main() {
    for (s, d) in [("2020-01-15 10:11:12", "3mo"), ("2020-01-15 10:11:12", "1mo"), ("2020-05-31 10:11:12", "6mo"), ("2020-05-31 10:11:12", "1y"), ("2020-12-31 23:59:59", "1mo"), ("2020-03-31 00:00:00", "2mo")] {
        let dt: DateTime = s.parse().unwrap();
        let td = TimeDelta::parse(d).unwrap();
        println!("{s} trunc {d} -> {:?}", dt.duration_trunc(td));
    }
}
