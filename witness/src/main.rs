use tevec::prelude::*;
fn main() {
    let v = vec![f64::NAN, 3., f64::NAN];
    println!("quantile 0.5 of [NaN,3,NaN] = {:?}", v.vquantile(0.5, QuantileMethod::Linear));
    println!("median = {:?}", v.vmedian());
}
