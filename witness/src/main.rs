use std::collections::VecDeque;
use tevec::prelude::*;
fn main() {
    let e: VecDeque<f64> = VecDeque::new();
    let r: Vec<f64> = e.ts_vmin(3, None);
    println!("vmin on empty VecDeque: {:?}", r);
    let r: Vec<f64> = e.ts_vrank(3, None, false, false);
    println!("vrank on empty VecDeque: {:?}", r);
    let r: Vec<f64> = e.ts_vsum(3, None);
    println!("vsum on empty VecDeque: {:?}", r);
    let v: Vec<f64> = vec![];
    let r: Vec<f64> = v.ts_vrank(3, None, false, false);
    println!("vrank on empty Vec: {:?}", r);
    let d: VecDeque<f64> = vec![3., 1., 2.].into();
    let r: Vec<f64> = d.ts_vmin(2, None);
    println!("vmin on deque: {:?}", r);
}
