use tevec::prelude::*;
fn main() {
    for v in [vec![None, Some(1)], vec![None, None, Some(1), Some(1), Some(2)], vec![Some(1), Some(1), Some(2), None], vec![Some(1), Some(2)]] {
        let first: Vec<usize> = v.titer().vsorted_unique_idx(Keep::First).collect();
        let last: Vec<usize> = v.titer().vsorted_unique_idx(Keep::Last).collect();
        println!("{:?}: first={:?} last={:?}", v, first, last);
    }
}
