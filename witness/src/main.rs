use tevec::prelude::*;
fn main() {
    let v = vec![3., f64::NAN, 1.];
    let r: Vec<f64> = v.vpartition(4, true, false).collect_trusted_to_vec(); println!("vpartition(4,sort) = {:?}", r);
    let r: Vec<f64> = v.vpartition(4, false, false).collect_trusted_to_vec(); println!("vpartition(4,nosort) = {:?}", r);
    let r: Vec<i32> = v.varg_partition(4, true, false).collect_trusted_to_vec(); println!("varg_partition(4,sort) = {:?}", r);
}
